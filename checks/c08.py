"""C08 sizes, alignments and layouts equal the System V x86-64 psABI.

E2 twin check on compile-time tables.  Every case declares one type/object; the same generated unit is compiled by the
chibicc under test and by gcc -O0 (the psABI reference).  Each compiler emits sizeof / _Alignof / offsetof / _Generic
identity into a static table; for bit-fields a tiny setter stores all-ones into exactly that member of a zeroed object
and the byte image reveals the bit position.  A gcc-compiled driver (harness/c08_driver.c) compares table against
table and image against image.  A boring Python model (6.7.2p2 table, declarator arithmetic, psABI struct layout) is the
second oracle: a case is judged only where model and gcc agree.

Families (all exhaustive inside the stated bounds, see gen_*):
  A  every permutation of every valid C11 6.7.2p2 specifier multiset, with qualifiers / storage class / _Alignas
     interleaved at every position, in declaration, typedef, type-name, member and block-scope contexts
  B  declarators: every valid composition of {pointer, array, function} up to length 3 (thorough 4) around several
     base types; minimal and fully parenthesised spelling; named, typedef, abstract and parameter contexts
  C  structs and unions: every member sequence up to length 3 (thorough 4) over the member alphabet x attributes
  Z  the _Alignas dimension of the struct/union family (reported as struct/union cases): one member declared with
     _Alignas(operand), operand x target x position x context.  The operand ranges over constants and constant
     expressions (0, 1..64, sizeof/_Alignof/shift/enum/cast expressions) AND over type names of every class: scalars,
     pointers, arrays (of scalars, of structs, multi-dimensional), structs/unions whose size differs from their alignment
     ({int;int;int}, {char c[5];}, {long double;char;}, packed, aligned, with bit-fields, with a flexible member, written
     inline), typedef names of all these (also typeof, max_align_t), and nested requirements (the named struct/union has
     itself an _Alignas(constant | type-name) member; arrays, typedefs and pointers of those) - see _OPS.
     Targets (TGT): char/short/int/long/long double/pointer/char[3]/short[2]/struct members, the aligned-storage idiom
     `_Alignas(T) unsigned char buf[sizeof(T)]`, an anonymous struct member, two declarators sharing the specifier; the
     specifier stands at every position of the target's specifier list.  Pairs of specifiers in one declaration (the
     strictest wins, 6.7.5p6) over MULTI_OPS^2.  Only declarations C11 defines are generated (6.7.5p4).  Facts: sizeof,
     _Alignof, offsetof of every member, and for the _Alignas member sizeof / _Alignof(expression) of the member, of an
     array of the enclosing type, of its elements and of the member inside an element.
  D  stddef.h types, enums; the operand alphabet itself (sizeof/_Alignof of every type name, value of every constant);
     objects declared with _Alignas(operand) - the same operand alphabet x object targets x position, pairs of
     specifiers - in four storage classes (file scope external / internal linkage, static local, automatic), and
     objects and arrays of a struct type with an _Alignas(type-name) member: the address (run time), sizeof and
     _Alignof(expression) of the object, its elements and members

Verdicts.  A failing struct/union case is shrunk by dropping members (and the attribute) while the same kind of failure
persists - every sub-sequence is itself an enumerated case, so this is a table lookup - and reported as
`C08|<struct|union>|<attribute>:<member kind classes>|<deviation class>`.  One systematic defect of the pinned tree is a
listed finding (findings.d/C08.txt): bit-fields inside packed structs.  It is recognised only when *every* observed fact
of the case equals the transcription of chibicc's algorithm (layout(flavor="chibicc")); any other wrong answer in a
packed struct keeps its own signature, so the finding does not blind the check.  Two more deviations found by the
_Alignas dimension are handled the same way while their proposed fixes are pending: of several _Alignas specifiers the
last one wins (layout(lw=True)), and _Alignof(lvalue) ignores the alignment of the declaration (GNU semantics; the
observed value must be exactly the alignment of the operand's type).  When chibicc rejects or crashes on a
batch, the offending cases are isolated one by one, reported, and still judged on sizeof/_Alignof alone if that compiles.
"""
import os, re, itertools
from vlib import core, twin

LEVEL = "exploration"
BUDGET = {"quick": 900, "thorough": 3600}
PER_BATCH = 1500

# ------------------------------------------------------------------------------------------------------------------
# primitive types (psABI figure 3.1)
PRIM = [  # name, size, align
    ("_Bool", 1, 1), ("char", 1, 1), ("signed char", 1, 1), ("unsigned char", 1, 1), ("short", 2, 2), ("unsigned short", 2, 2),
    ("int", 4, 4), ("unsigned int", 4, 4), ("long", 8, 8), ("unsigned long", 8, 8), ("long long", 8, 8),
    ("unsigned long long", 8, 8), ("float", 4, 4), ("double", 8, 8), ("long double", 16, 16)]
PID = dict((p[0], i) for i, p in enumerate(PRIM))
GENERIC = ", ".join("%s:%d" % (p[0], i) for i, p in enumerate(PRIM)) + ", default:99"
# chibicc has one type for char/signed char and one for long/long long; with the association list above it then
# answers with the first compatible entry.  Identity is compared only up to that merge.
MERGE = {PID["signed char"]: PID["char"], PID["long long"]: PID["long"], PID["unsigned long long"]: PID["unsigned long"]}

# C11 6.7.2p2 (void, _Complex, _Atomic(), struct/union/enum/typedef-name rows are not specifier multisets)
MULTISETS = [
    (("char",), "char"), (("signed", "char"), "signed char"), (("unsigned", "char"), "unsigned char"),
    (("short",), "short"), (("signed", "short"), "short"), (("short", "int"), "short"), (("signed", "short", "int"), "short"),
    (("unsigned", "short"), "unsigned short"), (("unsigned", "short", "int"), "unsigned short"),
    (("int",), "int"), (("signed",), "int"), (("signed", "int"), "int"),
    (("unsigned",), "unsigned int"), (("unsigned", "int"), "unsigned int"),
    (("long",), "long"), (("signed", "long"), "long"), (("long", "int"), "long"), (("signed", "long", "int"), "long"),
    (("unsigned", "long"), "unsigned long"), (("unsigned", "long", "int"), "unsigned long"),
    (("long", "long"), "long long"), (("signed", "long", "long"), "long long"), (("long", "long", "int"), "long long"),
    (("signed", "long", "long", "int"), "long long"),
    (("unsigned", "long", "long"), "unsigned long long"), (("unsigned", "long", "long", "int"), "unsigned long long"),
    (("float",), "float"), (("double",), "double"), (("long", "double"), "long double"), (("_Bool",), "_Bool")]


def case(cid, fam, decl="", facts=(), blk="", bfacts=(), img=None, model=None, meta=None, shape="", reduced=None):
    """decl/blk/exprs use '@' for the per-batch case index.  facts: [(label, expr)] compile-time; blk: statements run
    in block scope with bfacts [(label, expr)] evaluated there; img: (object type, [member designators])."""
    return {"cid": cid, "fam": fam, "decl": decl, "facts": list(facts), "blk": blk, "bfacts": list(bfacts), "img": img,
            "model": model or {}, "meta": meta, "shape": shape, "reduced": reduced}


# ------------------------------------------------------------------------------------------------------------------
# Family A: specifier permutations
def interleavings(seq, extras):
    """All merges of seq with the sequence extras (both orders kept)."""
    n, m = len(seq), len(extras)
    for pos in itertools.combinations(range(n + m), m):
        out, si, ei = [], 0, 0
        ps = set(pos)
        for k in range(n + m):
            if k in ps:
                out.append(extras[ei]); ei += 1
            else:
                out.append(seq[si]); si += 1
        yield tuple(out)


def gen_A(tier, only=None):
    cases = []
    Q = ["const", "volatile"]
    SF = ["static", "extern", "typedef"]
    SB = ["register", "auto", "static"]
    AL = "_Alignas(16)"
    for mi, (ms, tname) in enumerate(MULTISETS):
        if only is not None and mi != only:
            continue
        tid = PID[tname]
        sz, al = PRIM[tid][1], PRIM[tid][2]
        perms = sorted(set(itertools.permutations(ms)))
        mdl = {"size": sz, "align": al, "id": tid}
        shape0 = "+".join(sorted(ms))
        for perm in perms:
            # extras sets per context
            ex_decl = [()] + [(q,) for q in Q] + [(s,) for s in SF] + [(AL,)]
            ex_decl += [(a, b) for a in Q + SF for b in Q + SF if a != b and not (a in SF and b in SF)]
            ex_decl += [(AL, s) for s in ("static", "extern", "const")] + [(s, AL) for s in ("static", "extern", "const")]
            TL = "_Thread_local"
            ex_decl += [(TL,), (TL, "static"), ("static", TL), (TL, "extern"), ("extern", TL), (TL, "const"), ("volatile", TL)]
            if tier == "thorough":
                ex_decl += [(a, b, c) for a in Q + SF for b in Q + SF for c in Q + SF
                            if len({a, b, c}) == 3 and sum(x in SF for x in (a, b, c)) <= 1]
            ex_type = [()] + [(q,) for q in Q] + [("const", "volatile"), ("volatile", "const")]
            ex_memb = ex_type + [(AL,), (AL, "const"), ("const", AL)]
            ex_blk = [()] + [(s,) for s in SB] + [(s, q) for s in SB for q in Q] + [(q, s) for s in SB for q in Q]
            for ctx_name, exs in (("decl", ex_decl), ("type", ex_type), ("member", ex_memb), ("block", ex_blk)):
                for ex in exs:
                    for toks in interleavings(perm, ex):
                        spec = " ".join(toks)
                        cid = "A/%s/%s" % (ctx_name, ",".join(toks))
                        shape = "%s/%s/%s" % (shape0, ctx_name, "+".join(sorted(set(ex))) or "-")
                        if ctx_name == "decl" and "typedef" in ex:
                            if AL in ex:
                                continue
                            c = case(cid, "A", "%s T@;" % spec,
                                     [("size", "sizeof(T@)"), ("align", "_Alignof(T@)"), ("id", "_Generic((T@)0, %s)" % GENERIC)],
                                     model=mdl, shape=shape)
                        elif ctx_name == "decl":
                            v = "FN(v@)"
                            c = case(cid, "A", "%s %s;" % (spec, v),
                                     [("size", "sizeof(%s)" % v), ("align", "_Alignof(__typeof__(%s))" % v),
                                      ("id", "_Generic(%s, %s)" % (v, GENERIC))], model=mdl, shape=shape)
                        elif ctx_name == "type":
                            c = case(cid, "A", "", [("size", "sizeof(%s)" % spec), ("align", "_Alignof(%s)" % spec),
                                                    ("id", "_Generic((%s)0, %s)" % (spec, GENERIC))], model=mdl, shape=shape)
                        elif ctx_name == "member":
                            a2 = 16 if AL in ex else al
                            m2 = {"size": sz, "id": tid, "off": a2, "ssize": (a2 + sz + a2 - 1) // a2 * a2, "salign": a2}
                            c = case(cid, "A", "struct M@ { char pad; %s m; };" % spec,
                                     [("size", "sizeof(((struct M@ *)0)->m)"), ("id", "_Generic(((struct M@ *)0)->m, %s)" % GENERIC),
                                      ("off", "offsetof(struct M@, m)"), ("ssize", "sizeof(struct M@)"), ("salign", "_Alignof(struct M@)")],
                                     model=m2, shape=shape)
                        else:
                            c = case(cid, "A", blk="%s v;" % spec,
                                     bfacts=[("size", "sizeof(v)"), ("align", "_Alignof(__typeof__(v))"), ("id", "_Generic(v, %s)" % GENERIC)],
                                     model=mdl, shape=shape)
                        cases.append(c)
    return cases


# ------------------------------------------------------------------------------------------------------------------
# Family B: declarators
BASES = [("char", 1, 1), ("short", 2, 2), ("int", 4, 4), ("unsigned long", 8, 8), ("long double", 16, 16),
         ("struct B0", 8, 4), ("union B1", 16, 16), ("double", 8, 8), ("_Bool", 1, 1), ("float", 4, 4)]
B_PRELUDE = "struct B0 { char x; int y; }; union B1 { char x; long double y; };\n"
ARR_N = [3, 5, 7, 2]


def shapes(maxlen):
    out = [()]
    frontier = [()]
    for _ in range(maxlen):
        nxt = []
        for s in frontier:
            for d in "PAF":
                if s and ((s[-1] == "A" and d == "F") or (s[-1] == "F" and d in "AF")):
                    continue            # array of functions; function returning array / function
                nxt.append(s + (d,))
        out += nxt
        frontier = nxt
    return out


def render_declarator(shape, name, full_parens, params, na=0):
    """shape[0] is the derivation closest to the identifier ("name is a <shape[0]> of <shape[1]> of ... base")."""
    s = name
    for d in shape:
        if d == "P":
            s = "*" + s
        else:
            if s.startswith("*"):
                s = "(" + s + ")"
            if d == "A":
                s += "[%d]" % ARR_N[na]; na += 1
            else:
                s += params
        if full_parens and s:
            s = "(" + s + ")"
    return s


def shape_facts(shape, base, e, params_call):
    """Peel the type level by level; returns [(label, expr)], model dict."""
    # sizes from the inside out
    # array lengths are assigned in reading order from the identifier outwards
    lens = []
    na = 0
    for d in shape:
        if d == "A":
            lens.append(ARR_N[na]); na += 1
        else:
            lens.append(None)
    cur = (base[1], base[2])
    lv = [None] * (len(shape) + 1)
    lv[len(shape)] = cur
    for k in range(len(shape) - 1, -1, -1):
        d = shape[k]
        if d == "P":
            cur = (8, 8)
        elif d == "A":
            cur = (cur[0] * lens[k], cur[1])
        else:
            cur = None
        lv[k] = cur
    facts, model = [], {}
    for k in range(len(shape) + 1):
        if lv[k] is not None:
            facts.append(("size%d" % k, "sizeof(%s)" % e)); model["size%d" % k] = lv[k][0]
            facts.append(("align%d" % k, "_Alignof(__typeof__(%s))" % e)); model["align%d" % k] = lv[k][1]
        if k < len(shape):
            d = shape[k]
            e = "(*%s)" % e if d == "P" else ("%s[0]" % e if d == "A" else "%s%s" % (e, params_call))
    return facts, model


def gen_B(tier):
    cases = []
    maxlen = 3 if tier == "quick" else 4
    bases = BASES[:6] if tier == "quick" else BASES
    for shape in shapes(maxlen):
        sname = ".".join(shape) or "-"
        for base in bases:
            bn = base[0].replace(" ", "_")
            for fp in (False, True):
                for pi, (params, pcall) in enumerate((("(void)", "()"), ("(int a, char *b)", "(0,0)"))):
                    if pi and "F" not in shape:
                        continue
                    style = ("full" if fp else "min") + ("+params" if pi else "")
                    # named extern declaration
                    d = render_declarator(shape, "FN(x@)", fp, params)
                    facts, model = shape_facts(shape, base, "FN(x@)", pcall)
                    cases.append(case("B/named/%s/%s/%s" % (sname, bn, style), "B", "extern %s %s;" % (base[0], d), facts,
                                      model=model, shape="%s/%s/named" % (sname, style)))
                    if not shape or shape[0] != "F":
                        # typedef and abstract type-name: the whole type only
                        d = render_declarator(shape, "T@", fp, params)
                        m0 = dict((k, v) for k, v in model.items() if k.endswith("0"))
                        cases.append(case("B/typedef/%s/%s/%s" % (sname, bn, style), "B", "typedef %s %s;" % (base[0], d),
                                          [("size0", "sizeof(T@)"), ("align0", "_Alignof(T@)")], model=m0,
                                          shape="%s/%s/typedef" % (sname, style)))
                        # abstract declarator: parenthesise only non-empty sub-declarators (`()` would be a function)
                        a = render_declarator(shape, "", False, params)
                        if fp and a:
                            a2 = render_declarator(shape, "\x00", True, params).replace("(\x00)", "").replace("\x00", "")
                            a = a2
                        tn = ("%s %s" % (base[0], a)).strip()
                        cases.append(case("B/abstract/%s/%s/%s" % (sname, bn, style), "B", "",
                                          [("size0", "sizeof(%s)" % tn), ("align0", "_Alignof(%s)" % tn)], model=m0,
                                          shape="%s/%s/abstract" % (sname, style)))
                    if shape and not pi:
                        # parameter context: arrays and functions adjust to pointers (6.7.6.3p7,p8)
                        adj = ("P",) + shape[1:] if shape[0] in "AF" else shape
                        d = render_declarator(shape, "x", fp, params)
                        f2, m2 = shape_facts(adj, base, "x", pcall)
                        f2, m2 = f2[:2], dict((k, m2[k]) for k in ("size0", "align0"))
                        cases.append(case("B/param/%s/%s/%s" % (sname, bn, style), "B",
                                          "static long pf@(%s %s) { return sizeof(x) * 1000 + _Alignof(__typeof__(x)); }" % (base[0], d),
                                          blk="", bfacts=[("param", "pf@(0)")], model={"param": m2["size0"] * 1000 + m2["align0"]},
                                          shape="%s/%s/param" % (sname, style)))
    # derived types reached through a typedef: `typedef base D1 T; extern T D2 x;` is D2 applied to (D1 of base)
    sh2 = [x for x in shapes(2) if x]
    for s1 in sh2:
        for s2 in sh2:
            if (s2[-1] == "A" and s1[0] == "F") or (s2[-1] == "F" and s1[0] in "AF"):
                continue
            comp = s2 + s1
            for base in (BASES[0], BASES[4], BASES[5]):
                for fp in (False, True):
                    t = render_declarator(s1, "T@", fp, "(void)", na=s2.count("A"))
                    d = render_declarator(s2, "FN(x@)", fp, "(void)")
                    facts, model = shape_facts(comp, base, "FN(x@)", "()")
                    cases.append(case("B/via-typedef/%s/%s/%s/%s" % (".".join(s2), ".".join(s1), base[0].replace(" ", "_"), "full" if fp else "min"),
                                      "B", "typedef %s %s; extern T@ %s;" % (base[0], t, d), facts, model=model,
                                      shape="%s/of-typedef-%s/%s" % (".".join(s2), ".".join(s1), "full" if fp else "min")))
    return cases


# ------------------------------------------------------------------------------------------------------------------
# Family C: structs and unions
def up(x, a):
    return (x + a - 1) // a * a


SCALARS = {"c": ("char", 1), "s": ("short", 2), "i": ("int", 4), "l": ("long", 8), "f": ("float", 4), "d": ("double", 8),
           "ld": ("long double", 16), "p": ("void *", 8)}
BFT = {"c": ("char", 1), "uc": ("unsigned char", 1), "s": ("short", 2), "i": ("int", 4), "u": ("unsigned", 4), "l": ("long", 8),
       "ul": ("unsigned long", 8), "b": ("_Bool", 1)}
# nested aggregates: spelling, size, align, named leaves [(suffix, byte offset)], bit leaves [(suffix, bit offset, width)]
AGG = {
    "S": ("struct { char x; int y; }", 8, 4, [("x", 0), ("y", 4)], []),
    "U": ("union { char x; long y; }", 8, 8, [("x", 0), ("y", 0)], []),
    "PS": ("struct __attribute__((packed)) { char x; int y; }", 5, 1, [("x", 0), ("y", 1)], []),
    "S16": ("struct { char x; } __attribute__((aligned(16)))", 16, 16, [("x", 0)], []),
    "B": ("struct { int x : 3; int y : 9; char z; }", 4, 4, [("z", 2)], [("x", 0, 3), ("y", 3, 9)]),
    "U16": ("union { char x; long double y; }", 16, 16, [("x", 0), ("y", 0)], []),
    "N": ("struct { char x; struct { short z; } y; }", 4, 2, [("x", 0), ("y", 2), ("y.z", 2)], []),
}
# several declarators in one member declaration (they share the specifiers, including _Alignas)
MULTI = {
    "cc": ("char %s, %s_;", [("f", 1, 1, False), ("f", 1, 1, False)]),
    "A8cc": ("_Alignas(8) char %s, %s_;", [("f", 1, 8, True), ("f", 1, 8, True)]),
    "ibb": ("int %s: 3, %s_: 5;", [("bf", 4, 3), ("bf", 4, 5)]),
    "lbc": ("long %s: 33, : 0, %s_;", [("bf", 8, 33), ("bf0", 8, 0), ("f", 8, 8, False)]),
}


# ---- the operand alphabet of _Alignas ---------------------------------------------------------------------------
# `_Alignas(constant-expression)` and `_Alignas(type-name)` (C11 6.7.5).  The operand ranges over constants and over
# type names of every class; most aggregate and array types have size != alignment, so a size/alignment mix-up (or any
# other wrong answer for a class of type names) shows in offsets, sizeof and _Alignof of the enclosing type.
# Named types an operand may need (declared once per case, '@' = case index): key -> (declaration, prerequisites)
ODEFS = {
    "pt2": ("struct pt2_@ { int x, y; };", ()),
    "pt3": ("struct pt3_@ { int x, y, z; };", ()),
    "c5": ("struct c5_@ { char c[5]; };", ()),
    "ldc": ("struct ldc_@ { long double a; char b; };", ()),
    "cs": ("struct cs_@ { char a; short b; char c; };", ()),
    "rec": ("struct rec_@ { char k; double d; short s; };", ()),
    "l3": ("struct l3_@ { long a, b, c; };", ()),
    "u9": ("union u9_@ { char c[9]; long l; };", ()),
    "u3": ("union u3_@ { short s; char c[3]; };", ()),
    "pk": ("struct __attribute__((packed)) pk_@ { char c; int i; };", ()),
    "al16": ("struct al16_@ { char x; } __attribute__((aligned(16)));", ()),
    "bf": ("struct bf_@ { int a : 3; char b; };", ()),
    "fam": ("struct fam_@ { int n; char d[]; };", ()),
    "en": ("enum en_@ { EA_@ };", ()),
    "ek": ("enum { EK_@ = 8 };", ()),
    # structs and unions that themselves have an _Alignas member (nested alignment requirements)
    "na": ("struct na_@ { char t; _Alignas(8) char m; };", ()),
    "nb": ("struct nb_@ { _Alignas(struct pt3_@) char m; char n[5]; };", ("pt3",)),
    "nc": ("struct nc_@ { _Alignas(struct na_@) short s; char e; };", ("na",)),
    "nd": ("struct nd_@ { char a; _Alignas(16) char b; char c; };", ()),
    "nu": ("union nu_@ { char a; _Alignas(4) char b[6]; };", ()),
    # typedef names
    "PT3": ("typedef struct pt3_@ PT3_@;", ("pt3",)),
    "C5": ("typedef struct c5_@ C5_@;", ("c5",)),
    "LDC": ("typedef struct ldc_@ LDC_@;", ("ldc",)),
    "NA": ("typedef struct na_@ NA_@;", ("na",)),
    "quad": ("typedef int quad_@[4];", ()),
    "quad2": ("typedef quad_@ quad2_@[2];", ("quad",)),
    "s3": ("typedef struct { short a, b, c; } s3_@;", ()),
    "ca7": ("typedef char ca7_@[7];", ()),
    "word": ("typedef long word_@;", ()),
    "fp": ("typedef void (*fp_@)(int);", ()),
}
# operand: (key, class, spelling, named types needed, sizeof or None for a constant, alignment it requests)
_OPS = [
    ("k0", "const", "0", (), None, 0), ("k1", "const", "1", (), None, 1), ("k2", "const", "2", (), None, 2),
    ("k4", "const", "4", (), None, 4), ("k8", "const", "8", (), None, 8), ("k16", "const", "16", (), None, 16),
    ("k32", "const", "32", (), None, 32), ("k64", "const", "64", (), None, 64),
    ("xsi", "const", "sizeof(int)", (), None, 4), ("xald", "const", "_Alignof(long double)", (), None, 16),
    ("xsh", "const", "1 << 3", (), None, 8), ("xsub", "const", "sizeof(struct pt3_@) - 4", ("pt3",), None, 8),
    ("xaldc", "const", "_Alignof(struct ldc_@)", ("ldc",), None, 16), ("xek", "const", "EK_@", ("ek",), None, 8),
    ("xspt2", "const", "sizeof(struct pt2_@)", ("pt2",), None, 8), ("xcast", "const", "(char)2", (), None, 2),
    ("char", "scalar", "char", (), 1, 1), ("schar", "scalar", "signed char", (), 1, 1), ("uchar", "scalar", "unsigned char", (), 1, 1),
    ("bool", "scalar", "_Bool", (), 1, 1), ("short", "scalar", "short", (), 2, 2), ("ushort", "scalar", "unsigned short", (), 2, 2),
    ("int", "scalar", "int", (), 4, 4), ("uint", "scalar", "unsigned", (), 4, 4), ("long", "scalar", "long", (), 8, 8),
    ("ulong", "scalar", "unsigned long", (), 8, 8), ("llong", "scalar", "long long", (), 8, 8),
    ("ullint", "scalar", "long long unsigned int", (), 8, 8), ("float", "scalar", "float", (), 4, 4),
    ("double", "scalar", "double", (), 8, 8), ("ldouble", "scalar", "long double", (), 16, 16),
    ("enum", "scalar", "enum en_@", ("en",), 4, 4), ("cint", "scalar", "const int", (), 4, 4), ("vlong", "scalar", "volatile long", (), 8, 8),
    ("vptr", "pointer", "void *", (), 8, 8), ("cptr", "pointer", "char *", (), 8, 8), ("ipp", "pointer", "int **", (), 8, 8),
    ("fptr", "pointer", "int (*)(void)", (), 8, 8), ("aptr", "pointer", "int (*)[3]", (), 8, 8),
    ("sptr", "pointer", "struct pt3_@ *", ("pt3",), 8, 8), ("iptr", "pointer", "struct nodef_@ *", (), 8, 8),
    ("ccptr", "pointer", "const char *const", (), 8, 8),
    ("ca3", "array", "char[3]", (), 3, 1), ("ca5", "array", "char[5]", (), 5, 1), ("sa2", "array", "short[2]", (), 4, 2),
    ("sa3", "array", "short[3]", (), 6, 2), ("ia3", "array", "int[3]", (), 12, 4), ("ia4", "array", "int[4]", (), 16, 4),
    ("la2", "array", "long[2]", (), 16, 8), ("da3", "array", "double[3]", (), 24, 8), ("lda2", "array", "long double[2]", (), 32, 16),
    ("ia23", "array", "int[2][3]", (), 24, 4), ("pa3", "array", "char *[3]", (), 24, 8),
    ("pt3a2", "array", "struct pt3_@[2]", ("pt3",), 24, 4), ("c5a3", "array", "struct c5_@[3]", ("c5",), 15, 1),
    ("ldca2", "array", "struct ldc_@[2]", ("ldc",), 64, 16), ("u9a2", "array", "union u9_@[2]", ("u9",), 32, 8),
    ("pt2", "struct", "struct pt2_@", ("pt2",), 8, 4), ("pt3", "struct", "struct pt3_@", ("pt3",), 12, 4),
    ("c5", "struct", "struct c5_@", ("c5",), 5, 1), ("ldc", "struct", "struct ldc_@", ("ldc",), 32, 16),
    ("cs", "struct", "struct cs_@", ("cs",), 6, 2), ("rec", "struct", "struct rec_@", ("rec",), 24, 8),
    ("l3", "struct", "struct l3_@", ("l3",), 24, 8), ("u9", "struct", "union u9_@", ("u9",), 16, 8),
    ("u3", "struct", "union u3_@", ("u3",), 4, 2), ("pk", "struct", "struct pk_@", ("pk",), 5, 1),
    ("al16", "struct", "struct al16_@", ("al16",), 16, 16), ("bf", "struct", "struct bf_@", ("bf",), 4, 4),
    ("fam", "struct", "struct fam_@", ("fam",), 4, 4),
    ("inl", "struct", "struct { int a, b, c; }", (), 12, 4), ("inlu", "struct", "union { char c[5]; short s; }", (), 6, 2),
    ("PT3", "typedef", "PT3_@", ("PT3",), 12, 4), ("C5", "typedef", "C5_@", ("C5",), 5, 1), ("LDC", "typedef", "LDC_@", ("LDC",), 32, 16),
    ("quad", "typedef", "quad_@", ("quad",), 16, 4), ("quad2", "typedef", "quad2_@", ("quad2",), 32, 4),
    ("s3", "typedef", "s3_@", ("s3",), 6, 2), ("ca7", "typedef", "ca7_@", ("ca7",), 7, 1), ("word", "typedef", "word_@", ("word",), 8, 8),
    ("fp", "typedef", "fp_@", ("fp",), 8, 8), ("PT3a", "typedef", "PT3_@[3]", ("PT3",), 36, 4),
    ("maxal", "typedef", "max_align_t", (), 32, 16), ("sizet", "typedef", "size_t", (), 8, 8), ("wchar", "typedef", "wchar_t", (), 4, 4),
    ("tofs", "typedef", "__typeof__(struct pt3_@)", ("pt3",), 12, 4), ("tofe", "typedef", "__typeof__(0L)", (), 8, 8),
    ("na", "nested", "struct na_@", ("na",), 16, 8), ("nb", "nested", "struct nb_@", ("nb",), 8, 4),
    ("nc", "nested", "struct nc_@", ("nc",), 8, 8), ("nd", "nested", "struct nd_@", ("nd",), 32, 16),
    ("nu", "nested", "union nu_@", ("nu",), 8, 4), ("naa3", "nested", "struct na_@[3]", ("na",), 48, 8),
    ("NA", "nested", "NA_@", ("NA",), 16, 8), ("ndp", "nested", "struct nd_@ *", ("nd",), 8, 8),
]
OPS = dict((o[0], {"key": o[0], "cls": o[1], "text": o[2], "defs": o[3], "size": o[4], "align": o[5]}) for o in _OPS)
OPCLASSES = ["const", "scalar", "pointer", "array", "struct", "typedef", "nested"]
# pairs of alignment specifiers in one declaration (6.7.5p6: the strictest wins, zero has no effect) range over this
MULTI_OPS = ["k0", "k2", "k4", "k8", "k16", "char", "int", "long", "ldouble", "pt3", "c5", "ldc", "quad", "na", "sa3", "vptr"]
# what is declared with the alignment specifier: key -> (specifier tokens, declarator, sizeof (None: sizeof operand),
# natural alignment, form).  {n} = member/object name, {X} = the (first) operand.  The specifier is inserted at every
# position of the specifier tokens (quick: in front of them; behind them for a few targets).
TGT = {
    "c": (("char",), "{n}", 1, 1, "plain"), "s": (("short",), "{n}", 2, 2, "plain"), "i": (("int",), "{n}", 4, 4, "plain"),
    "l": (("long",), "{n}", 8, 8, "plain"), "ld": (("long", "double"), "{n}", 16, 16, "plain"), "p": (("void",), "*{n}", 8, 8, "plain"),
    "ca3": (("char",), "{n}[3]", 3, 1, "array"), "sa2": (("short",), "{n}[2]", 4, 2, "array"),
    "buf": (("unsigned", "char"), "{n}[sizeof({X})]", None, 1, "array"),          # the aligned-storage idiom
    "c5": (("struct { char c[5]; }",), "{n}", 5, 1, "plain"), "pt2": (("struct { int x, y; }",), "{n}", 8, 4, "plain"),
    "anon": (("struct { char {n}q; }",), "", 1, 1, "anon"),                          # anonymous struct member
    "cc": (("char",), "{n}, {n}_", 1, 1, "cc"),                                      # two declarators share the specifier
}
TGT_OBJ = ["c", "s", "i", "l", "ld", "ca3", "sa2", "buf", "c5", "pt2"]


def op_defs(keys):
    """declarations needed by the operands, prerequisites first, each once"""
    out = []

    def need(k):
        for p in ODEFS[k][1]:
            need(p)
        if ODEFS[k][0] not in out:
            out.append(ODEFS[k][0])
    for k in keys:
        need(k)
    return out


def alignas_decl(opkeys, tk, pos, n):
    """One declaration `<specifiers with _Alignas(op)... inserted at pos> <declarator>` (no semicolon).
    -> None when C11 does not define it (6.7.5p4: the combined alignment is weaker than the type requires), else
    dict(text, defs, size, align (declared), ua, talign (alignment of the type), lw_align / lw_ua (the same under
    'the last specifier wins'))."""
    ops = [OPS[k] for k in opkeys]
    spec, dtor, sz, nat, form = TGT[tk]
    if sz is None:
        if len(ops) != 1 or not ops[0]["size"]:
            return None
        sz = ops[0]["size"]
    k = max(o["align"] for o in ops)
    if k and k < nat:
        return None
    als = ["_Alignas(%s)" % o["text"] for o in ops]
    toks = list(spec)
    if pos == "s":                                  # split: one specifier in front, the rest behind
        if len(ops) < 2:
            return None
        toks = als[:1] + toks + als[1:]
    else:
        p = int(pos)
        if p > len(toks):
            return None
        toks[p:p] = als
    text = (" ".join(toks) + " " + dtor).replace("{n}", n).replace("{X}", ops[0]["text"]).strip()
    klast = ops[-1]["align"]
    defs = []
    for o in ops:
        for d in op_defs(o["defs"]):
            if d not in defs:
                defs.append(d)
    return {"text": text, "defs": defs, "size": sz, "align": max(k, nat), "ua": k != 0, "talign": nat, "form": form,
            "lw_align": klast or nat, "lw_ua": klast != 0}


def z_member(code, j):
    """member code `Z.<operand>[+<operand>].<target>.<position>`"""
    _, opk, tk, pos = code.split(".")
    n = "m%d" % j
    d = alignas_decl(opk.split("+"), tk, pos, n)
    if d is None:
        raise ValueError(code)
    form = d["form"]
    names = [n + "q"] if form == "anon" else ([n, n + "_"] if form == "cc" else [n])
    ms = [{"k": "f", "size": d["size"], "align": d["align"], "ua": d["ua"], "sub": [(nm, 0)], "subbits": [],
           "lw_align": d["lw_align"], "lw_ua": d["lw_ua"]} for nm in names]
    # _Alignof(expression) and sizeof of the member itself (not for the member of the anonymous struct: that
    # declaration carries no alignment specifier)
    ea = [] if form == "anon" else [(nm, d["talign"], d["size"]) for nm in names]
    return {"decl": d["text"] + ";", "offs": names, "bits": [], "m": ms if len(ms) > 1 else ms[0], "pre": d["defs"], "ea": ea}


def member(code, j):
    """-> dict(decl, offs[(label, designator)], bits[(label, designator)], m=model member)."""
    n = "m%d" % j
    if code.startswith("Z."):
        return z_member(code, j)
    if code in MULTI:
        fmt, parts = MULTI[code]
        names = [n, n + "_"]
        out = {"decl": fmt % (n, n), "offs": [], "bits": [], "m": []}
        for part in parts:
            if part[0] == "f":
                nm = names.pop(0)
                out["offs"].append(nm)
                out["m"].append({"k": "f", "size": part[1], "align": part[2], "ua": part[3], "sub": [(nm, 0)], "subbits": []})
            elif part[0] == "bf":
                nm = names.pop(0)
                out["bits"].append(nm)
                out["m"].append({"k": "bf", "size": part[1], "width": part[2], "named": True, "name": nm})
            else:
                out["m"].append({"k": "bf", "size": part[1], "width": 0, "named": False, "name": None})
        return out
    if code in SCALARS:
        t, sz = SCALARS[code]
        return {"decl": "%s %s;" % (t, n), "offs": [n], "bits": [], "m": {"k": "f", "size": sz, "align": sz, "ua": False, "sub": [(n, 0)], "subbits": []}}
    m = re.fullmatch(r"([a-z]+)a(\d+)", code)
    if m:                                              # array, e.g. ca3 = char[3]
        t, sz = SCALARS[m.group(1)]; k = int(m.group(2))
        return {"decl": "%s %s[%d];" % (t, n, k), "offs": [n], "bits": [], "m": {"k": "f", "size": sz * k, "align": sz, "ua": False, "sub": [(n, 0)], "subbits": []}}
    m = re.fullmatch(r"([a-z]+)F", code)
    if m:                                              # flexible array member
        t, sz = SCALARS[m.group(1)]
        return {"decl": "%s %s[];" % (t, n), "offs": [n], "bits": [], "fam": True,
                "m": {"k": "f", "size": 0, "align": sz, "ua": False, "sub": [(n, 0)], "subbits": []}}
    m = re.fullmatch(r"A(\d+)([a-z]+)", code)
    if m:                                              # _Alignas(k) scalar
        k = int(m.group(1)); t, sz = SCALARS[m.group(2)]
        return {"decl": "_Alignas(%d) %s %s;" % (k, t, n), "offs": [n], "bits": [],
                "m": {"k": "f", "size": sz, "align": max(k, sz), "ua": k != 0, "sub": [(n, 0)], "subbits": []}}
    m = re.fullmatch(r"A([LD])([a-z]+)", code)
    if m:                                              # _Alignas(type-name) scalar
        k = 8 if m.group(1) == "L" else 16; t, sz = SCALARS[m.group(2)]
        return {"decl": "_Alignas(%s) %s %s;" % ("long" if k == 8 else "long double", t, n), "offs": [n], "bits": [],
                "m": {"k": "f", "size": sz, "align": max(k, sz), "ua": True, "sub": [(n, 0)], "subbits": []}}
    m = re.fullmatch(r"Sa(\d+)", code)
    if m:                                              # array of struct S
        k = int(m.group(1))
        return {"decl": "%s %s[%d];" % (AGG["S"][0], n, k), "offs": [n, "%s[%d].y" % (n, k - 1)], "bits": [],
                "m": {"k": "f", "size": 8 * k, "align": 4, "ua": False, "sub": [(n, 0), ("%s[%d].y" % (n, k - 1), 8 * (k - 1) + 4)], "subbits": []}}
    m = re.fullmatch(r"(a?)(S|U|PS|S16|B|U16|N)", code)
    if m:
        spell, sz, al, leaves, bl = AGG[m.group(2)]
        if m.group(1):                                 # anonymous member: leaves are renamed per position
            sp = re.sub(r"\b([xyz])\b", lambda mm: n + mm.group(1), spell)
            return {"decl": "%s;" % sp, "offs": [n + s for s, o in leaves], "bits": [n + s for s, o, w in bl],
                    "m": {"k": "f", "size": sz, "align": al, "ua": False, "sub": [(n + s, o) for s, o in leaves],
                          "subbits": [(n + s, o, w) for s, o, w in bl]}}
        return {"decl": "%s %s;" % (spell, n), "offs": [n] + ["%s.%s" % (n, s) for s, o in leaves], "bits": ["%s.%s" % (n, s) for s, o, w in bl],
                "m": {"k": "f", "size": sz, "align": al, "ua": False, "sub": [(n, 0)] + [("%s.%s" % (n, s), o) for s, o in leaves],
                      "subbits": [("%s.%s" % (n, s), o, w) for s, o, w in bl]}}
    m = re.fullmatch(r"([a-z]+):(-?)(\d+)", code)
    if m:                                              # bit-field; '-' = unnamed
        t, sz = BFT[m.group(1)]; w = int(m.group(3)); named = not m.group(2) and w > 0
        return {"decl": "%s %s: %d;" % (t, n if named else "", w), "offs": [], "bits": [n] if named else [],
                "m": {"k": "bf", "size": sz, "width": w, "named": named, "name": n}}
    raise ValueError(code)


def layout(kind, attr, mems, flavor, lw=False):
    """Reference layout ("abi": psABI as implemented by gcc) or transcription of chibicc's algorithm ("chibicc").
    lw: transcription of 'the last of several _Alignas specifiers wins' (C11: the strictest wins).
    -> (size, align, {designator: byte offset}, {designator: (bit offset, width)}, {designator: alignment of the member})"""
    packed = "packed" in attr
    ak = max([int(a[8:-1]) for a in attr if a.startswith("aligned")] or [0])
    offs, bitpos, eff = {}, {}, {}

    def malign(m):
        al, ua = (m.get("lw_align", m["align"]), m.get("lw_ua", m["ua"])) if lw else (m["align"], m["ua"])
        a = al if (not packed or ua) else 1
        eff[m["sub"][0][0]] = a
        return a
    if kind == "union":
        size = 0; al = 1
        for m in mems:
            if m["k"] == "bf":
                if flavor == "abi":
                    size = max(size, (m["width"] + 7) // 8)
                    if m["named"] and not packed:
                        al = max(al, m["size"])
                else:
                    size = max(size, (m["width"] + 7) // 8)
                    if m["named"] and not packed:
                        al = max(al, m["size"])
                if m["named"]:
                    bitpos[m["name"]] = (0, m["width"])
            else:
                a = malign(m)
                al = max(al, a); size = max(size, m["size"])
                for s, o in m["sub"]:
                    offs[s] = o
                for s, o, w in m["subbits"]:
                    bitpos[s] = (o, w)
        al = max(al, ak)
        return up(size, al), al, offs, bitpos, eff
    bits = 0; al = 1
    for m in mems:
        if m["k"] == "bf":
            tb = m["size"] * 8
            if m["width"] == 0:
                bits = up(bits, tb)
            else:
                if (flavor == "chibicc" or not packed) and bits // tb != (bits + m["width"] - 1) // tb:
                    bits = up(bits, tb)
                if m["named"]:
                    bitpos[m["name"]] = (bits, m["width"])
                    if not packed:
                        al = max(al, m["size"])
                bits += m["width"]
        else:
            a = malign(m)
            bits = up(bits, a * 8)
            for s, o in m["sub"]:
                offs[s] = bits // 8 + o
            for s, o, w in m["subbits"]:
                bitpos[s] = (bits + o, w)
            bits += m["size"] * 8
            al = max(al, a)
    al = max(al, ak)
    return up(bits, al * 8) // 8, al, offs, bitpos, eff


def flat(ms):
    out = []
    for m in ms:
        out += m["m"] if isinstance(m["m"], list) else [m["m"]]
    return out


def image(size, pos):
    b = bytearray(size)
    for k in range(pos[0], pos[0] + pos[1]):
        if k // 8 < size:
            b[k // 8] |= 1 << (k % 8)
    return bytes(b).hex()


ATTRS = {"plain": ((), ()), "packed": (("packed",), ()), "packed-post": ((), ("packed",)), "aligned8+packed-post": (("aligned(8)",), ("packed",)),
         "packed+aligned4": (("packed", "aligned(4)"), ()), "packed+aligned16-post": ((), ("packed", "aligned(16)"))}
for _k in (1, 2, 4, 8, 16, 32):
    ATTRS["aligned%d" % _k] = (("aligned(%d)" % _k,), ())
    ATTRS["aligned%d-post" % _k] = ((), ("aligned(%d)" % _k,))


def attr_text(names):
    return " __attribute__((%s)) " % ", ".join(names) if names else " "


def predict(kind, attr, ms, flavor="abi", lw=False):
    """Every fact of a struct/union case (labels as in struct_case) under the reference layout or under a transcription of
    a known deviation of chibicc (see layout)."""
    pre, post = ATTRS[attr]
    size, al, moffs, mbits, eff = layout(kind, pre + post, flat(ms), flavor, lw)
    model = {"size": size, "align": al}
    for m in ms:
        for o in m["offs"]:
            model["off:" + o] = moffs[o]
        for b in m["bits"]:
            model["img:" + b] = image(size, mbits[b])
        for o, ta, sz in m.get("ea", ()):
            # GNU C: _Alignof(lvalue naming a member) is the alignment of that member declaration (_Alignas, packed);
            # talign (not a compared fact) is the alignment of the member's type
            model["ealign:" + o] = model["amalign:" + o] = eff[o]
            model["msize:" + o] = sz
            model["talign:" + o] = ta
    if any(m.get("ea") for m in ms):
        model["asize"], model["aalign"], model["aealign"] = 3 * size, al, al
    return model


def struct_case(kind, attr, seq, reduced=False):
    pre, post = ATTRS[attr]
    ms = [member(c, j) for j, c in enumerate(seq)]
    defs = []
    for m in ms:
        for d in m.get("pre", ()):
            if d not in defs:
                defs.append(d)
    decl = "%s%s%sC@ { %s }%s;" % ("".join(d + " " for d in defs), kind, attr_text(pre), " ".join(m["decl"] for m in ms), attr_text(post))
    T = "%s C@" % kind
    facts = [("size", "sizeof(%s)" % T), ("align", "_Alignof(%s)" % T)]
    offs = [o for m in ms for o in m["offs"]]
    bits = [b for m in ms for b in m["bits"]]
    facts += [("off:" + o, "offsetof(%s, %s)" % (T, o)) for o in offs]
    ea = [o for m in ms for o, ta, sz in m.get("ea", ())]
    if ea:
        # the members declared with _Alignas: sizeof / _Alignof(expression) of the member, of an array of the enclosing
        # type, of its elements and of the member inside an element
        decl += " extern %s FN(zo@)[3];" % T
        for o in ea:
            facts += [("ealign:" + o, "_Alignof(((%s *)0)->%s)" % (T, o)), ("msize:" + o, "sizeof(((%s *)0)->%s)" % (T, o)),
                      ("amalign:" + o, "_Alignof(FN(zo@)[2].%s)" % o)]
        facts += [("asize", "sizeof(FN(zo@))"), ("aalign", "_Alignof(FN(zo@))"), ("aealign", "_Alignof(FN(zo@)[1])")]
    model = predict(kind, attr, ms)
    cid = "C/%s/%s/%s" % (kind, attr, ",".join(seq))
    red = case(cid, "C", decl, facts[:2], model=model, meta=(kind, attr, tuple(seq)))
    return case(cid, "C", decl, facts, img=(T, bits) if bits else None, model=model, meta=(kind, attr, tuple(seq)), reduced=red)


def valid_seq(kind, seq):
    """C11 validity of a member sequence: at least one named member (6.7.2.1p8); a flexible array member only last in
    a struct that has another named member (p18)."""
    named = 0
    for j, c in enumerate(seq):
        if c.endswith("F") and ":" not in c:
            if kind == "union" or j != len(seq) - 1:
                return False
        elif ":" in c:
            if ":-" not in c and not c.endswith(":0"):
                named += 1
        else:
            named += 1
    if seq and seq[-1].endswith("F") and ":" not in seq[-1] and named < 1:
        return False
    return named > 0


BF_ALL = (["c:1", "c:7", "c:8", "c:0", "uc:3", "b:1", "b:0", "s:1", "s:7", "s:8", "s:9", "s:16", "s:0"] +
          ["i:1", "i:7", "i:8", "i:9", "i:31", "i:32", "i:0", "u:5", "u:0", "i:-3", "c:-5", "l:-33", "s:-9"] +
          ["l:1", "l:7", "l:8", "l:9", "l:31", "l:32", "l:33", "l:63", "l:64", "l:0", "ul:40"])
ALPHA_FULL = (["c", "s", "i", "l", "f", "d", "ld", "p", "ca3", "sa2", "lda2", "Sa2", "S", "U", "PS", "S16", "U16", "N", "aS", "aU", "aB", "aPS", "B",
               "cc", "A8cc", "ibb", "lbc", "ALc", "ADc", "ADi"] + BF_ALL +
              ["cF", "iF", "lF", "A1c", "A2c", "A4c", "A8c", "A16c", "A32c", "A0i", "A4i", "A8i", "A16i", "A8l", "A16l", "A32l", "A16s", "A2s"])
ALPHA_Q = ["c", "s", "i", "l", "ld", "ca3", "S", "aU", "c:1", "c:0", "s:9", "i:1", "i:7", "i:31", "i:0", "l:33", "l:63", "l:0", "i:-3",
           "iF", "A8c"]
ALPHA_T4 = ["c", "s", "l", "ld", "ca3", "aS", "c:7", "s:9", "i:1", "i:31", "i:0", "l:33", "l:0", "i:-3", "c:0", "A4c"]


ALPHAS = {"full": ALPHA_FULL, "q": ALPHA_Q, "t4": ALPHA_T4}


def blocks_C(tier):
    """Block specs ("C", kind, attr, alphabet, length, first-member index or None).  Blocks are pairwise disjoint:
    every (kind, attr, length) triple is covered by exactly one alphabet."""
    out = []

    def add(kinds, attrs, alpha, n):
        for kind in kinds:
            for attr in attrs:
                if n >= 3:
                    out.extend(("C", kind, attr, alpha, n, i0) for i0 in range(len(ALPHAS[alpha])))
                else:
                    out.append(("C", kind, attr, alpha, n, None))
    KU = ("struct", "union")
    every = sorted(ATTRS)
    rest = [a for a in every if a not in ("plain", "packed")]
    if tier == "quick":
        add(KU, every, "full", 1)
        add(KU, ("plain", "packed"), "full", 2)
        add(KU, rest, "q", 2)
        add(("struct",), ("plain", "packed"), "q", 3)
        add(("union",), ("plain",), "q", 3)
    else:
        add(KU, every, "full", 1)
        add(KU, every, "full", 2)
        add(("struct",), ("plain", "packed"), "full", 3)
        add(("union",), ("plain", "packed"), "q", 3)
        add(("struct",), rest, "q", 3)
        add(("struct",), ("plain", "packed"), "t4", 4)
    seen = set()
    for b in out:
        key = (b[1], b[2], b[4], b[5])
        if key in seen:
            raise core.HarnessError("overlapping struct blocks %r" % (b,))
        seen.add(key)
    return out


def gen_C_block(blk):
    _, kind, attr, alpha, n, i0 = blk
    al = ALPHAS[alpha]
    heads = [al[i0]] if i0 is not None else None
    cases = []
    for seq in itertools.product(*([heads] if heads else []), *([al] * (n - (1 if heads else 0)))):
        if valid_seq(kind, seq):
            cases.append(struct_case(kind, attr, seq))
    return cases


# Family Z (reported with the struct/union family): one member declared with _Alignas, operand x target x position, between
# context members.  The context alphabets are closed under dropping a member, so every sub-sequence is an enumerated case.
ZCTX = {"quick": (("", "c", "c:3"), ("", "c")),
        "thorough": (("", "c", "c:3", "i", "ld", "l:33"), ("", "c", "l", "c:1"))}
ZCTX_POS = (("", "c"), ("",))                        # contexts of the cases that vary the position of the specifier
ZATTRS = {"quick": ("plain", "packed"), "thorough": ("plain", "packed", "aligned2", "aligned32-post", "packed+aligned4")}


def z_codes(tier, cls):
    """-> [(member code, context alphabets)] of one operand class ('multi': pairs of specifiers)"""
    out = []
    if cls == "multi":
        tgts = ("c", "s") if tier == "quick" else ("c", "s", "ca3", "cc")
        for a in MULTI_OPS:
            for b in MULTI_OPS:
                for tk in tgts:
                    for pos in ("0", "s") + (("1",) if tier == "thorough" else ()):
                        if alignas_decl([a, b], tk, pos, "m"):
                            out.append(("Z.%s+%s.%s.%s" % (a, b, tk, pos), ZCTX_POS))
        return out
    for o in _OPS:
        if o[1] != cls:
            continue
        for tk in TGT:
            nspec = len(TGT[tk][0])
            for p in range(nspec + 1):
                if not alignas_decl([o[0]], tk, str(p), "m"):
                    continue
                if p == 0:
                    out.append(("Z.%s.%s.0" % (o[0], tk), ZCTX[tier]))
                elif tier == "thorough" or tk in ("c", "buf", "ld", "c5"):
                    out.append(("Z.%s.%s.%d" % (o[0], tk, p), ZCTX_POS))
    return out


def blocks_Z(tier):
    return [("Z", kind, attr, cls) for kind in ("struct", "union") for attr in ZATTRS[tier] for cls in OPCLASSES + ["multi"]]


def gen_Z_block(tier, blk):
    _, kind, attr, cls = blk
    cases = []
    for code, (pres, posts) in z_codes(tier, cls):
        for a in pres:
            for b in posts:
                seq = tuple(x for x in (a, code, b) if x)
                if valid_seq(kind, seq):
                    cases.append(struct_case(kind, attr, seq))
    return cases


def case_from_cid(cid):
    """Rebuild a family-C case from its id (used when shrinking and writing replays)."""
    _, kind, attr, seq = cid.split("/", 3)
    return struct_case(kind, attr, tuple(seq.split(",")))


def all_blocks(tier):
    return ([("A", mi) for mi in range(len(MULTISETS))] + [("B",)] + [("D", part) for part in D_PARTS] + blocks_C(tier) +
            blocks_Z(tier))


def block_cases(tier, blk):
    if blk[0] == "A":
        return gen_A(tier, blk[1])
    if blk[0] == "B":
        return gen_B(tier)
    if blk[0] == "D":
        return gen_D(tier, blk[1])
    if blk[0] == "Z":
        return gen_Z_block(tier, blk)
    return gen_C_block(blk)


# ------------------------------------------------------------------------------------------------------------------
# Family D: stddef.h, enums, _Alignas on objects
D_STORAGE = {"extern": ("", False), "static": ("static ", False), "slocal": ("static ", True), "auto": ("", True)}
D_PARTS = ["base", "operands"] + ["obj-" + st for st in D_STORAGE]
D_INIT = {"c5": "{{1}}", "pt2": "{1, 2}"}


def gen_D(tier, part="base"):
    cases = []
    if part == "operands":
        # the operand alphabet itself: sizeof/_Alignof of every type name, the value of every constant
        for o in _OPS:
            op = OPS[o[0]]
            defs = " ".join(op_defs(op["defs"]))
            if op["size"] is None:
                cases.append(case("D/operand/" + o[0], "D", defs, [("value", op["text"])], model={"value": op["align"]},
                                  shape="alignas-operand/const", meta=part))
            else:
                cases.append(case("D/operand/" + o[0], "D", defs, [("size", "sizeof(%s)" % op["text"]), ("align", "_Alignof(%s)" % op["text"])],
                                  model={"size": op["size"], "align": op["align"]}, shape="alignas-operand/" + op["cls"], meta=part))
        return cases
    if part.startswith("obj-"):
        return gen_D_objects(tier, part[4:])
    for t, sz, al in (("size_t", 8, 8), ("ptrdiff_t", 8, 8), ("wchar_t", 4, 4), ("max_align_t", 32, 16)):
        cases.append(case("D/stddef/" + t, "D", "", [("size", "sizeof(%s)" % t), ("align", "_Alignof(%s)" % t)],
                          model={"size": sz, "align": al}, shape="stddef/" + t, meta=part))
    for nm, body in (("zero", "A@"), ("neg", "A@ = -1"), ("max", "A@ = 2147483647"), ("min", "A@ = -2147483647 - 1")):
        cases.append(case("D/enum/" + nm, "D", "enum E@ { %s };" % body, [("size", "sizeof(enum E@)"), ("align", "_Alignof(enum E@)")],
                          model={"size": 4, "align": 4}, shape="enum/" + nm, meta=part))
    for t, sz in (("char", 1), ("short", 2), ("int", 4), ("long", 8), ("long double", 16), ("struct B0", 8)):
        for k in (1, 2, 4, 8, 16, 32, 64):
            if k < (4 if t == "struct B0" else sz):
                continue
            for st in ("", "static "):
                # the address of the object is observed at run time: 0 means aligned as requested
                cases.append(case("D/alignas-object/%s%s/%d" % (st.strip() and "static-", t.replace(" ", "_"), k), "D",
                                  "%schar FN(g@a) = 1; %s_Alignas(%d) %s FN(g@) = {1}; %schar FN(g@b) = 2;" % (st, st, k, t, st),
                                  bfacts=[("misalign", "(long)((unsigned long)&FN(g@) %% %d) + 0 * (FN(g@a) + FN(g@b))" % k), ("size", "sizeof(FN(g@))")],
                                  model={"misalign": 0, "size": sz}, shape="alignas-object/%s" % ("static" if st else "extern"), meta=part))
                if not st and k > 16:
                    continue        # the psABI guarantees 16-byte stack alignment only; larger automatic alignments are extended
                cases.append(case("D/alignas-local/%s%s/%d" % (st.strip() and "static-", t.replace(" ", "_"), k), "D",
                                  blk="%schar a = 1; %s_Alignas(%d) %s v = {1}; %schar b = 2;" % (st, st, k, t, st),
                                  bfacts=[("misalign", "(long)((unsigned long)&v %% %d) + 0 * (a + b)" % k), ("size", "sizeof(v)")],
                                  model={"misalign": 0, "size": sz},
                                  shape="alignas-local/%s" % ("static" if st else "auto"), meta=part))
    return cases


def gen_D_objects(tier, stname):
    """Objects declared with _Alignas(operand) in one storage class (file scope with external / internal linkage, static
    local, automatic), operand x target type x position; pairs of specifiers; objects and arrays of a struct type that
    has an _Alignas(type-name) member.  Observed: the address (run time), sizeof, _Alignof(expression) of the object, of
    its elements and members."""
    st, local = D_STORAGE[stname]
    part = "obj-" + stname
    cases = []
    g, ga, gb = ("v", "a", "b") if local else ("FN(g@)", "FN(g@a)", "FN(g@b)")

    def emit(cid, defs, body, bfacts, model, shape):
        text = "%schar %s = 1; %s %schar %s = 2;" % (st, ga, body, st, gb)
        if local:
            cases.append(case(cid, "D", " ".join(defs), blk=text, bfacts=bfacts, model=model, shape=shape, meta=part))
        else:
            cases.append(case(cid, "D", " ".join(defs) + " " + text, bfacts=bfacts, model=model, shape=shape, meta=part))

    def obj(opkeys, tk, pos, cls):
        d = alignas_decl(opkeys, tk, pos, g)
        if d is None:
            return
        A = d["align"]
        if stname == "auto" and A > 16:
            return              # the psABI guarantees 16-byte stack alignment only
        bf = [("misalign", "(long)((unsigned long)&%s %% %d) + 0 * (%s + %s)" % (g, A, ga, gb)), ("size", "sizeof(%s)" % g),
              ("ealign", "_Alignof(%s)" % g)]
        model = {"misalign": 0, "size": d["size"], "ealign": A, "talign:ealign": d["talign"], "lw_align": d["lw_align"]}
        if d["form"] == "array":
            bf += [("elalign", "_Alignof(%s[0])" % g), ("elsize", "sizeof(%s[1])" % g)]
            model["elalign"] = model["elsize"] = d["talign"]
        emit("D/alignas/%s/%s.%s.%s" % (stname, "+".join(opkeys), tk, pos), d["defs"],
             "%s%s = %s;" % (st, d["text"], D_INIT.get(tk, "{1}")), bf, model, "alignas-object/%s/%s" % (stname, cls))

    for o in _OPS:
        cls = "const" if o[1] == "const" else "typename"
        for tk in TGT_OBJ:
            nspec = len(TGT[tk][0])
            for p in range(nspec + 1):
                if p == 0 or tier == "thorough" or tk in ("c", "buf"):
                    obj([o[0]], tk, str(p), cls)
    for a in MULTI_OPS:
        for b in MULTI_OPS:
            for tk in (("c",) if tier == "quick" else ("c", "s", "ca3")):
                for pos in (("0",) if tier == "quick" else ("0", "s")):
                    obj([a, b], tk, pos, "multi")
    # objects and arrays of a struct type with an _Alignas(type-name) member
    for o in _OPS:
        op = OPS[o[0]]
        if not op["size"]:
            continue
        a, n = op["align"], op["size"]
        if stname == "auto" and a > 16:
            continue
        sz = up(a + n + 1, a)
        defs = op_defs(op["defs"]) + ["struct zt_@ { char t; _Alignas(%s) unsigned char buf[sizeof(%s)]; char e; };" % (op["text"], op["text"])]
        gv = "w" if local else "FN(g@w)"
        bf = [("misalign", "(long)((unsigned long)&%s %% %d) + 0 * (%s + %s)" % (g, a, ga, gb)),
              ("misalign2", "(long)((unsigned long)&%s[1].buf %% %d)" % (gv, a)),
              ("off", "(long)((char *)%s[1].buf - (char *)%s)" % (gv, gv)),
              ("size", "sizeof(%s)" % g), ("asize", "sizeof(%s)" % gv), ("ealign", "_Alignof(%s)" % g), ("aalign", "_Alignof(%s)" % gv),
              ("aealign", "_Alignof(%s[2])" % gv), ("amalign", "_Alignof(%s[2].buf)" % gv), ("msize", "sizeof(%s[2].buf)" % gv)]
        model = {"misalign": 0, "misalign2": 0, "off": sz + a, "size": sz, "asize": 3 * sz, "ealign": a, "aalign": a, "aealign": a,
                 "amalign": a, "msize": n, "talign:ealign": a, "talign:amalign": 1}
        emit("D/typed-object/%s/%s" % (stname, o[0]), defs, "%sstruct zt_@ %s = {1}; %sstruct zt_@ %s[3] = {{1}};" % (st, g, st, gv), bf, model,
             "object-of-type-with-alignas-member/%s" % stname)
    return cases


# ------------------------------------------------------------------------------------------------------------------
def build_unit(cases):
    """-> (text, tabmap [(ci,label)], blkmap [(ci,label)], imgmap [(ci,[labels])], linemap {line: ci})."""
    L = ["#include <stddef.h>", B_PRELUDE.strip(), "struct vp_img { void *obj; long size; void (*set)(int); long nf; };"]
    linemap = {}

    def put(ci, text):
        assert "\n" not in text
        L.append(text)
        linemap[len(L) + twin.PRELUDE.count("\n")] = ci
    tabmap, blkmap, imgmap = [], [], []
    for ci, c in enumerate(cases):
        if c["decl"]:
            put(ci, c["decl"].replace("@", str(ci)))
    L.append("long FN(tab)[] = {")
    for ci, c in enumerate(cases):
        if c["facts"]:
            put(ci, " ".join("%s," % e.replace("@", str(ci)) for l, e in c["facts"]))
            tabmap += [(ci, l) for l, e in c["facts"]]
    L.append("0 };")
    L.append("long FN(ntab) = %d;" % len(tabmap))
    L.append("char FN(tabkind)[] = {%s0};" % "".join("1," if l == "id" else "0," for ci, l in tabmap))
    L.append("void FN(blk)(long *t) {")
    for ci, c in enumerate(cases):
        if c["bfacts"]:
            st = []
            for l, e in c["bfacts"]:
                st.append("t[%d] = %s;" % (len(blkmap), e.replace("@", str(ci))))
                blkmap.append((ci, l))
            put(ci, "{ %s %s }" % (c["blk"].replace("@", str(ci)), " ".join(st)))
    L.append("}")
    L.append("long FN(nblk) = %d;" % len(blkmap))
    L.append("char FN(blkkind)[] = {%s0};" % "".join("1," if l == "id" else "0," for ci, l in blkmap))
    for ci, c in enumerate(cases):
        if c["img"]:
            T, bits = c["img"]
            put(ci, ("%s FN(o@); void FN(set@)(int k) { switch (k) { %s } }" %
                     (T, " ".join("case %d: FN(o@).%s = -1; break;" % (k, b) for k, b in enumerate(bits)))).replace("@", str(ci)))
    L.append("struct vp_img FN(imgs)[] = {")
    for ci, c in enumerate(cases):
        if c["img"]:
            put(ci, "{ &FN(o@), sizeof(FN(o@)), FN(set@), %d },".replace("@", str(ci)) % len(c["img"][1]))
            imgmap.append((ci, list(c["img"][1])))
    L.append("{ 0, 0, 0, 0 } };")
    L.append("long FN(nimgs) = %d;" % len(imgmap))
    return "\n".join(L) + "\n", tabmap, blkmap, imgmap, linemap


class _C:
    chibicc = None


def _cc(chibicc, include, src, obj, wd):
    _C.chibicc = chibicc
    return twin.cc_compile(_C, src, obj, ["-DPFX=cc_", "-I" + include], cwd=wd)


DRIVER = os.path.join(core.VERIF, "harness", "c08_driver.c")


def _run_block(args):
    """Generate the cases of one block in the worker, run them in batches, return only what the parent needs."""
    chibicc, include, wd, tier, blk = args
    cases = block_cases(tier, blk)
    out = {"blk": blk, "n": len(cases), "judged": 0, "nfacts": 0, "nimg": 0, "rejected": {}, "reduced": 0, "ref_rejected": [],
           "odis": 0, "odis_samples": [], "fail": {}, "failcases": {}, "harness": None, "samples": []}
    if len(set(c["cid"] for c in cases)) != len(cases):
        out["harness"] = "case ids are not unique inside block %r" % (blk,)
        return out
    if cases:
        c = cases[len(cases) // 2]
        out["samples"].append({"case": c["cid"], "decl": c["decl"] or c["blk"], "facts": [l for l, e in c["facts"] + c["bfacts"]],
                               "images": c["img"][1] if c["img"] else []})
    for bi, bc in enumerate(core.chunks(cases, PER_BATCH)):
        res = _run_batch((chibicc, include, wd, "%r/%d" % (blk, bi), bc))
        if res["harness"]:
            out["harness"] = res["harness"]
            return out
        for i, stage, st, msg, src in res["rejected"]:
            out["rejected"][bc[i]["cid"]] = (stage, st, msg)
            if bc[i]["fam"] != "C":
                out["failcases"][bc[i]["cid"]] = bc[i]
        out["reduced"] += len(res["reduced"])
        out["ref_rejected"] += [bc[i]["cid"] for i in res["ref_rejected"]]
        out["nfacts"] += res["ntab"] + res["nblk"]; out["nimg"] += res["nimg"]
        refvals = res.get("refvals", {})
        for i in res["judged"]:
            c = bc[i]
            # two-oracle rule: the model must agree with gcc on every fact it predicts; otherwise the case is skipped
            rv = refvals.get(i, {})
            d = res["diffs"].get(i, [])
            if any(lab in c["model"] and c["model"][lab] != val for lab, val in rv.items()):
                out["odis"] += 1
                if len(out["odis_samples"]) < 3:
                    out["odis_samples"].append({"oracle_disagreement": c["cid"], "gcc": rv, "model": c["model"]})
                continue
            out["judged"] += 1
            if d:
                out["fail"][c["cid"]] = d
                if c["fam"] != "C":
                    out["failcases"][c["cid"]] = c
    return out


def _run_batch(args):
    """Compile one batch with both compilers and run the driver.  Returns a picklable result dict."""
    chibicc, include, wd, bidx, cases = args
    os.makedirs(wd, exist_ok=True)
    res = {"bidx": bidx, "rejected": [], "ref_rejected": [], "diffs": {}, "judged": [], "ntab": 0, "nblk": 0, "nimg": 0,
           "reduced": [], "harness": None}
    live = list(range(len(cases)))
    cur = {i: cases[i] for i in live}
    u = os.path.join(wd, "u.c")
    for rnd in range(6):
        order = [i for i in live if i in cur]
        text, tabmap, blkmap, imgmap, linemap = build_unit([cur[i] for i in order])
        with open(u, "w") as f:
            f.write(twin.PRELUDE + text)
        ok, stage, st, err = _cc(chibicc, include, u, os.path.join(wd, "cc.o"), wd)
        if not ok:
            # isolate: chunks of 16, then every case of a failing chunk alone (same stage as the batch failure)
            changed = False
            p1 = os.path.join(wd, "one.c")

            def alone(cs):
                t1 = build_unit(cs)[0]
                with open(p1, "w") as f:
                    f.write(twin.PRELUDE + t1)
                if stage == "cc1":
                    st1, o1, e1 = core.run_limited([chibicc, "-cc1", "-DPFX=cc_", "-I" + include, "-cc1-input", p1, "-cc1-output",
                                                    os.path.join(wd, "one.s"), p1], cwd=wd, timeout=120)
                    return st1 == 0, "cc1", st1, e1, t1
                r = _cc(chibicc, include, p1, os.path.join(wd, "one.o"), wd)
                return r + (t1,)
            for chunk in core.chunks(order, 16):
                if alone([cur[i] for i in chunk])[0]:
                    continue
                for i in chunk:
                    ok1, stage1, st1, err1, t1 = alone([cur[i]])
                    if ok1:
                        continue
                    changed = True
                    first = re.sub(r"^\S*one\.[cs]:\d+: ", "", (err1.strip().splitlines() or [""])[-1])[:160]
                    red = cur[i].get("reduced")
                    red_ok = bool(red) and alone([red])[0]
                    res["rejected"].append((i, stage1, st1, first, twin.PRELUDE + t1))
                    if red_ok:
                        cur[i] = red; res["reduced"].append(i)
                    else:
                        del cur[i]
            if not changed:
                res["harness"] = "chibicc fails on batch %s but on no single case (%s %s): %s" % (bidx, stage, st, err[-300:])
                return res
            continue
        ok, err = twin.ref_compile(u, os.path.join(wd, "ref.o"), ["-DPFX=ref_"], cwd=wd)
        if not ok:
            bad = set()
            for m in re.finditer(r"^[^:\n]+:(\d+):\d+: error", err, re.M):
                ci = linemap.get(int(m.group(1)))
                if ci is not None:
                    bad.add(order[ci])
            if not bad:
                res["harness"] = "gcc rejects batch %s at an unmapped line: %s" % (bidx, err[-600:])
                return res
            for i in bad:
                res["ref_rejected"].append(i); del cur[i]
            continue
        exe = os.path.join(wd, "t.exe")
        st, out, err = core.run_limited(twin.GCC_DRV + ["-o", exe, DRIVER, "cc.o", "ref.o", "-no-pie", "-Wl,-z,noexecstack"], cwd=wd, timeout=300)
        if st != 0:
            res["harness"] = "driver link failed in batch %s: %s" % (bidx, err[-600:])
            return res
        st, out, err = core.run_limited([exe], cwd=wd, timeout=300)
        if st != 0 or not re.search(r"^S tab=\d+ blk=\d+ img=\d+$", out, re.M):
            res["harness"] = "driver failed in batch %s: status %s %s %s" % (bidx, st, out[-300:], err[-300:])
            return res
        diffs = res["diffs"]
        refvals = res["refvals"] = {}
        for line in out.splitlines():
            p = line.split()
            if p[0] == "T" and tabmap[int(p[1])][1] == "id" and MERGE.get(int(p[2]), int(p[2])) == MERGE.get(int(p[3]), int(p[3])):
                continue
            if p[0] == "B" and blkmap[int(p[1])][1] == "id" and MERGE.get(int(p[2]), int(p[2])) == MERGE.get(int(p[3]), int(p[3])):
                continue
            if p[0] == "R":
                ci, lab = tabmap[int(p[1])]; refvals.setdefault(order[ci], {})[lab] = int(p[2])
            elif p[0] == "Q":
                ci, lab = blkmap[int(p[1])]; refvals.setdefault(order[ci], {})[lab] = int(p[2])
            elif p[0] == "J":
                ci, labs = imgmap[int(p[1])]; refvals.setdefault(order[ci], {})["img:" + labs[int(p[2])]] = p[3]
            elif p[0] == "T":
                ci, lab = tabmap[int(p[1])]; diffs.setdefault(order[ci], []).append((lab, int(p[2]), int(p[3])))
            elif p[0] == "B":
                ci, lab = blkmap[int(p[1])]; diffs.setdefault(order[ci], []).append((lab, int(p[2]), int(p[3])))
            elif p[0] == "I":
                ci, labs = imgmap[int(p[1])]; diffs.setdefault(order[ci], []).append(("img:" + labs[int(p[2])], p[3], p[4]))
            elif p[0] == "X":
                if int(p[1]) < 0:
                    res["harness"] = "chibicc-compiled block function crashed with signal %s in batch %s" % (p[3], bidx)
                    return res
                ci, labs = imgmap[int(p[1])]; diffs.setdefault(order[ci], []).append(("img:" + labs[int(p[2])], "signal" + p[3], "-"))
            elif p[0] == "S":
                res["ntab"], res["nblk"], res["nimg"] = int(p[1][4:]), int(p[2][4:]), int(p[3][4:])
        res["judged"] = order
        return res
    res["harness"] = "batch %s did not converge" % bidx
    return res


# ------------------------------------------------------------------------------------------------------------------
SIG_PACKEDBF = "C08|struct|packed+bitfield|bitfields-laid-out-as-if-not-packed"
SIG_LASTWINS = "C08|alignas|several-specifiers-in-one-declaration|last-one-wins"
SIG_ALIGNOF = "C08|alignof-expression|declared-object-or-member|alignment-of-its-type"


def alignof_split(c, d):
    """-> (diffs of `_Alignof(lvalue naming a declared object or member)` facts whose observed value is the alignment of
    the expression's *type* - the listed finding SIG_ALIGNOF -, all other diffs)"""
    kd, rest = [], []
    for x in d:
        k, _, o = x[0].partition(":")
        ta = c["model"].get("talign:" + (o or k)) if k in ("ealign", "amalign") else None
        (kd if ta is not None and x[1] == ta else rest).append(x)
    return kd, rest


# facts about an array of the type / its elements / a member inside an element count as the fact about the type itself
DERIVED = {"aalign": "align", "aealign": "align", "asize": "size", "amalign": "ealign"}


def dev_class(diffs):
    ks = set()
    for lab, a, b in diffs:
        k = lab.split(":")[0]
        k = re.sub(r"\d+$", "", k)
        k = DERIVED.get(k, k)
        if k == "img":
            ks.add("bitpos" if not str(a).startswith("signal") else "setter-" + str(a))
        elif isinstance(a, int) and isinstance(b, int):
            ks.add(k + (">" if a > b else "<"))
        else:
            ks.add(k)
    return "+".join(sorted(ks))


def has_nonzero_bitfield(seq):
    return any(re.fullmatch(r"[a-z]+:-?[1-9]\d*", c) or c in ("B", "aB", "ibb", "lbc") for c in seq)


def replay_for(kind):
    if kind == "reject":
        return "$CHIBICC -I$CHIBICC_DIR/include -DPFX=cc_ -c -o cc.o unit.c && exit 0; exit 1"
    return ("$CHIBICC -I$CHIBICC_DIR/include -DPFX=cc_ -c -o cc.o unit.c || exit 1\n"
            "gcc -O0 -w -std=gnu11 -fno-pie -fcommon -DPFX=ref_ -c -o ref.o unit.c || exit 0\n"
            "gcc -O1 -w -fno-pie -no-pie -o drv $VERIF/harness/c08_driver.c cc.o ref.o -Wl,-z,noexecstack || exit 0\n"
            "./drv | grep -q '^[TBIX] ' && exit 1\nexit 0")


def run(ctx):
    tier = ctx.tier
    blks = all_blocks(tier)
    only = os.environ.get("VERIF_C08_ONLY")              # debugging aid: restrict to some families (evidence says so)
    if only:
        blks = [b for b in blks if b[0] in only]
        ctx.incomplete("restricted to families %s by VERIF_C08_ONLY" % only)
    if ctx.seed:
        import random
        random.Random(ctx.seed).shuffle(blks)             # shard assignment only
    # short sequences first (shrinking looks sub-sequences up, also when the deadline stops the run); big blocks first
    order = sorted(range(len(blks)), key=lambda i: (blks[i][4], -len(ALPHAS[blks[i][3]])) if blks[i][0] == "C" else
                   ((2, 1) if blks[i][0] == "Z" else (0, 0)))
    args = [(ctx.chibicc, ctx.include, os.path.join(ctx.work, "k%d" % i), tier, blks[i]) for i in order]
    results, rejected, failcases = {}, {}, {}
    ncases = judged = reduced = ref_rejected = odis = nfacts = nimg = 0
    fam_count = {}
    done = 0
    for grp in core.chunks(args, core.NPROC * 4):
        if ctx.out_of_time(reserve=120):
            ctx.incomplete("deadline: %d of %d blocks finished" % (done, len(args)))
            break
        for out in core.pmap(_run_block, grp):
            done += 1
            if out["harness"]:
                raise core.HarnessError(out["harness"])
            ncases += out["n"]; judged += out["judged"]; reduced += out["reduced"]; odis += out["odis"]
            nfacts += out["nfacts"]; nimg += out["nimg"]; ref_rejected += len(out["ref_rejected"])
            fam_count[out["blk"][0]] = fam_count.get(out["blk"][0], 0) + out["n"]
            for cid in out["ref_rejected"]:
                ctx.sample({"gcc_rejected": cid}, limit=10)
            for x in out["odis_samples"]:
                ctx.sample(x, limit=10)
            for k in out["fail"]:
                if k in results:
                    raise core.HarnessError("case id %s produced by two blocks" % k)
            results.update(out["fail"]); rejected.update(out["rejected"]); failcases.update(out["failcases"])
            if out["blk"][0] in ("B", "D") or out["blk"] in (("Z", "struct", "plain", "struct"), ("Z", "union", "plain", "multi")) or (out["blk"][0] == "C" and out["blk"][4] == 2 and out["blk"][2] == "packed" and out["blk"][1] == "struct") \
                    or out["blk"] == ("A", 23):
                for x in out["samples"]:
                    ctx.sample(x, limit=24)

    def get_case(cid):
        return failcases[cid] if cid in failcases else case_from_cid(cid)

    # ---- classification ---------------------------------------------------------------------------------------
    # Known deviations of the pinned tree.  Each is recognised only when *every* observed fact of the case equals the
    # transcription of that deviation (layout(flavor=..., lw=...)); any other wrong answer keeps its own signature.
    def explained_known(c, d):
        """-> set of known-finding signatures that together explain all diffs d of a struct/union case, or None.
        packed-bitfield: packed struct with a non-zero-width bit-field whose observed facts are exactly those of chibicc's
        documented algorithm (bit-fields allocated in aligned storage units of their declared type, as in a struct that
        is not packed); last-wins: a member declared with several _Alignas specifiers gets the alignment of the last
        one; alignof-type: _Alignof(member designator) is the alignment of the member's type.  The smallest set of
        deviations whose transcription reproduces every observed fact is taken."""
        kind, attr, seq = c["meta"]
        pre, post = ATTRS[attr]
        can_bf = kind == "struct" and "packed" in pre + post and has_nonzero_bitfield(seq)
        can_lw = any(code.startswith("Z.") and "+" in code for code in seq)
        can_ao = any(lab.startswith("talign:") for lab in c["model"])
        ms = [member(code, j) for j, code in enumerate(seq)]
        obs = dict((lab, a) for lab, a, b in d)
        combos = [(bf, lw, ao) for bf in (False, True) for lw in (False, True) for ao in (False, True)
                  if (bf or lw or ao) and (can_bf or not bf) and (can_lw or not lw) and (can_ao or not ao)]
        for bf, lw, ao in sorted(combos, key=lambda x: (sum(x), x)):
            want = predict(kind, attr, ms, "chibicc" if bf else "abi", lw)
            if ao:
                for lab in list(want):
                    if lab.startswith("talign:"):
                        want["ealign:" + lab[7:]] = want["amalign:" + lab[7:]] = want[lab]
            ok = True
            for lab, v in c["model"].items():
                if lab.startswith("talign:"):
                    continue
                if lab in obs:
                    ok = want[lab] == obs[lab]
                elif lab.startswith("img:"):           # images are compared only when the sizes agree
                    ok = want["size"] != c["model"]["size"] or want[lab] == v
                else:                                   # facts that did not differ must also be what the transcription says
                    ok = want[lab] == v
                if not ok:
                    break
            if ok:
                return set(sg for flag, sg in ((bf, SIG_PACKEDBF), (lw, SIG_LASTWINS), (ao, SIG_ALIGNOF)) if flag)
        return None

    def explained_known_object(c, d):
        """an object declared with several _Alignas specifiers that is aligned as the last one demands"""
        lwa = c["model"].get("lw_align")
        if not c["shape"].endswith("/multi") or lwa is None or lwa == c["model"]["ealign"]:
            return None
        for lab, a, b in d:
            if not ((lab == "misalign" and a % lwa == 0) or (lab == "ealign" and a == lwa)):
                return None
        return {SIG_LASTWINS}

    known_ids, known_sigs, real = set(), {}, {}
    for cid, d in results.items():
        c = get_case(cid)
        kd, rest = alignof_split(c, d)
        if cid.startswith("C/"):
            sigs = explained_known(c, d)
        else:
            sigs = {SIG_ALIGNOF} if kd else set()
            if rest:
                ex = explained_known_object(c, rest) if cid.startswith("D/alignas/") else None
                sigs = None if ex is None else sigs | ex
        if sigs is None:
            real[cid] = rest or d      # the part attributed to SIG_ALIGNOF is left out of the signature of the rest
        else:
            known_ids.add(cid); known_sigs[cid] = sigs

    def shrink(c, pool):
        """Drop members (then the attribute) while the same kind of failure persists.  Every sub-sequence over the same
        alphabet is itself an enumerated case of this run, so shrinking is a table lookup."""
        kind, attr, seq = c["meta"]
        changed = True
        while changed:
            changed = False
            for j in range(len(seq)):
                sub = seq[:j] + seq[j + 1:]
                sid = "C/%s/%s/%s" % (kind, attr, ",".join(sub))
                if sid in pool and sid not in known_ids:
                    seq = sub; changed = True
                    break
            if not changed and attr != "plain":
                sid = "C/%s/plain/%s" % (kind, ",".join(seq))
                if sid in pool and sid not in known_ids:
                    attr = "plain"; changed = True
        return struct_case(kind, attr, seq)

    def abstract(seq):
        """shape class of a member sequence (keeps the number of signatures of one root cause small; the exact minimal
        sequence is in the description and in the replay)"""
        out = []
        for code in seq:
            m = re.fullmatch(r"([a-z]+):(-?)(\d+)", code)
            if m:
                out.append("bitfield0" if m.group(3) == "0" else ("unnamed-bitfield" if m.group(2) else "bitfield"))
            elif code in SCALARS:
                out.append("scalar")
            elif code in MULTI:
                out.append("declarator-list")
            elif code.startswith("Sa"):
                out.append("array")
            elif code.startswith("Z."):
                ops = code.split(".")[1].split("+")
                out.append("alignas-several" if len(ops) > 1 else ("alignas-const" if OPS[ops[0]]["cls"] == "const" else "alignas-typename"))
            elif code[0] == "A":
                out.append("alignas")
            elif code.endswith("F"):
                out.append("flexarray")
            elif code[0] == "a" and code[1:] in AGG:
                out.append("anon-aggregate")
            elif code in AGG:
                out.append("aggregate")
            else:
                out.append("array")
        return ",".join(out)

    def files_for(c):
        if c["fam"] == "D":        # address-based facts depend on the neighbours: replay the whole (small) block
            return {"unit.c": twin.PRELUDE + build_unit(gen_D(tier, c["meta"]))[0]}
        return {"unit.c": twin.PRELUDE + build_unit([c])[0]}

    FAMNAME = {"A": "spec", "B": "declarator", "D": "misc"}
    for cid in sorted(rejected):
        c = get_case(cid)
        c0 = shrink(c, rejected) if c["fam"] == "C" else c
        stage0, st0, msg0 = rejected.get(c0["cid"], rejected[cid])
        how = "%s:%s" % (stage0, ("signal%d" % -st0) if isinstance(st0, int) and st0 < 0 else "exit%s" % st0)
        if c0["fam"] == "C":
            sig = "C08|%s|%s:%s|rejected:%s" % (c0["meta"][0], c0["meta"][1], abstract(c0["meta"][2]), how)
        else:
            sig = "C08|%s|%s|rejected:%s" % (FAMNAME[c0["fam"]], c0["shape"], how)
        ctx.violation(sig, "valid declaration rejected or compiler crashed (%s): %s -- %s" % (how, c0["cid"], msg0),
                      files=files_for(c0), replay=replay_for("reject"))
    for cid in sorted(results):
        d = results[cid]
        if cid in known_ids:
            for ksig in sorted(known_sigs[cid]):
                if ctx.violation(ksig, "%s: %s" % (cid, d[:3])):
                    v = ctx.violations[ksig]
                    if not v["files"]:
                        v["files"], v["replay"] = files_for(get_case(cid)), replay_for("diff")
            continue
        c = get_case(cid)
        c0 = shrink(c, real) if c["fam"] == "C" else c
        d0 = real.get(c0["cid"], real[cid])
        if c0["fam"] == "C":
            sig = "C08|%s|%s:%s|%s" % (c0["meta"][0], c0["meta"][1], abstract(c0["meta"][2]), dev_class(d0))
        elif c0["fam"] == "A":
            sig = "C08|spec|%s|%s" % (c0["shape"], ",".join("%s=%s,want=%s" % x for x in d0))
        else:
            sig = "C08|%s|%s|%s" % (FAMNAME[c0["fam"]], c0["shape"], dev_class(d0))
        desc = "%s: %s" % (c0["cid"], "; ".join("%s chibicc=%s psABI(gcc)=%s" % x for x in d0[:4]))
        if ctx.violation(sig, desc):
            v = ctx.violations[sig]
            if not v["files"]:
                v["files"], v["replay"] = files_for(c0), replay_for("diff")

    # ---- evidence -----------------------------------------------------------------------------------------------
    ctx.cover(evaluations=nfacts + nimg, facts_compared=nfacts, bitfield_images_compared=nimg, cases=ncases,
              distinct_nontrivial=judged, ref_rejected=ref_rejected, oracle_disagreements=odis, skipped_undefined=0,
              chibicc_rejected=len(rejected), judged_on_size_align_only=reduced, failing_cases=len(results),
              known_class_cases=len(known_ids), blocks=len(args), blocks_done=done,
              rule="one case = one declared type (specifier permutation in a context / declarator composition / member "
                   "sequence x attribute), case ids are unique; every case is non-trivial: it is compiled by both compilers "
                   "and at least sizeof and _Alignof (plus offsetof of every named member, bit-field byte images, _Generic "
                   "identity) are compared table-against-table; a case counts only when gcc accepted it and the Python "
                   "model agreed with gcc on every predicted fact; _Alignas operands range over constants and type names of "
                   "every class (see bounds), _Alignof(expression) follows GNU C (alignment of the named declaration)",
              bounds=("A: 30 specifier multisets of 6.7.2p2, all permutations, <=2 (thorough 3) extra tokens from {const, volatile, "
                      "static, extern, typedef, _Thread_local, _Alignas(16), register, auto} at every position, 5 contexts (declaration, "
                      "typedef, type-name, struct member, block scope); "
                      "B: compositions of {pointer, array, function} of length <=%d around %d base types, minimal/full "
                      "parentheses, 2 parameter lists, named/typedef/abstract/parameter contexts; "
                      "C: member sequences (struct and union) of length <=%s over alphabets full=%d, q=%d, t4=%d members x %d "
                      "attribute variants (see blocks_C); "
                      "Z (_Alignas dimension of C): one member `_Alignas(operand) target` between context members (before: %s; "
                      "after: %s) in struct and union x attributes %s; %d operands = %s (constants and constant expressions; "
                      "type names: scalars, pointers, arrays, structs/unions with size != alignment, typedef names, structs "
                      "with an _Alignas member and arrays/typedefs/pointers of them) x %d targets (scalars, arrays, struct, "
                      "buf[sizeof(T)] idiom, anonymous struct, declarator list) x position of the specifier in the specifier "
                      "list; pairs of specifiers over %d^2 operands; only declarations defined by C11 6.7.5p4; "
                      "D: stddef.h types, enums, every operand on its own, objects declared with _Alignas(operand) x %d object "
                      "targets x 4 storage classes (extern, static, static local, automatic <= 16), pairs of specifiers, "
                      "objects/arrays of a struct with an _Alignas(type-name) member")
              % (3 if tier == "quick" else 4, 6 if tier == "quick" else len(BASES), "3" if tier == "quick" else "4",
                 len(ALPHA_FULL), len(ALPHA_Q), len(ALPHA_T4), len(ATTRS),
                 "/".join(x or "-" for x in ZCTX[tier][0]), "/".join(x or "-" for x in ZCTX[tier][1]), "/".join(ZATTRS[tier]),
                 len(_OPS), ", ".join("%d %s" % (sum(1 for o in _OPS if o[1] == k), k) for k in OPCLASSES), len(TGT),
                 len(MULTI_OPS), len(TGT_OBJ)),
              alignas_operands=len(_OPS), alignas_operands_size_ne_align=sum(1 for o in _OPS if o[4] is not None and o[4] != o[5]),
              alignas_targets=len(TGT),
              **{"cases_%s" % k: v for k, v in fam_count.items()})
    ctx.assume("gcc 12 -O0 is the System V x86-64 psABI reference for sizeof, _Alignof, offsetof and bit positions")
    ctx.assume("type identity (_Generic) is compared up to chibicc's merge of char/signed char and long/long long")
    ctx.assume("_Alignof(expression) is a GNU extension: for an lvalue naming a declared object or member gcc's answer (the alignment "
               "of the declaration) is the reference; automatic objects are only required to be aligned up to 16")
    ctx.assume("sequences without a named member (6.7.2.1p8: undefined) and misplaced flexible array members are not generated; "
               "_Alignas below the natural alignment (constraint violation) is not generated")
    ctx.assume("attributes on individual members, #pragma pack, _Alignas on bit-fields, enums wider than int, _Complex, _Atomic "
               "and vector types are outside the supported language and not enumerated")
    if ctx.exhaustive:
        if judged < 0.8 * ncases:
            raise core.HarnessError("vacuous: only %d of %d cases judged (gcc rejected %d, model/gcc disagree %d, chibicc rejected %d)"
                                    % (judged, ncases, ref_rejected, odis, len(rejected)))
        if nimg == 0:
            raise core.HarnessError("vacuous: no bit-field image compared")
        if len(fam_count) != 5:
            raise core.HarnessError("vacuous: a family produced no cases: %r" % fam_count)
    if odis:
        ctx.cover(note_oracle="model and gcc disagree on %d cases (skipped, see samples): the model needs correcting" % odis)
