"""C15 linkage, storage duration, symbol emission, configurations.

(a) every sequence of <= 2 (thorough 3) declarations of one object / one function (file scope and block scope forms,
    see models/c15_linkage.py) x use position x {-fcommon,-fno-common} x type: `readelf -s -S` of chibicc's object
    is checked against CONSTRAINTS derived from C11 6.2.2/6.9.2/6.7.4 + the option (never against gcc's table);
    the unit is then linked with a gcc-compiled companion and run (expected output from the model, confirmed by
    a gcc twin of the unit - disagreement = skip).  Types include two that are completed AFTER the declaration:
    `int v[]` (every mask of incomplete/complete declarations in the sequence: completed by another declaration,
    by an initializer, or to one element at the end of the unit, 6.9.2p2) and `struct S v; ... struct S {...};`.
(b) every call graph on <= 3 static inline functions x every root set x 5 root kinds (call, file-scope initializer,
    static-local initializer, call from an unreferenced static inline function, static-local initializer INSIDE an
    unreferenced static inline function) x placement: emitted set == reachable set (readelf), program links and
    prints the model's value.
(b2) the KIND of reference as a dimension of (b): 49 kinds besides the plain call (models/c15_linkage.py REF_KINDS).
    EVALUATED references (the function must be emitted): &f, *f, f as a value (cast, comma, argument, ?: operand,
    _Generic result), initializer of an automatic / static-local pointer, struct, array, compound literal; the size
    expression of a VLA TYPE NAME in sizeof (`sizeof(char[f(n)])`, also [f(n)][2] and [2][f(n)]), the bound of a VLA
    declaration / typedef / typeof / pointer-to-VLA; second / third / omitted operand of ?:, the selected association
    of _Generic, statement expression, for-init, switch body.  NOT evaluated or never executed (emission is FREE, but
    the unit must link and print the model's value): sizeof f(n), sizeof &f, sizeof(char[sizeof f(n)]), sizeof of a
    statement expression, _Alignof(f(n)), _Alignof(char[f(n)]), typeof(f(n)), controlling expression and unselected
    association of _Generic, 1 ? x : f(n), 0 && f(n), 1 || f(n), if (0), while (0), after goto.
    uniform: every edge and every root reference of the graph has kind K - every graph with self-loops on <= 2
    functions x every root set x root kinds {call, static-local-init, dead-inline} (thorough: all 5 root kinds, both
    placements, and every graph without self-loops on 3 functions x {call, dead-inline});  mixed: every assignment
    of {call, K} to the edges and root references of the 2-function graphs (quick: without self-loops) that uses
    both.  Judged: must-be-emitted (reachable over evaluated references) <= emitted <= may-be-emitted (reachable over
    all references), no undefined reference to a static function, links, prints the model's value - which the same
    unit compiled by gcc -O0 must print too (else skipped).  64 graphs per translation unit (disjoint names).
(s) ONE identifier declared at several SCOPES of one unit (models/c15_linkage.py scope_model; C11 6.2.1, 6.2.2p4/p7):
    slots  [F0] run(o, P) { [A] . { [B] . { [C] . } . } . } [F1] run2(o) { [D] . } end(o) { . }  with
    F0 in {-, extern, tentative, initialised, static, static initialised}, A in {-, extern, static, static
    initialised, automatic, parameter}, B, C in {-, extern, static, static initialised, automatic}, F1 in {-, extern,
    tentative, initialised, static}, D in {-, extern, static}: every combination with <= 3 declarations (thorough:
    all 8933 well-defined ones) x {int, _Thread_local int, int[2] with extern T[] declarations} x option.  Each `.`
    is a probe that reads the object the identifier denotes there and stores a fresh value; the other unit (gcc)
    defines the external object unless the unit under test does, runs everything twice and prints every probe and
    the external object as IT sees it.  Expected rows from the model (a block-scope extern has the linkage of the
    visible prior declaration if that has linkage, else EXTERNAL linkage - also when a block-scope static or an
    automatic object of that name is visible), confirmed by a gcc twin; the symbol table is checked with the
    constraints of (a) (undefined reference present iff the external object is used and not defined here).
    Combinations in which the identifier would get both linkages (6.2.2p7, undefined) are left out and counted.
    60 cases per translation unit (identifiers v<k>).
(c) every 2-unit (and 3-unit) link set, unit = object form x function form: link succeeds iff the model says
    well-formed; output == model == gcc twin.
(d) address formation programs x {non-PIC, -fPIC exe, -fPIC -shared + main (non-PIC and PIC), -static}: output
    identical in all configurations and equal to the gcc twin's.  Includes one two-thread program per thread-local
    declaration form (file scope external/static, block scope static; initialised/zero): each thread sees its own
    copy in the library and in the main program.
(e) string-literal objects, judged on CONTENT only (sharing of storage is unspecified, 6.4.5p7, and never judged):
    alphabet = {"", u8, L, u, U} x every text of length <= 3 over {a, b, NUL} (40 texts: equal literals, prefixes of
    each other, literals equal up to an embedded NUL at the first/middle/last position, literals that differ only in
    length, empty literals, the same text in every encoding).
    (e1) every ordered PAIR over the alphabet (quick: the union of the pairs over 40 plain char texts, over the 13
    texts of length <= 2 within each kind, over the 4 texts of length <= 1 across all kinds, and over the 5 kinds
    of each text of length <= 2; thorough: all 200 x 200) and every ordered TRIPLE over a sub-alphabet (quick: 7 char
    literals over {a, NUL}; thorough: {"", L} x length <= 2), each tuple ALONE in its translation unit, in every
    context of E_CONTEXTS (pointer initialiser at file scope / static local / automatic / thread-local, pointer
    into the literal, array initialiser of size n, n+2, n-1 at file scope / static local / automatic, subscripted
    literal, sizeof, tables, struct members, address comparison): every byte up to sizeof is read back by a
    gcc-compiled reader and compared with the model; a gcc twin of the same units confirms the model.  Every single literal also as -fPIC object in a PIE.
    (e2) the pairs of a core alphabet packed ~100 units per program, half of them in the library unit and half in
    the main unit, built by chibicc in every configuration of part (d).
"""
import itertools, json, os, re, shutil, sys, tempfile, time

if __name__ == "__main__":
    sys.path.insert(0, os.path.dirname(os.path.dirname(os.path.abspath(__file__))))
from vlib import core
from models import c15_linkage as L

LEVEL = "exploration"
BUDGET = {"quick": 2400, "thorough": 7200}
TMO = 300                       # per-process wall limit: generous, the machine may be heavily loaded
NOX = "-Wl,-z,noexecstack"

TYPES = {  # key: (typedef text, is_array, size, align)
    "int": ("typedef int TT;", False, 4, 4),
    "ld":  ("typedef long double TT;", False, 16, 16),
    "c20": ("typedef char TT[20];", True, 20, 1),
    "s3":  ("typedef short TT[3];", True, 6, 2),
    "a32": ("typedef int TT;", False, 4, 32),              # every defining declaration carries _Alignas(32)
    # types completed AFTER (some of) the declarations of the object:
    "a3":  ("typedef int TT[3]; typedef int TI[];", True, 12, 4),   # case["inc"]: per declaration 'i' = TI (int[]), 'c' = TT
    "sinc": ("struct S; typedef struct S TT;", False, 24, 8),       # struct S is completed after the last declaration
}
SINC_COMPLETION = "struct S { long a[3]; };"
SINC_FORMS = ("E", "T", "tE", "tT")                       # no initializer, no internal linkage (6.9.2p3) with an incomplete type
FILE_FORMS = [k for k in L.OBJ_ORDER if L.OBJ_FORMS[k][0] == "file"]


def type_header(tk, complete=True):
    td, arr, _, _ = TYPES[tk]
    if tk == "sinc":
        return td + "\n" + (SINC_COMPLETION + "\n" if complete else "") + "#define RD(x) ((int)(x).a[0])\n#define WR(x,y) ((x).a[0]=(y))\n"
    if arr:
        return td + "\n#define RD(x) ((int)(x)[0])\n#define WR(x,y) ((x)[0]=(y))\n"
    return td + "\n#define RD(x) ((int)(x))\n#define WR(x,y) ((x)=(y))\n"


# ------------------------------------------------------------------------------------------------ tools
def px(argv, cwd=None, timeout=TMO, env=None):
    return core.run_limited(argv, cwd=cwd, timeout=timeout, env=env)


def parse_readelf(text):
    secs, syms = {}, []
    for line in text.splitlines():
        m = re.match(r"\s*\[\s*(\d+)\]\s+(.*)$", line)
        if m:
            tok = m.group(2).split()
            if int(m.group(1)) == 0 or len(tok) < 9:
                continue
            flags = tok[6] if not tok[6].isdigit() else ""
            secs[int(m.group(1))] = {"name": tok[0], "type": tok[1], "flags": flags, "align": int(tok[-1])}
            continue
        m = re.match(r"\s*\d+:\s+([0-9a-f]+)\s+(\S+)\s+(\S+)\s+(\S+)\s+(\S+)\s+(\S+)(?:\s+(\S+))?\s*$", line)
        if m and m.group(3) not in ("SECTION", "FILE") and m.group(7):
            syms.append({"value": int(m.group(1), 16), "size": int(m.group(2), 0), "type": m.group(3),
                         "bind": m.group(4), "ndx": m.group(6), "name": m.group(7)})
    return syms, secs


def readelf(obj):
    st, out, err = px(["readelf", "-sSW", obj])
    if st != 0:
        return None, None
    return parse_readelf(out)


def write(path, text):
    with open(path, "w") as f:
        f.write(text)


# ================================================================================================ part (a)
def a_obj_source(seq, use, tk, inc=None):
    """use: 'none' | 'end' | 'mid'(after declaration 0)"""
    lines = [type_header(tk, complete=False)]
    usefn = "int u_use(void) { return RD(v); }\nvoid u_set(int x) { WR(v, x); }"
    blk = set()
    for i, k in enumerate(seq):
        scope, sc, tls, init = L.OBJ_FORMS[k]
        t = "_Thread_local " if tls else ""
        if scope == "file":
            al = "_Alignas(32) " if tk == "a32" and sc != "extern" else ""
            tt = "TI" if inc and inc[i] == "i" else "TT"
            lines.append("%s%s%s%s v%s;" % (al, sc + " " if sc else "", t, tt, (" = {1, 0, 0}" if tk == "a3" else " = {1}") if init else ""))
        elif sc == "extern":
            lines.append("int u_blk%d(void) { extern %sTT v; return RD(v); }" % (i, t))
            blk.add(i)
        else:
            lines.append("int u_blk%d(void) { static %sTT v; WR(v, RD(v) + 10); return RD(v); }" % (i, "_Alignas(32) " if tk == "a32" else ""))
            blk.add(i)
        if use == "mid" and i == 0:
            lines.append(usefn)
    if tk == "sinc":
        lines.append(SINC_COMPLETION)
    if use == "end":
        lines.append(usefn)
    if use == "none":
        lines.append("int u_use(void) { return -1; }\nvoid u_set(int x) { }")
    for i in range(3):
        if i not in blk:
            lines.append("int u_blk%d(void) { return -1; }" % i)
    return "\n".join(lines) + "\n"


def a_obj_companion(tk, tls, mode):
    t = "_Thread_local " if tls else ""
    s = "#include <stdio.h>\n" + type_header(tk)
    if mode == "def":
        s += ("_Alignas(32) " if tk == "a32" else "") + t + "TT v = {7};\n"
    elif mode == "ext":
        s += "extern " + t + ("TI" if tk == "a3" else "TT") + " v;\n"
    if mode == "none":
        s += "int comp_rd(void) { return -2; }\nvoid comp_wr(int x) { }\n"
    else:
        s += "int comp_rd(void) { return RD(v); }\nvoid comp_wr(int x) { WR(v, x); }\n"
    s += ("extern int u_use(void), u_blk0(void), u_blk1(void), u_blk2(void); extern void u_set(int);\n"
          "static void show(void) { printf(\"%d %d %d %d %d\\n\", u_use(), u_blk0(), u_blk1(), u_blk2(), comp_rd()); }\n"
          "int main(void) { show(); comp_wr(9); show(); u_set(3); show(); return 0; }\n")
    return s


def a_obj_expected(seq, use, m):
    """(companion mode, expected stdout) from the model"""
    blkE = [i for i, k in enumerate(seq) if L.OBJ_FORMS[k][0] == "block" and L.OBJ_FORMS[k][1] == "extern"]
    blkS = [i for i, k in enumerate(seq) if L.OBJ_FORMS[k][0] == "block" and L.OBJ_FORMS[k][1] == "static"]
    referenced = use != "none" or bool(blkE)
    link = m["linkage"]
    if link is None or link == "internal":
        mode = "def"
    elif m["defkind"] != "none":
        mode = "ext"
    else:
        mode = "def" if referenced else "none"
    unit = 1 if m.get("defkind") == "def" else 0          # the unit's own object
    comp = 7
    shared = link == "external"
    if shared and mode == "def":
        unit = 7
    if shared and mode == "ext":
        comp = unit
    calls = dict((i, 0) for i in blkS)
    out = []

    def show():
        row = [unit if use != "none" else -1]
        for i in range(3):
            if i in blkE:
                row.append(unit)
            elif i in blkS:
                calls[i] += 10
                row.append(calls[i])
            else:
                row.append(-1)
        row.append(-2 if mode == "none" else (unit if shared else comp))
        out.append(" ".join(str(x) for x in row))
    show()
    if mode != "none":
        if shared:
            unit = 9
        else:
            comp = 9
    show()
    if use != "none":
        unit = 3
    show()
    return mode, referenced, "\n".join(out) + "\n"


def a_fn_source(seq, use):
    lines = []
    usefn = {"call": "int u_call(void) { return f(); }",
             "init": "int (*u_fp)(void) = f;\nint u_call(void) { return u_fp(); }",
             "slinit": "int u_call(void) { static int (*fp)(void) = f; return fp(); }"}
    blk = set()
    for i, k in enumerate(seq):
        d = L.FN_FORMS[k][0]
        sp = L.fn_spec(k)
        if k in L.FN_BLOCK:
            lines.append("int u_blk%d(void) { int f(void); return f(); }" % i)
            blk.add(i)
        elif k == "cp":
            lines.append("int u_d%d, f(void);" % i)
        elif k == "pc":
            lines.append("int f(void), u_d%d;" % i)
        else:
            lines.append("%sint f(void)%s" % (sp + " " if sp else "", " { return 1; }" if d else ";"))
        if use.startswith("mid-") and i == 0:
            lines.append(usefn[use[4:]])
    if use == "none":
        lines.append("int u_call(void) { return -1; }")
    elif not use.startswith("mid-"):
        lines.append(usefn[use])
    for i in range(3):
        if i not in blk:
            lines.append("int u_blk%d(void) { return -1; }" % i)
    return "\n".join(lines) + "\n"


def a_fn_companion(mode):
    s = "#include <stdio.h>\n"
    if mode == "def7":
        s += "int f(void) { return 7; }\n"
    elif mode == "def1":
        s += "int f(void) { return 1; }\n"
    elif mode == "ext":
        s += "extern int f(void);\n"
    s += "int comp_call(void) { return %s; }\n" % ("-2" if mode == "none" else "f()")
    s += ("extern int u_call(void); extern int u_blk0(void); extern int u_blk1(void); extern int u_blk2(void);\n"
          "int main(void) { printf(\"%d %d %d %d %d\\n\", u_call(), u_blk0(), u_blk1(), u_blk2(), comp_call()); return 0; }\n")
    return s


def a_fn_expected(seq, use, m):
    blk = [i for i, k in enumerate(seq) if k in L.FN_BLOCK]
    ref = use != "none" or bool(blk)
    if m["linkage"] == "internal":
        mode, val, comp = "def7", 1, 7
    elif m["extdef"]:
        mode, val, comp = "ext", 1, 1
    elif m["inline_only"]:
        mode, val, comp = ("def1", 1, 1) if ref else ("def7", 1, 7)
    else:
        mode, val, comp = ("def7", 7, 7) if ref else ("none", 7, -2)
    row = [val if use != "none" else -1] + [val if i in blk else -1 for i in range(3)] + [comp]
    return mode, ref, " ".join(str(x) for x in row) + "\n"


def companion(cache, name, text):
    """gcc-compiled companion object, built once per name (atomic rename: workers may race)."""
    o = os.path.join(cache, name + ".o")
    if not os.path.exists(o):
        tmp = tempfile.mkdtemp(dir=cache)
        write(os.path.join(tmp, "c.c"), text)
        st, out, err = px(["gcc", "-std=c11", "-O0", "-w", "-c", "-o", os.path.join(tmp, "c.o"), os.path.join(tmp, "c.c")])
        if st != 0:
            raise core.HarnessError("companion %s does not compile: %s" % (name, err[-500:]))
        os.rename(os.path.join(tmp, "c.o"), o)
        shutil.rmtree(tmp, ignore_errors=True)
    return o


def link_run(objs, exe, extra=(), pie=False):
    st, out, err = px(["gcc", "-pie" if pie else "-no-pie", "-o", exe] + list(objs) + [NOX] + list(extra))
    if st == "timeout":
        return "timeout", ""
    if st != 0:
        return "link-fail", err[-600:]
    st, out, err = px([exe])
    if st == "timeout":
        return "timeout", ""
    if st != 0:
        return "run-status=%s" % st, out
    return "ok", out


def eval_a(chibicc, wd, cache, case):
    """Returns {'status': 'ok'|'skip-<why>'|'harness-timeout', 'devs': [...], 'cls':..., 'files': {...}}"""
    kind, seq, use, fcommon, tk = case["kind"], case["seq"], case["use"], case["fcommon"], case.get("type", "int")
    opt = "-fcommon" if fcommon else "-fno-common"
    pic = ["-fPIC"] if case.get("pic") else []
    res = {"status": "ok", "devs": [], "cls": "", "files": {}, "nontrivial": False}
    if kind == "obj":
        m = L.obj_model(seq)
        if not m["valid"]:
            res["status"] = "skip-invalid"
            return res
        if use != "none" and (not m["has_file"] or (use == "mid" and m["first_file"] != 0)):
            res["status"] = "skip-invalid"                   # no visible declaration at the point of use
            return res
        inc = case.get("inc")
        elems = "N"
        if tk == "a3":
            ok, why, elems = L.obj_incomplete_array(seq, inc)
            if not ok:
                res["status"] = "skip-invalid"
                return res
        if tk == "sinc" and (use == "mid" or [k for k in seq if k not in SINC_FORMS]):
            res["status"] = "skip-invalid"                   # the type is incomplete at that point
            return res
        src = a_obj_source(seq, use, tk, inc)
        mode, referenced, expected = a_obj_expected(seq, use, m)
        comp = companion(cache, "obj_%s_%d_%s" % (tk, m["tls"], mode), a_obj_companion(tk, m["tls"], mode))
        res["cls"] = L.obj_class(m, fcommon)
        if tk == "a3":
            res["cls"] += "|array-%s" % ("completed-by-another-declaration" if elems == "N" and "c" in inc else
                                         "completed-by-initializer" if elems == "N" else
                                         "incomplete-at-end-of-unit" if elems == 1 else "incomplete-no-definition")
        if tk == "sinc":
            res["cls"] += "|struct-completed-after-declaration"
        res["nontrivial"] = len(seq) > 1 or m["defkind"] != "none"
    else:
        m = L.fn_model(seq)
        if m["valid"] and m["contested"]:
            res["status"] = "skip-undefined"
            return res
        if m["valid"]:
            mode, ref, expected = a_fn_expected(seq, use, m)
        if not m["valid"] or (m["linkage"] == "internal" and not m["has_def"] and ref):
            res["status"] = "skip-invalid"
            return res
        if (use.startswith("mid-") and (len(seq) < 2 or m["first_file"] != 0)) or (use != "none" and not m["nfile"]):
            res["status"] = "skip-invalid"                   # no visible declaration at the point of use
            return res
        src = a_fn_source(seq, use)
        referenced = ref
        comp = companion(cache, "fn_" + mode, a_fn_companion(mode))
        res["cls"] = L.fn_class(m, seq)
        res["nontrivial"] = len(seq) > 1 or m["has_def"]
    res["files"] = {"unit.c": src, "expected.txt": expected}
    u = os.path.join(wd, "unit.c")
    write(u, src)
    # reference: gcc accepts the unit and the gcc twin prints what the model expects
    go = os.path.join(wd, "unit_gcc.o")
    if pic:
        res["cls"] += "|fPIC"
    st, out, err = px(["gcc", "-std=c11", "-pedantic-errors", "-O0", "-w", opt] + pic + ["-c", "-o", go, u])
    if st == "timeout":
        res["status"] = "harness-timeout"
        return res
    if st != 0:
        res["status"] = "skip-ref-rejected"
        res["note"] = err[-300:]
        return res
    gs, gout = link_run([go, comp], os.path.join(wd, "p_gcc"))
    if gs == "timeout":
        res["status"] = "harness-timeout"
        return res
    if gs != "ok" or gout != expected:
        res["status"] = "skip-oracle-disagreement"
        res["note"] = "gcc twin: %s %r, model %r" % (gs, gout, expected)
        return res
    # chibicc
    co = os.path.join(wd, "unit.o")
    st, out, err = px([chibicc, opt] + pic + ["-c", "-o", co, u])
    if st == "timeout":
        res["status"] = "harness-timeout"
        return res
    if st != 0:
        res["devs"].append("valid-unit-rejected")
        res["files"]["chibicc.err"] = err[-1000:]
        return res
    syms, secs = readelf(co)
    if syms is None:
        res["status"] = "harness-timeout"
        return res
    allowed = {"u_use", "u_set", "u_call", "u_fp", "u_blk0", "u_blk1", "u_blk2", "u_d0", "u_d1", "u_d2", "v" if kind == "obj" else "f"}
    if [x for x in syms if x["bind"] != "LOCAL" and x["ndx"] != "UND" and x["name"] not in allowed and not x["name"].startswith("_")]:
        res["devs"].append("unexpected-global-definition")
    if kind == "obj":
        _, arr, size, align = TYPES[tk]
        if tk == "a3" and elems == 1:
            size = 4                          # int[] completed to one element at the end of the unit
        if arr and size >= 16:
            align = max(align, 16)            # psABI 3.1.2: array variables of >= 16 bytes are 16-byte aligned
        res["devs"] += L.check_object_symbol("v", m, referenced, fcommon, size, align, syms, secs)
    else:
        res["devs"] += L.check_function_symbol("f", m, referenced, syms, secs)
    cs, cout = link_run([co, comp], os.path.join(wd, "p_chibicc"))
    if cs == "timeout":
        res["status"] = "harness-timeout"
    elif res["devs"]:
        pass                                  # the symbol-table deviation is the primary observation
    elif cs == "link-fail":
        res["devs"].append("link-fails-with-companion")
        res["files"]["link.err"] = cout
    elif cs != "ok":
        res["devs"].append("program-" + cs)
    elif cout != expected:
        res["devs"].append("program-output-differs")
        res["files"]["got.txt"] = cout
    return res


def _a_batch(args):
    chibicc, wd, cache, cases = args
    os.makedirs(wd, exist_ok=True)
    out = []
    for c in cases:
        r = eval_a(chibicc, wd, cache, c)
        out.append((c, r))
    return out


# ================================================================================================ part (b)
ROOT_KINDS = ["call", "file-init", "static-local-init", "dead-inline", "dead-inline-static-local-init"]


def b_kinds(case):
    """(edges, kinds of the edges, roots, kinds of the root references): every kind is 'call' unless the case says so"""
    edges = [tuple(e) for e in case["edges"]]
    return edges, list(case.get("ek") or ["call"] * len(edges)), list(case["roots"]), list(case.get("rk") or ["call"] * len(case["roots"]))


def b_plain(case):
    return not case.get("ek") and not case.get("rk")


def b_source(case, idx=0, pfx="", helpers=True):
    n, roots, kind, place = case["n"], case["roots"], case["kind"], case["place"]
    edges, ek, roots, rk = b_kinds(case)
    kind_of = dict(zip(edges, ek))
    F = pfx + "f"
    protos = ["static inline unsigned %s%d(int d);" % (F, i) for i in range(n)]
    if not b_plain(case) and helpers:
        protos.insert(0, L.REF_HELPERS.rstrip("\n"))
    defs = []
    for i in range(n):
        pre, body = "", ""
        for j in range(n):
            if (i, j) in kind_of:
                p, e = L.ref_code(kind_of[(i, j)], "%s%d" % (F, j), "d - 1", "%d_%d" % (i, j))
                pre += p + " " if p else ""
                body += " + %du * %s" % (j + 2, e)
        defs.append("static inline unsigned %s%d(int d) { if (d <= 0) return %du; %sreturn %du%s; }" % (F, i, i + 1, pre, i + 1, body))
    tab = ", ".join(["%s%d" % (F, r) for r in roots] + ["0"])
    loop = "unsigned s = 0; for (int i = 0; t[i]; i++) s = s * 31u + t[i](d); return s;"
    rcode = [L.ref_code(k, "%s%d" % (F, r), "d", "r%d" % r) for r, k in zip(roots, rk)]
    rbody = "".join(p + " " for p, e in rcode if p) + " ".join("s = s * 31u + %s;" % e for p, e in rcode)
    if kind == "call":
        ent = ["unsigned e%d(int d) { unsigned s = 0; %s return s; }" % (idx, rbody)]
    elif kind == "file-init":
        ent = ["unsigned (*t%d[])(int) = { %s };" % (idx, tab),
               "unsigned e%d(int d) { unsigned (**t)(int) = t%d; %s }" % (idx, idx, loop)]
    elif kind == "static-local-init":
        ent = ["unsigned e%d(int d) { static unsigned (*t[])(int) = { %s }; %s }" % (idx, tab, loop)]
    elif kind == "dead-inline":
        ent = ["static inline unsigned u%d(int d) { unsigned s = 0; %s return s; }" % (idx, rbody),
               "unsigned e%d(int d) { return 12345u + d; }" % idx]
    else:       # the only references sit in the initializer of a static local of a function that is itself unreferenced
        ent = ["static inline unsigned u%d(int d) { static unsigned (*t[])(int) = { %s }; %s }" % (idx, tab, loop),
               "unsigned e%d(int d) { return 12345u + d; }" % idx]
    parts = protos + (ent + defs if place == "before" else defs + ent)
    return "\n".join(parts) + "\n"


def b_model3(case):
    """(required, allowed, value): functions that must be emitted, functions that may be emitted, value of e(3)"""
    n, kind = case["n"], case["kind"]
    edges, ek, roots, rk = b_kinds(case)
    if kind.startswith("dead-inline"):
        return set(), set(), 12345 + 3
    if kind != "call":
        rk = ["call"] * len(roots)                   # the roots are referenced by an initializer: always a reference
    return L.ref_graph_model(n, edges, ek, roots, rk, 3)


def b_model(case):
    req, allowed, val = b_model3(case)
    return req, val


def b_class(case, live):
    return "root=%s,place=%s%s%s" % (case["kind"], case["place"], ",fPIC" if case.get("pic") else "",
                                     ",ref=%s" % case["ref"] if case.get("ref") else "")


def b_compile(chibicc, wd, case, idx):
    """compile one graph unit, static check. returns (status, devs, obj, files)"""
    src = b_source(case, idx)
    live, allowed, val = b_model3(case)
    u = os.path.join(wd, "g%d.c" % idx)
    o = os.path.join(wd, "g%d.o" % idx)
    write(u, src)
    st, out, err = px([chibicc] + (["-fPIC"] if case.get("pic") else []) + ["-c", "-o", o, u])
    files = {"unit.c": src}
    if st == "timeout":
        return "harness-timeout", [], None, files
    if st != 0:
        files["chibicc.err"] = err[-1000:]
        return "ok", ["valid-unit-rejected"], None, files
    syms, secs = readelf(o)
    if syms is None:
        return "harness-timeout", [], None, files
    devs = []
    emitted = set()
    for s in syms:
        m = re.fullmatch(r"f(\d+)", s["name"])
        if m and s["ndx"] != "UND":
            emitted.add(int(m.group(1)))
            if s["bind"] != "LOCAL":
                devs.append("static-inline-emitted-%s" % s["bind"])
    if live - emitted:
        devs.append("live-function-not-emitted")
    elif [s for s in syms if re.fullmatch(r"[fu]\d+", s["name"]) and s["bind"] != "LOCAL"]:
        devs.append("global-reference-to-static-inline")
    if emitted - allowed:
        devs.append("dead-function-emitted")
    if [s for s in syms if s["name"] == "u%d" % idx and s["ndx"] != "UND"]:
        devs.append("dead-function-emitted")
    files["expected.txt"] = "must be emitted=%s may be emitted=%s emitted=%s value=%u\n" % (sorted(live), sorted(allowed), sorted(emitted), val)
    return "ok", sorted(set(devs)), o, files


def b_driver(idxs):
    return ("#include <stdio.h>\n" + "".join("extern unsigned e%d(int);\n" % i for i in idxs) +
            "int main(void) {\n" + "".join('  printf("%%d %%u\\n", %d, e%d(3));\n' % (i, i) for i in idxs) + "  return 0;\n}\n")


def b_link(wd, items):
    """items: [(idx, obj, expected value)].  returns {idx: deviation or None} or 'timeout'"""
    drv = os.path.join(wd, "drv.c")
    write(drv, b_driver([i for i, _, _ in items]))
    st, out = link_run([drv] + [o for _, o, _ in items], os.path.join(wd, "prog"))
    if st == "timeout":
        return "timeout"
    if st == "ok":
        got = dict(l.split() for l in out.splitlines() if len(l.split()) == 2)
        return dict((i, None if got.get(str(i)) == str(v) else "program-output-differs") for i, _, v in items)
    if len(items) == 1:
        return {items[0][0]: "link-fails" if st == "link-fail" else "program-" + st}
    h = len(items) // 2
    a, b = b_link(wd, items[:h]), b_link(wd, items[h:])
    if a == "timeout" or b == "timeout":
        return "timeout"
    a.update(b)
    return a


def _b_batch(args):
    chibicc, wd, cases = args
    os.makedirs(wd, exist_ok=True)
    res = []
    tolink = []
    for idx, case in enumerate(cases):
        st, devs, obj, files = b_compile(chibicc, wd, case, idx)
        res.append([case, st, devs, files])
        # a missing live function or an undefined global reference to a static function cannot link: the symbol-table
        # deviation is the observation, no link is attempted
        if st == "ok" and obj and "live-function-not-emitted" not in devs and "global-reference-to-static-inline" not in devs:
            tolink.append((idx, obj, b_model(case)[1]))
    GRP = 40
    # units whose symbol table already deviates are linked alone (a failing member would make the whole group bisect)
    suspect = [t for t in tolink if res[t[0]][2]]
    tolink = [t for t in tolink if not res[t[0]][2]]
    groups = [[t] for t in suspect] + [tolink[g:g + GRP] for g in range(0, len(tolink), GRP)]
    for grp in groups:
        r = b_link(wd, grp)
        if r == "timeout":
            for i, _, _ in grp:
                res[i][1] = "harness-timeout"
            continue
        for i, d in r.items():
            if d:
                res[i][2] = res[i][2] + [d]
    for idx, case in enumerate(cases):                # a missing live function must show up as a link error
        if "live-function-not-emitted" in res[idx][2]:
            pass
    for f in os.listdir(wd):
        try:
            os.unlink(os.path.join(wd, f))
        except OSError:
            pass
    return [tuple(x) for x in res]


def b_twin_values(wd, src, idxs):
    """the same unit(s) compiled by gcc -O0 and run: {idx: value printed} or a status string"""
    u, o = os.path.join(wd, "twin.c"), os.path.join(wd, "twin.o")
    write(u, src)
    st, out, err = px(["gcc", "-std=gnu11", "-O0", "-w", "-c", "-o", o, u])
    if st == "timeout":
        return "harness-timeout"
    if st != 0:
        return "skip-ref-rejected"
    drv = os.path.join(wd, "drv.c")
    write(drv, b_driver(idxs))
    st, out = link_run([drv, o], os.path.join(wd, "prog_gcc"))
    if st == "timeout":
        return "harness-timeout"
    if st != "ok":
        return "skip-oracle-disagreement"
    return dict(l.split() for l in out.splitlines() if len(l.split()) == 2)


def b_group_eval(chibicc, wd, cases, twin=False):
    """Several graphs in ONE translation unit (disjoint name spaces g<k>_): returns per case (status, devs).
    twin: the gcc-compiled twin of the unit must print the model's value, else the case is skipped."""
    def group_source(ks):
        return "".join(b_source(cases[k], idx=k, pfx="g%d_" % k, helpers=(k == ks[0])) for k in ks)
    allk = list(range(len(cases)))
    models = [b_model3(c) for c in cases]
    skip = {}
    if twin:
        tv = b_twin_values(wd, group_source(allk), allk)
        if tv == "harness-timeout":
            return [("harness-timeout", [])] * len(cases)
        if not isinstance(tv, dict):
            return None                                   # every graph is looked at alone by the caller
        for k in allk:
            if tv.get(str(k)) != str(models[k][2]):
                skip[k] = "skip-oracle-disagreement"
    src = group_source(allk)
    u, o = os.path.join(wd, "grp.c"), os.path.join(wd, "grp.o")
    write(u, src)
    st, out, err = px([chibicc, "-c", "-o", o, u])
    if st == "timeout":
        return [("harness-timeout", [])] * len(cases)
    if st != 0:
        return None
    syms, secs = readelf(o)
    if syms is None:
        return [("harness-timeout", [])] * len(cases)
    emitted = [set() for _ in cases]
    devs = [[] for _ in cases]
    for s in syms:
        m = re.fullmatch(r"g(\d+)_f(\d+)", s["name"])
        if m:
            k = int(m.group(1))
            if s["ndx"] != "UND":
                emitted[k].add(int(m.group(2)))
                if s["bind"] != "LOCAL":
                    devs[k].append("static-inline-emitted-%s" % s["bind"])
            elif s["bind"] != "LOCAL":
                devs[k].append("global-reference-to-static-inline")
        m = re.fullmatch(r"u(\d+)", s["name"])
        if m and s["ndx"] != "UND":
            devs[int(m.group(1))].append("dead-function-emitted")
    vals = []
    for k, c in enumerate(cases):
        live, allowed, val = models[k]
        vals.append(val)
        if live - emitted[k]:
            devs[k] = ["live-function-not-emitted"]
        elif emitted[k] - allowed:
            devs[k].append("dead-function-emitted")
    clean = [k for k in range(len(cases)) if not devs[k]]
    if clean:
        if len(clean) < len(cases):
            # the graphs whose symbols deviate are re-examined alone by the caller; the others are still linked and run
            write(u, group_source(clean))
            st, out, err = px([chibicc, "-c", "-o", o, u])
            if st == "timeout":
                return [("harness-timeout", [])] * len(cases)
            if st != 0:
                return None
        drv = os.path.join(wd, "drv.c")
        write(drv, b_driver(clean))
        st, out = link_run([drv, o], os.path.join(wd, "prog"))
        if st == "timeout":
            return [("harness-timeout", [])] * len(cases)
        if st != "ok":
            return None
        got = dict(l.split() for l in out.splitlines() if len(l.split()) == 2)
        for k in clean:
            if got.get(str(k)) != str(vals[k]):
                devs[k].append("program-output-differs")
    return [(skip[k], []) if k in skip else ("ok", sorted(set(devs[k]))) for k in allk]


def _b_multi(args):
    """groups of GRP graphs per translation unit; anything unusual is re-examined alone."""
    chibicc, wd, cases, GRP = args[:4]
    twin = len(args) > 4 and args[4]
    os.makedirs(wd, exist_ok=True)
    out = []
    for g in range(0, len(cases), GRP):
        grp = cases[g:g + GRP]
        r = b_group_eval(chibicc, wd, grp, twin)
        for k, case in enumerate(grp):
            if r is not None and r[k][0] == "ok" and not r[k][1]:
                out.append((case, "ok", [], None, None))
                continue
            if r is not None and r[k][0] != "ok":
                out.append((case, r[k][0], [], None, None))
                continue
            st, devs, files = eval_b_single(chibicc, wd, case, twin)    # alone
            if st == "ok" and not devs and r is not None and r[k][1]:
                # deviates only in the company of the other graphs: keep the group as the reproducer
                out.append((case, "ok", r[k][1], {"unit.c": b_source(case)}, {"group": grp, "k": k}))
            else:
                out.append((case, st, devs, files if devs else None, None))
    for f in os.listdir(wd):
        try:
            os.unlink(os.path.join(wd, f))
        except OSError:
            pass
    return out


def b_cases(n, places, selfloops=True):
    pairs = [(i, j) for i in range(n) for j in range(n) if selfloops or i != j]
    for mask in range(1 << len(pairs)):
        edges = [pairs[k] for k in range(len(pairs)) if mask >> k & 1]
        for rmask in range(1 << n):
            roots = [i for i in range(n) if rmask >> i & 1]
            for kind in ROOT_KINDS:
                for place in places:
                    yield {"part": "b", "n": n, "edges": edges, "roots": roots, "kind": kind, "place": place}


def eval_b_single(chibicc, wd, case, twin=False):
    if twin:
        tv = b_twin_values(wd, b_source(case, 0), [0])
        if not isinstance(tv, dict):
            return tv, [], {}
        if tv.get("0") != str(b_model3(case)[2]):
            return "skip-oracle-disagreement", [], {}
    st, devs, obj, files = b_compile(chibicc, wd, case, 0)
    if st == "ok" and obj:
        r = b_link(wd, [(0, obj, b_model(case)[1])])
        if r != "timeout" and r[0] and "live-function-not-emitted" not in devs:
            devs = devs + [r[0]]
    return st, devs, files


def b_ref_cases(quick):
    """part (b2): the KIND of reference as a dimension.  Every kind K of L.REF_KINDS (other than the plain call):
    uniform = every edge and every root reference of the graph is of kind K (n <= 2 with self-loops; thorough also
    n = 3 without self-loops); mixed = every assignment of {call, K} to the edges and root references of the
    2-node graphs that uses both (quick: without self-loops)."""
    kinds = [k for k in L.REF_ORDER if k != "call"]
    out = []

    def graphs(n, loops):
        pairs = [(i, j) for i in range(n) for j in range(n) if loops or i != j]
        for mask in range(1 << len(pairs)):
            yield [pairs[k] for k in range(len(pairs)) if mask >> k & 1]
    for K in kinds:
        rootkinds = ["call", "static-local-init", "dead-inline"] if quick else ROOT_KINDS
        for n in (1, 2):
            for edges in graphs(n, True):
                for rmask in range(1 << n):
                    roots = [i for i in range(n) if rmask >> i & 1]
                    for kind in rootkinds:
                        for place in (["after"] if quick else ["after", "before"]):
                            out.append({"part": "b", "n": n, "edges": edges, "roots": roots, "kind": kind, "place": place,
                                        "ek": [K] * len(edges), "rk": [K] * len(roots) if kind in ("call", "dead-inline") else [], "ref": K})
        if not quick:
            for edges in graphs(3, False):
                for rmask in range(1 << 3):
                    roots = [i for i in range(3) if rmask >> i & 1]
                    for kind in ("call", "dead-inline"):
                        out.append({"part": "b", "n": 3, "edges": edges, "roots": roots, "kind": kind, "place": "after",
                                    "ek": [K] * len(edges), "rk": [K] * len(roots), "ref": K})
        pairs = [(i, j) for i in range(2) for j in range(2) if not quick or i != j]
        for ea in itertools.product((None, "call", K), repeat=len(pairs)):
            for ra in itertools.product((None, "call", K), repeat=2):
                used = set(ea) | set(ra)
                if "call" not in used or K not in used:
                    continue                                  # uniform assignments are enumerated above
                edges = [p for p, a in zip(pairs, ea) if a]
                roots = [r for r, a in zip(range(2), ra) if a]
                out.append({"part": "b", "n": 2, "edges": edges, "roots": roots, "kind": "call", "place": "after",
                            "ek": [a for a in ea if a], "rk": [a for a in ra if a], "ref": K, "mixed": True})
    return out


# ================================================================================================ part (s)
# Declarations of one identifier ACROSS SCOPES (models/c15_linkage.py scope_model): which object does each use denote?
S_TYPES = {     # key: (declarator suffix, incomplete suffix for extern declarations, read, write, init, tls)
    "int": ("", "", "%s", "%s = %s", "%d", False),
    "tls": ("", "", "%s", "%s = %s", "%d", True),
    "arr": ("[2]", "[]", "%s[1]", "%s[1] = %s", "{0, %d}", False),
}
S_PACK = 60


def s_decl(form, slot, V, tk):
    suf, inc, rd, wr, ini, tls = S_TYPES[tk]
    t = "_Thread_local " if tls else ""
    i = L.SCOPE_SLOTS.index(slot)
    return {"E": "extern %sint %s%s;" % (t, V, inc), "bE": "extern %sint %s%s;" % (t, V, inc),
            "T": "%sint %s%s;" % (t, V, suf), "I": "%sint %s%s = %s;" % (t, V, suf, ini % L.SCOPE_INIT["I"]),
            "S": "static %sint %s%s;" % (t, V, suf), "SI": "static %sint %s%s = %s;" % (t, V, suf, ini % L.SCOPE_INIT["SI"]),
            "bS": "static %sint %s%s;" % (t, V, suf), "bSI": "static %sint %s%s = %s;" % (t, V, suf, ini % (L.SCOPE_INIT["bSI"] + i)),
            "bA": "int %s%s = %s;" % (V, suf, ini % (L.SCOPE_INIT["bA"] + i)), "bP": "", "-": ""}[form]


def s_unit(case, k, tk):
    """the unit under test for one case; the identifier is v<k>, the functions are u<k>_run / _run2 / _end"""
    m = L.scope_model(case)
    V = "v%d" % k
    rd, wr = S_TYPES[tk][2], S_TYPES[tk][3]
    f = dict((sl, case.get(sl, "-")) for sl in L.SCOPE_SLOTS)

    def probe(p):
        if not m["probes"][p]:
            return ""
        i = L.SCOPE_PROBES.index(p)
        return "o[%d] = %s; %s; " % (i, rd % V, wr % (V, 100 + i))

    def d(slot):
        t = s_decl(f[slot], slot, V, tk)
        return t + " " if t else ""
    lines = []
    if f["F0"] != "-":
        lines.append(d("F0").strip())
    lines.append("void u%d_run(int *o, int %s) { %s%s{ %s%s{ %s%s} %s} %s}" % (
        k, V if f["A"] == "bP" else "c15_p", d("A"), probe("pA"), d("B"), probe("pB"), d("C"), probe("pC"), probe("pB2"), probe("pA2")))
    if f["F1"] != "-":
        lines.append(d("F1").strip())
    lines.append("void u%d_run2(int *o) { %s%s}" % (k, d("D"), probe("pD")))
    lines.append("void u%d_end(int *o) { %s}" % (k, probe("pE")))
    return "\n".join(lines) + "\n"


def s_companion(cases, ks, tk):
    """the other translation unit (compiled by gcc): defines the external object unless the unit under test does,
    runs the probes twice and prints what they saw and the external object as seen from here"""
    suf, inc, rd, wr, ini, tls = S_TYPES[tk]
    t = "_Thread_local " if tls else ""
    np = len(L.SCOPE_PROBES)
    s = "#include <stdio.h>\n"
    for case, k in zip(cases, ks):
        m = L.scope_model(case)
        V = "v%d" % k
        if m["x_def"] != "none":
            s += "extern %sint %s%s;\n" % (t, V, suf)
        else:
            s += "%sint %s%s = %s;\n" % (t, V, suf, ini % L.SCOPE_INIT["companion"])
        s += "void u%d_run(int *, int), u%d_run2(int *), u%d_end(int *);\n" % (k, k, k)
        s += ("static void show%d(void) {\n  int o[%d];\n  for (int r = 1; r <= 2; r++) {\n    for (int i = 0; i < %d; i++) o[i] = -1;\n"
              "    u%d_run(o, 59 + r); u%d_run2(o); u%d_end(o);\n    printf(\"%d\");\n    for (int i = 0; i < %d; i++) printf(\" %%d\", o[i]);\n"
              "    printf(\" %%d\\n\", %s);\n    %s;\n  }\n}\n" % (k, np, np, k, k, k, k, np, rd % V, wr % (V, 9)))
    s += "int main(void) {\n" + "".join("  show%d();\n" % k for k in ks) + "  return 0;\n}\n"
    return s


def s_expected(case, k):
    m = L.scope_model(case)
    return ["%d %s" % (k, " ".join(str(x) for x in row)) for row in L.scope_expected(case, m)]


def s_sym_model(case, tk):
    """what the symbol table must say about the identifier: arguments of L.check_object_symbol"""
    m = L.scope_model(case)
    tls = S_TYPES[tk][5]
    if m["x_declared"]:
        return {"linkage": "external", "defkind": m["x_def"], "tls": tls}, m["x_referenced"]
    if m["n_declared"]:
        return {"linkage": "internal", "defkind": m["n_def"], "tls": tls}, True
    return {"linkage": None, "defkind": "none", "tls": tls}, False


def s_first_difference(case, got, exp):
    """class of the first probe whose value differs: the declaration it denotes and the prior declaration visible
    where that declaration stands"""
    m = L.scope_model(case)
    for g, e in zip(got, exp):
        gv, ev = g.split()[1:], e.split()[1:]
        if len(gv) != len(ev):
            break
        for i, (a, b) in enumerate(zip(gv, ev)):
            if a != b:
                if i >= len(L.SCOPE_PROBES):
                    return "external-object-as-seen-by-the-other-unit"
                sl = m["probes"][L.SCOPE_PROBES[i]]
                if not sl:
                    return "probe"
                f = case[sl]
                if f in ("E", "bE"):
                    return "use-of-%s,visible-prior=%s" % ("block-extern" if f == "bE" else "file-extern", L.SCOPE_PRIOR_NAME[m["prior"].get(sl)])
                return "use-of-%s" % L.SCOPE_PRIOR_NAME[f]
    return "output"


def s_eval(chibicc, wd, cases, tk, fcommon, pic, base=0):
    """cases packed in one unit (identifiers v<k>).  -> [(status, [(class, deviation)], files)] per case"""
    ks = list(range(base, base + len(cases)))
    opt = "-fcommon" if fcommon else "-fno-common"
    picf = ["-fPIC"] if pic else []
    unit = "".join(s_unit(c, k, tk) for c, k in zip(cases, ks))
    comp = s_companion(cases, ks, tk)
    u, cpath = os.path.join(wd, "unit.c"), os.path.join(wd, "comp.c")
    write(u, unit)
    write(cpath, comp)

    def halves(why):
        if len(cases) == 1:
            return [why]
        h = len(cases) // 2
        return s_eval(chibicc, wd, cases[:h], tk, fcommon, pic, base) + s_eval(chibicc, wd, cases[h:], tk, fcommon, pic, base + h)
    T = ("harness-timeout", [], {})
    st, out, err = px(["gcc", "-std=c11", "-O0", "-w"] + picf + ["-c", "-o", os.path.join(wd, "comp.o"), cpath])
    if st == "timeout":
        return [T] * len(cases)
    if st != 0:
        raise core.HarnessError("part (s): the companion unit does not compile: " + err[-500:])
    st, out, err = px(["gcc", "-std=c11", "-pedantic-errors", "-O0", "-w", opt] + picf + ["-c", "-o", os.path.join(wd, "unit_gcc.o"), u])
    if st == "timeout":
        return [T] * len(cases)
    if st != 0:
        return halves(("skip-ref-rejected", [], {"note": err[-300:]}))
    gs, gout = link_run([os.path.join(wd, "unit_gcc.o"), os.path.join(wd, "comp.o")], os.path.join(wd, "p_gcc"), pie=pic)
    if gs == "timeout":
        return [T] * len(cases)
    if gs != "ok":
        return halves(("skip-oracle-disagreement", [], {"note": "gcc twin: %s %s" % (gs, gout[-200:])}))
    ggot = {}
    for l in gout.splitlines():
        ggot.setdefault(l.split(" ", 1)[0], []).append(l)
    co = os.path.join(wd, "unit.o")
    st, out, err = px([chibicc, opt] + picf + ["-c", "-o", co, u])
    if st == "timeout":
        return [T] * len(cases)
    if st != 0:
        return halves(("ok", [("unit", "valid-unit-rejected")], {"unit.c": unit, "chibicc.err": err[-1000:]}))
    syms, secs = readelf(co)
    if syms is None:
        return [T] * len(cases)
    cs, cout = link_run([co, os.path.join(wd, "comp.o")], os.path.join(wd, "p_cc"), pie=pic)
    if cs == "timeout":
        return [T] * len(cases)
    if cs != "ok" and len(cases) > 1:
        return halves(None)
    cgot = {}
    if cs == "ok":
        for l in cout.splitlines():
            cgot.setdefault(l.split(" ", 1)[0], []).append(l)
    res = []
    for case, k in zip(cases, ks):
        exp = s_expected(case, k)
        if ggot.get(str(k)) != exp:
            res.append(("skip-oracle-disagreement", [], {"note": "gcc twin %r, model %r" % (ggot.get(str(k)), exp)}))
            continue
        m, referenced = s_sym_model(case, tk)
        size, align = (8, 4) if tk == "arr" else (4, 4)
        devs = [(L.obj_class(dict(m, ntent=0), fcommon), d)
                for d in L.check_object_symbol("v%d" % k, m, referenced, fcommon, size, align, syms, secs)]
        got = cgot.get(str(k), [])
        files = {"unit.c": s_unit(case, k, tk), "companion.c": s_companion([case], [k], tk), "expected.txt": "\n".join(exp) + "\n"}
        if cs != "ok":
            devs.append(("program", "link-fails-with-companion" if cs == "link-fail" else "program-" + cs))
            files["detail.txt"] = cout
        elif got != exp:
            devs.append((s_first_difference(case, got, exp), "denotes-another-object"))
            files["got.txt"] = "\n".join(got) + "\n"
        res.append(("ok", devs, files))
    return res


def _s_batch(args):
    chibicc, wd, jobs = args
    os.makedirs(wd, exist_ok=True)
    out = []
    for cases, tk, fcommon, pic in jobs:
        r = s_eval(chibicc, wd, cases, tk, fcommon, pic)
        out += [(c, tk, fcommon, pic) + tuple(x) for c, x in zip(cases, r)]
    for f in os.listdir(wd):
        try:
            os.unlink(os.path.join(wd, f))
        except OSError:
            pass
    return out


def s_cases(maxdecl):
    """(valid cases with <= maxdecl declarations, number of combinations left out as undefined/invalid)"""
    out, skipped = [], 0
    for fs in itertools.product(*[L.SCOPE_FORMS[sl] for sl in L.SCOPE_SLOTS]):
        if sum(1 for f in fs if f != "-") > maxdecl or all(f == "-" for f in fs):
            continue
        case = dict((sl, f) for sl, f in zip(L.SCOPE_SLOTS, fs) if f != "-")
        if L.scope_model(case)["status"] == "ok":
            out.append(case)
        else:
            skipped += 1
    return out, skipped


# ================================================================================================ part (c)
def c_unit_source(i, o, f):
    s = []
    if o == "-":
        s.append("int o%d_get(void) { return -1; }\nvoid o%d_set(int x) { }" % (i, i))
    elif o == "bE":
        s.append("int o%d_get(void) { extern int v; return v; }\nvoid o%d_set(int x) { extern int v; v = x; }" % (i, i))
    else:
        s.append({"E": "extern int v;", "T": "int v;", "I": "int v = 5;", "S": "static int v = %d;" % (20 + i),
                  "tE": "extern _Thread_local int v;", "tT": "_Thread_local int v;", "tI": "_Thread_local int v = 5;"}[o])
        s.append("int o%d_get(void) { return v; }\nvoid o%d_set(int x) { v = x; }" % (i, i))
    s.append("int o%d_cnt(void) { static int n; static int k = 3; return ++n + k; }\nconst char *o%d_str(void) { return \"unit\"; }" % (i, i))
    if f == "-":
        s.append("int f%d_call(void) { return -1; }" % i)
    else:
        s.append({"p": "int f(void);", "d": "int f(void) { return 100; }", "ds": "static int f(void) { return %d; }" % (30 + i),
                  "di": "inline int f(void) { return 100; }", "dei": "extern inline int f(void) { return 100; }",
                  "dsi": "static inline int f(void) { return %d; }" % (30 + i)}[f])
        s.append("int f%d_call(void) { return f(); }" % i)
    return "\n".join(s) + "\n"


def c_driver(n):
    s = "#include <stdio.h>\n"
    for i in range(n):
        s += "extern int o%d_get(void), f%d_call(void); extern void o%d_set(int);\n" % (i, i, i)
    s += "static void snap(const char *t) {\n" + "".join('  printf("%%s o%d %%d\\n", t, o%d_get());\n' % (i, i) for i in range(n)) + "}\n"
    s += "int main(void) {\n  snap(\"init\");\n"
    for i in range(n):
        s += '  o%d_set(%d); snap("set%d");\n' % (i, 50 + i, i)
    for i in range(n):
        s += '  printf("fn f%d %%d\\n", f%d_call());\n' % (i, i)
    return s + "  return 0;\n}\n"


def _c_compile(args):
    chibicc, d, i, o, f, fcommon = args
    opt = "-fcommon" if fcommon else "-fno-common"
    base = os.path.join(d, "u%d_%s_%s_%d" % (i, o.replace("-", "n"), f.replace("-", "n"), fcommon))
    write(base + ".c", c_unit_source(i, o, f))
    r1 = px([chibicc, opt, "-c", "-o", base + ".cc.o", base + ".c"])
    r2 = px(["gcc", "-std=c11", "-O0", "-w", opt, "-c", "-o", base + ".gcc.o", base + ".c"])
    return (i, o, f, fcommon), r1[0], r1[2][-500:], r2[0]


def c_objs(d, objs, fns, fcommon, who):
    return [os.path.join(d, "u%d_%s_%s_%d.%s.o" % (i, o.replace("-", "n"), f.replace("-", "n"), fcommon, who))
            for i, (o, f) in enumerate(zip(objs, fns))]


def c_eval(d, wd, objs, fns, fcommon):
    """-> (status, deviation or None, detail)"""
    verdict, why = L.link_model(objs, fns, fcommon)
    if verdict == "undefined":
        return "skip-undefined", None, why
    n = len(objs)
    drv = os.path.join(d, "drv%d.o" % n)
    expected = "\n".join(L.link_expected(objs, fns)) + "\n"
    gs, gout = link_run([drv] + c_objs(d, objs, fns, fcommon, "gcc"), os.path.join(wd, "pg"))
    if gs == "timeout":
        return "harness-timeout", None, ""
    if verdict == "fail":
        if gs != "link-fail":
            return "skip-oracle-disagreement", None, "model: ill-formed (%s); gcc twin links" % why
    elif gs != "ok" or gout != expected:
        return "skip-oracle-disagreement", None, "model ok; gcc twin %s %r vs %r" % (gs, gout[-200:], expected[-200:])
    cs, cout = link_run([drv] + c_objs(d, objs, fns, fcommon, "cc"), os.path.join(wd, "pc"))
    if cs == "timeout":
        return "harness-timeout", None, ""
    if verdict == "fail":
        return "ok", (None if cs == "link-fail" else "link-succeeds-on-ill-formed-set"), why
    if cs == "link-fail":
        return "ok", "link-fails-on-well-formed-set", cout
    if cs != "ok":
        return "ok", "program-" + cs, cout
    if cout != expected:
        return "ok", "program-output-differs", "got:\n%s\nexpected:\n%s" % (cout, expected)
    return "ok", None, ""


def _c_batch(args):
    d, wd, cases = args
    os.makedirs(wd, exist_ok=True)
    out = []
    for objs, fns, fcommon in cases:
        st, dev, detail = c_eval(d, wd, objs, fns, fcommon)
        cls = None
        if dev:                                            # which dimension carries the failure?
            no = ["-"] * len(objs)
            so, do, _ = c_eval(d, wd, objs, no, fcommon)
            sf, df, _ = c_eval(d, wd, no, fns, fcommon)
            so_, sf_ = "+".join(sorted(set(objs) - {"-"})), "+".join(sorted(set(fns) - {"-"}))
            if do:
                cls = "obj=" + so_
            elif df:
                cls = "fn=" + sf_
            else:
                cls = "obj=" + so_ + ",fn=" + sf_
            cls += ",fcommon" if fcommon else ",fno-common"
        out.append(((objs, fns, fcommon), st, dev, cls, detail))
    return out


# ================================================================================================ part (d)
# One program = library unit L + main unit M.  Items (what is addressed) x access paths.  All output is values and
# equalities, never raw addresses.
def d_programs():
    progs = {}
    Lh = ("extern int mg; extern int mfn(int);\n")
    # ---- global initialised / tentative / array / long double (defined in L, used in both)
    for name, decl, ext, rd, wr in [
            ("global-init", "int g = 11;", "extern int g;", "g", "g = %s"),
            ("global-tentative", "int g;", "extern int g;", "g", "g = %s"),
            ("global-array", "int g[5] = {1, 2, 3, 4, 5};", "extern int g[5];", "g[3]", "g[3] = %s"),
            ("global-ldouble", "long double g = 2.5L;", "extern long double g;", "(int)(g * 2)", "g = %s"),
            ("tls-init", "_Thread_local int g = 13;", "extern _Thread_local int g;", "g", "g = %s"),
            ("tls-zero", "_Thread_local int g;", "extern _Thread_local int g;", "g", "g = %s")]:
        Lc = (decl + "\nint l_get(void) { return %s; }\nvoid l_set(int x) { %s; }\nvoid *l_addr(void) { return &g; }\n"
              % (rd, wr % "x"))
        Mc = ("#include <stdio.h>\n" + ext + "\nint l_get(void); void l_set(int); void *l_addr(void);\n"
              "int main(void) {\n  printf(\"%%d %%d\\n\", l_get(), %s);\n  l_set(41); printf(\"%%d %%d\\n\", l_get(), %s);\n"
              "  %s; printf(\"%%d %%d\\n\", l_get(), %s);\n  printf(\"same=%%d\\n\", l_addr() == (void *)&g);\n"
              "  int *p = (int *)&g; printf(\"viaptr=%%d\\n\", p != 0);\n  return 0;\n}\n" % (rd, rd, wr % "42", rd))
        progs[name] = (Lc, Mc)
    # ---- address constants in file-scope and static-local initializers (data relocations), non-TLS
    Lc = ("int g = 11; static int s = 12; int arr[4] = {5, 6, 7, 8};\nint fn(int x) { return x + 1; }\n"
          "static int sfn(int x) { return x + 2; }\n"
          "int *pg = &g; int *ps = &s; int *parr = &arr[2]; int (*pfn)(int) = fn; int (*psfn)(int) = sfn;\n"
          "const char *pstr = \"abc\"; char astr[] = \"xyz\";\n"
          "struct T { int *a; int (*f)(int); const char *s; } tab[2] = {{&g, fn, \"one\"}, {&arr[3], sfn, \"two\"}};\n"
          "int l_probe(void) { static int *q = &s; static int (*qf)(int) = sfn; static const char *qs = \"loc\";\n"
          "  static int cnt; cnt++; return *q + qf(1) + qs[1] + cnt * 1000; }\n"
          "void *l_fnaddr(void) { return (void *)fn; }\nconst char *l_str(void) { return \"hello\"; }\n")
    Mc = ("#include <stdio.h>\n#include <string.h>\n"
          "extern int g, arr[4]; extern int *pg, *ps, *parr; extern int (*pfn)(int), (*psfn)(int); extern int fn(int);\n"
          "extern const char *pstr; extern char astr[]; struct T { int *a; int (*f)(int); const char *s; }; extern struct T tab[2];\n"
          "int l_probe(void); void *l_fnaddr(void); const char *l_str(void);\n"
          "int *mpg = &g; int (*mpfn)(int) = fn; int *mparr = &arr[1];\n"
          "int main(void) {\n"
          "  printf(\"%d %d %d %d %d\\n\", *pg, *ps, *parr, pfn(1), psfn(1));\n"
          "  printf(\"%s %s %d %d %s %d %d %s\\n\", pstr, astr, *tab[0].a, tab[0].f(3), tab[0].s, *tab[1].a, tab[1].f(3), tab[1].s);\n"
          "  printf(\"%d %d\\n\", l_probe(), l_probe());\n"
          "  printf(\"eq %d %d %d %d %d\\n\", pg == &g, parr == &arr[2], pfn == fn, l_fnaddr() == (void *)fn, mpfn == pfn);\n"
          "  printf(\"m %d %d %d %s %d\\n\", *mpg, mpfn(5), *mparr, l_str(), (int)strlen(l_str()));\n"
          "  static int *sl = &g; static int (*slf)(int) = fn; printf(\"sl %d %d\\n\", *sl, slf(7));\n"
          "  return 0;\n}\n")
    progs["address-constants"] = (Lc, Mc)
    # ---- statics, static locals, static TLS inside L; string literal identity of contents
    Lc = ("static int s = 12; static _Thread_local int ts = 14; static _Thread_local int tz;\n"
          "static int sarr[3] = {1, 2, 3}; static long double sld = 1.5L;\n"
          "int l_s(int d) { s += d; return s; }\nint l_ts(int d) { ts += d; tz += 2 * d; return ts * 100 + tz; }\n"
          "int l_sl(void) { static int c = 5; static _Thread_local int tc = 7; c++; tc += 2; return c * 100 + tc; }\n"
          "int l_arr(int i) { return sarr[i] + (int)(sld * 2); }\nint *l_tsaddr(void) { return &ts; }\n")
    Mc = ("#include <stdio.h>\nint l_s(int); int l_ts(int); int l_sl(void); int l_arr(int); int *l_tsaddr(void);\n"
          "static int s = 90; static _Thread_local int ts = 91;\n"
          "int main(void) {\n  printf(\"%d %d %d %d\\n\", l_s(1), l_s(2), s, ts);\n  printf(\"%d %d\\n\", l_ts(1), l_ts(3));\n"
          "  printf(\"%d %d\\n\", l_sl(), l_sl());\n  printf(\"%d %d\\n\", l_arr(0), l_arr(2));\n"
          "  printf(\"tsaddr %d %d\\n\", *l_tsaddr(), l_tsaddr() != &ts);\n  return 0;\n}\n")
    progs["statics-and-tls-statics"] = (Lc, Mc)
    # ---- functions: calls and addresses in both directions
    Lc = (Lh + "int fn(int x) { return x * 2; }\nstatic int sfn(int x) { return x * 3; }\n"
          "int (*l_getsfn(void))(int) { return sfn; }\nint (*l_getfn(void))(int) { return fn; }\n"
          "int l_callback(int (*cb)(int), int x) { return cb(x) + 1; }\n"
          "int l_calls_main(int x) { return mfn(x) + mg; }\nint l_mfn_same(int (*p)(int)) { return p == mfn; }\n"
          "int *l_mgaddr(void) { return &mg; }\n")
    Mc = ("#include <stdio.h>\nint fn(int); int (*l_getsfn(void))(int); int (*l_getfn(void))(int);\n"
          "int l_callback(int (*)(int), int); int l_calls_main(int); int l_mfn_same(int (*)(int)); int *l_mgaddr(void);\n"
          "int mg = 21; int mfn(int x) { return x + 100; }\nstatic int mcb(int x) { return x * 7; }\n"
          "int main(void) {\n  printf(\"%d %d %d\\n\", fn(4), l_getsfn()(4), l_getfn()(4));\n"
          "  printf(\"%d %d %d\\n\", l_callback(mcb, 2), l_callback(fn, 2), l_callback(mfn, 2));\n"
          "  printf(\"%d\\n\", l_calls_main(5));\n  mg = 22; printf(\"%d\\n\", l_calls_main(5));\n"
          "  printf(\"eq %d %d %d\\n\", l_getfn() == fn, l_mfn_same(mfn), l_mgaddr() == &mg);\n  return 0;\n}\n")
    progs["functions-both-directions"] = (Lc, Mc)
    # ---- objects defined in M and used from L (extern from another unit, reverse direction), incl. TLS
    Lc = ("extern int mg; extern int marr[4]; extern long double mld;\n"
          "int l_rd(void) { return mg + marr[2] + (int)(mld * 4); }\nvoid l_wr(int x) { mg = x; marr[2] = x + 1; }\n"
          "int *l_p = &mg; int *l_parr = &marr[1];\nint l_viap(void) { return *l_p + *l_parr; }\n")
    Mc = ("#include <stdio.h>\nint mg = 21; int marr[4] = {1, 2, 3, 4}; long double mld = 0.75L;\n"
          "int l_rd(void); int l_viap(void); void l_wr(int); extern int *l_p, *l_parr;\n"
          "int main(void) {\n  printf(\"%d %d\\n\", l_rd(), l_viap());\n  l_wr(50); printf(\"%d %d %d %d\\n\", l_rd(), l_viap(), mg, marr[2]);\n"
          "  printf(\"eq %d %d\\n\", l_p == &mg, l_parr == &marr[1]);\n  return 0;\n}\n")
    progs["main-objects-used-by-lib"] = (Lc, Mc)
    Lc = ("extern _Thread_local int mt;\nint l_rd(void) { return mt; }\nvoid l_wr(int x) { mt = x; }\nint *l_a(void) { return &mt; }\n")
    Mc = ("#include <stdio.h>\n_Thread_local int mt = 31;\nint l_rd(void); void l_wr(int); int *l_a(void);\n"
          "int main(void) {\n  printf(\"%d\\n\", l_rd());\n  l_wr(32); printf(\"%d %d\\n\", l_rd(), mt);\n  mt = 33; printf(\"%d %d\\n\", l_rd(), l_a() == &mt);\n  return 0;\n}\n")
    progs["main-tls-used-by-lib"] = (Lc, Mc)
    # ---- several zero-initialised globals of the library used by the main program (sizes matter for copy relocations)
    Lc = ("int g1; int g2; char gbuf[40]; long g3;\nint l_sum(void) { return g1 * 1000 + g2 * 100 + gbuf[39] * 10 + (int)g3; }\n"
          "void l_set(int a, int b, int c, int d) { g1 = a; g2 = b; gbuf[39] = c; g3 = d; }\n")
    Mc = ("#include <stdio.h>\nextern int g1, g2; extern char gbuf[40]; extern long g3;\nint l_sum(void); void l_set(int, int, int, int);\n"
          "int main(void) {\n  printf(\"%d\\n\", l_sum());\n  g1 = 1; g2 = 2; gbuf[39] = 3; g3 = 4; printf(\"%d %d %d %d %d\\n\", l_sum(), g1, g2, gbuf[39], (int)g3);\n"
          "  l_set(5, 6, 7, 8); printf(\"%d %d %d %d %d\\n\", l_sum(), g1, g2, gbuf[39], (int)g3);\n"
          "  printf(\"distinct %d %d\\n\", (void *)&g1 != (void *)&g2, (void *)&g2 != (void *)&g3);\n  return 0;\n}\n")
    progs["several-zero-globals"] = (Lc, Mc)
    # ---- common symbols in both units (tentative in L and M), -fcommon only
    Lc = ("int cv; int carr[10];\nint l_get(void) { return cv + carr[9]; }\nvoid l_set(int x) { cv = x; carr[9] = x; }\n")
    Mc = ("#include <stdio.h>\nint cv; int carr[10];\nint l_get(void); void l_set(int);\n"
          "int main(void) {\n  printf(\"%d\\n\", l_get());\n  cv = 3; carr[9] = 4; printf(\"%d\\n\", l_get());\n"
          "  l_set(8); printf(\"%d %d\\n\", cv, carr[9]);\n  return 0;\n}\n")
    progs["common-in-both-units"] = (Lc, Mc)
    # ---- thread storage duration: every thread-local declaration form, one object in the library and one in the main
    # program, each bumped from the initial thread and from a second thread (a fresh copy per thread, 6.2.4p4)
    for name, (filedecl, blockdecl) in D_TLS_FORMS.items():
        Lc = ("%sint l_bump(void) { %sg += 2; return g; }\n" % (filedecl % "g", blockdecl % "g"))
        Mc = ("#include <stdio.h>\ntypedef unsigned long pthread_t;\n"
              "int pthread_create(pthread_t *, const void *, void *(*)(void *), void *); int pthread_join(pthread_t, void **);\n"
              "int l_bump(void);\n%sstatic int m_bump(void) { %smg += 3; return mg; }\n"
              "static void *th(void *a) { int *r = a; r[0] = l_bump(); r[1] = l_bump(); r[2] = m_bump(); r[3] = m_bump(); return 0; }\n"
              "int main(void) {\n  int r[4]; pthread_t t;\n  int a = l_bump(); int b = l_bump(); int c = m_bump();\n"
              "  printf(\"main %%d %%d %%d\\n\", a, b, c);\n  if (pthread_create(&t, 0, th, r)) return 2;\n  if (pthread_join(t, 0)) return 3;\n"
              "  printf(\"thread %%d %%d %%d %%d\\n\", r[0], r[1], r[2], r[3]);\n  a = l_bump(); c = m_bump();\n"
              "  printf(\"main %%d %%d\\n\", a, c);\n  return 0;\n}\n" % (filedecl % "mg", blockdecl % "mg"))
        progs["tls-per-thread-" + name] = (Lc, Mc)
    return progs


D_TLS_FORMS = {       # name -> (file-scope declaration, block-scope declaration) with %s = the object's name
    "file-extern-linkage-init": ("_Thread_local int %s = 13;\n", "%.0s"),
    "file-extern-linkage-zero": ("_Thread_local int %s;\n", "%.0s"),
    "file-static-init": ("static _Thread_local int %s = 13;\n", "%.0s"),
    "file-static-zero": ("static _Thread_local int %s;\n", "%.0s"),
    "block-static-init": ("%.0s", "static _Thread_local int %s = 13; "),
    "block-static-zero": ("%.0s", "static _Thread_local int %s; "),
}


D_CONFIGS = ["nonpic", "pic-exe", "static", "static-pic", "shared+nonpic-main", "shared+pic-main", "nonpic-fno-common",
             "shared-fno-common+nonpic-main", "gcc-link-nonpic", "gcc-link-pie"]


def d_build(cc, wd, cfg, tag, gccmode=False):
    """Build L.c/M.c in wd in configuration cfg with compiler driver cc; returns (status, output)"""
    def cc_c(src, out, pic, extra=()):
        argv = [cc] + (["-std=c11", "-O0", "-w"] if gccmode else []) + (["-fPIC"] if pic else (["-fno-pic"] if gccmode else []))
        return px(argv + list(extra) + ["-c", "-o", out, src], cwd=wd)
    fc = ["-fno-common"] if "fno-common" in cfg else ["-fcommon"]
    lo, mo, exe = "L_%s.o" % tag, "M_%s.o" % tag, "p_%s" % tag
    env = dict(os.environ)
    env["LD_LIBRARY_PATH"] = wd
    if cfg.startswith("shared"):
        so = "libL_%s.so" % tag
        st, o, e = px([cc] + (["-std=c11", "-O0", "-w"] if gccmode else []) + ["-fPIC", "-shared"] + fc + ["-o", so, "L.c"], cwd=wd)
        if st != 0:
            return ("timeout" if st == "timeout" else "lib-build-fail"), e[-800:]
        st, o, e = cc_c("M.c", mo, "pic-main" in cfg, fc)
        if st != 0:
            return ("timeout" if st == "timeout" else "compile-fail"), e[-800:]
        link = [cc] + (["-no-pie"] if gccmode and "nonpic" in cfg else []) + ["-o", exe, mo, so] + ([NOX] if gccmode else [])
    else:
        pic = cfg in ("pic-exe", "static-pic", "gcc-link-pie")
        for s, o_ in (("L.c", lo), ("M.c", mo)):
            st, o, e = cc_c(s, o_, pic, fc)
            if st != 0:
                return ("timeout" if st == "timeout" else "compile-fail"), e[-800:]
        if cfg.startswith("gcc-link"):
            link = ["gcc", "-pie" if cfg == "gcc-link-pie" else "-no-pie", "-o", exe, lo, mo, NOX]
        elif gccmode:
            link = ["gcc"] + (["-static"] if cfg.startswith("static") else ["-pie"] if pic else ["-no-pie"]) + ["-o", exe, lo, mo]
        else:
            link = [cc] + (["-static"] if cfg.startswith("static") else []) + ["-o", exe, lo, mo]
    st, o, e = px(link, cwd=wd)
    if st != 0:
        return ("timeout" if st == "timeout" else "link-fail"), e[-800:]
    st, o, e = px([os.path.join(wd, exe)], cwd=wd, env=env)
    if st == "timeout":
        return "timeout", ""
    if st != 0:
        return "run-status=%s" % st, o
    return "ok", o


def _d_one(args):
    chibicc, wd, name, Lc, Mc, cfg = args
    os.makedirs(wd, exist_ok=True)
    write(os.path.join(wd, "L.c"), Lc)
    write(os.path.join(wd, "M.c"), Mc)
    # references: gcc in the same configuration and gcc non-PIC must agree
    gcfg = cfg if not cfg.startswith("gcc-link") else ("pic-exe" if cfg == "gcc-link-pie" else "nonpic")
    g1 = d_build("gcc", wd, "nonpic", "g1", gccmode=True)
    g2 = d_build("gcc", wd, gcfg, "g2", gccmode=True)
    if "timeout" in (g1[0], g2[0]):
        return name, cfg, "harness-timeout", None, ""
    if g1[0] != "ok" or g2 != g1:
        return name, cfg, "skip-oracle-disagreement", None, "gcc nonpic %r vs gcc %s %r" % (g1, gcfg, g2)
    c = d_build(chibicc, wd, cfg, "c")
    if c[0] == "timeout":
        return name, cfg, "harness-timeout", None, ""
    if c[0] != "ok":
        return name, cfg, "ok", c[0], c[1]
    if c[1] != g1[1]:
        return name, cfg, "ok", "program-output-differs", "got:\n%s\nexpected:\n%s" % (c[1], g1[1])
    return name, cfg, "ok", None, g1[1]


# ================================================================================================ part (e)
# String-literal objects.  A unit is one translation unit that uses a tuple of literals (kind prefix, text) in every
# context of E_CONTEXTS; every byte of every literal is read back (through each pointer / array, up to sizeof, i.e.
# past embedded NULs) by a driver and compared with the model (models/c15_linkage.py str_bytes) - confirmed by a gcc
# twin of the same unit.  Whether two literals share storage is never judged (C11 6.4.5p7).
E_CONTEXTS = ["gp file-scope pointer initialiser", "gm file-scope pointer to the last element (&X[n-1])",
              "tp _Thread_local pointer initialiser", "ga file-scope array T[]", "gb file-scope array T[n+2] (zero fill)",
              "gc file-scope array T[n-1] (terminator dropped)", "sp static-local pointer", "ap automatic pointer",
              "sa static-local array T[]", "aa automatic array T[]", "ab automatic array T[n+2]", "ix subscripted literal X[i]",
              "sz sizeof X", "gt file-scope table of pointers to all literals of the tuple", "st static-local table",
              "gs file-scope struct { T0 a[n0]; const T1 *p; }", "eq address comparison X0 == X1 (judged only as 'must differ' when contents differ)"]
E_CTXGROUP = {"gp": "pointer", "gm": "pointer", "tp": "pointer", "sp": "pointer", "ap": "pointer", "gt": "pointer", "st": "pointer",
              "gsp": "pointer", "ga": "array", "gb": "array", "gc": "array", "sa": "array", "aa": "array", "ab": "array",
              "gsa": "array", "ix": "subscript", "sz": "sizeof", "eq": "address-comparison"}


def e_unit(P, lits):
    """-> (decls, defs, calls, expected): decls = declarations shared by the unit and the reader, defs = the unit's
    definitions, calls = C statements of the reader, expected = the lines the reader must print"""
    decls, defs, calls, exp = [], [], [], []

    def dump(tag, expr, data):
        calls.append('dump("%s %s", %s, %d);' % (P, tag, expr, len(data)))
        exp.append("%s %s %s" % (P, tag, data.hex()))

    for k, (kind, text) in enumerate(lits):
        T, esz = L.STR_KINDS[kind]
        X = L.str_spelling(kind, text)
        n = L.str_nelem(text)
        own = L.str_bytes(kind, text)
        v = "%s_%%s%d" % (P, k)
        decls += ["extern const %s *%s, *%s;" % (T, v % "gp", v % "gm"), "extern _Thread_local const %s *%s;" % (T, v % "tp"),
                  "extern %s %s[%d], %s[%d];" % (T, v % "ga", n, v % "gb", n + 2),
                  "const void *%s(void), *%s(void), *%s(void);" % (v % "sp", v % "ap", v % "sa"),
                  "void %s(unsigned char *), %s(unsigned char *);" % (v % "aa", v % "ab"),
                  "long %s(int); unsigned long %s(void);" % (v % "ix", v % "sz")]
        copy = "for (unsigned i = 0; i < sizeof a; i++) o[i] = ((unsigned char *)a)[i];"
        defs += ["const %s *%s = %s;" % (T, v % "gp", X), "const %s *%s = &%s[%d];" % (T, v % "gm", X, n - 1),
                 "_Thread_local const %s *%s = %s;" % (T, v % "tp", X),
                 "%s %s[] = %s;" % (T, v % "ga", X), "%s %s[%d] = %s;" % (T, v % "gb", n + 2, X),
                 "const void *%s(void) { static const %s *p = %s; return p; }" % (v % "sp", T, X),
                 "const void *%s(void) { const %s *p = %s; return p; }" % (v % "ap", T, X),
                 "const void *%s(void) { static %s a[] = %s; return a; }" % (v % "sa", T, X),
                 "void %s(unsigned char *o) { %s a[] = %s; %s }" % (v % "aa", T, X, copy),
                 "void %s(unsigned char *o) { %s a[%d] = %s; %s }" % (v % "ab", T, n + 2, X, copy),
                 "long %s(int i) { return %s[i]; }" % (v % "ix", X),
                 "unsigned long %s(void) { return sizeof %s; }" % (v % "sz", X)]
        dump("gp%d" % k, v % "gp", own)
        dump("gm%d" % k, "%s - %d" % (v % "gm", n - 1), own)
        dump("tp%d" % k, v % "tp", own)
        dump("ga%d" % k, v % "ga", own)
        dump("gb%d" % k, v % "gb", L.str_bytes(kind, text, n + 2))
        if n > 1:
            decls.append("extern %s %s[%d];" % (T, v % "gc", n - 1))
            defs.append("%s %s[%d] = %s;" % (T, v % "gc", n - 1, X))
            dump("gc%d" % k, v % "gc", L.str_bytes(kind, text, n - 1))
        dump("sp%d" % k, "%s()" % (v % "sp"), own)
        dump("ap%d" % k, "%s()" % (v % "ap"), own)
        dump("sa%d" % k, "%s()" % (v % "sa"), own)
        calls.append("%s(buf); " % (v % "aa") + 'dump("%s aa%d", buf, %d);' % (P, k, len(own)))
        exp.append("%s aa%d %s" % (P, k, own.hex()))
        calls.append("%s(buf); " % (v % "ab") + 'dump("%s ab%d", buf, %d);' % (P, k, len(own) + 2 * esz))
        exp.append("%s ab%d %s" % (P, k, L.str_bytes(kind, text, n + 2).hex()))
        calls.append('printf("%s ix%d"); for (int i = 0; i < %d; i++) printf(" %%ld", %s(i)); printf("\\n");' % (P, k, n, v % "ix"))
        exp.append("%s ix%d %s" % (P, k, " ".join(str(ord(c)) for c in text + "\0")))
        calls.append('printf("%s sz%d %%lu\\n", %s());' % (P, k, v % "sz"))
        exp.append("%s sz%d %d" % (P, k, len(own)))
    m = len(lits)
    tab = ", ".join(L.str_spelling(kd, tx) for kd, tx in lits)
    decls += ["extern const void *%s_gt[%d];" % (P, m), "const void *%s_st(int);" % P]
    defs += ["const void *%s_gt[] = { %s };" % (P, tab),
             "const void *%s_st(int i) { static const void *const t[] = { %s }; return t[i]; }" % (P, tab)]
    for k, (kind, text) in enumerate(lits):
        dump("gt%d" % k, "%s_gt[%d]" % (P, k), L.str_bytes(kind, text))
        dump("st%d" % k, "%s_st(%d)" % (P, k), L.str_bytes(kind, text))
    if m >= 2:
        (k0, t0), (k1, t1) = lits[0], lits[1]
        n0 = L.str_nelem(t0)
        decls += ["struct %s_S { %s a[%d]; const %s *p; }; extern struct %s_S %s_gs;" % (P, L.STR_KINDS[k0][0], n0, L.STR_KINDS[k1][0], P, P),
                  "int %s_eq(void);" % P]
        defs += ["struct %s_S %s_gs = { %s, %s };" % (P, P, L.str_spelling(k0, t0), L.str_spelling(k1, t1)),
                 "int %s_eq(void) { return (const void *)%s == (const void *)%s; }" % (P, L.str_spelling(k0, t0), L.str_spelling(k1, t1))]
        dump("gsa", "%s_gs.a" % P, L.str_bytes(k0, t0))
        dump("gsp", "%s_gs.p" % P, L.str_bytes(k1, t1))
        if L.str_may_alias(L.str_bytes(k0, t0), L.str_bytes(k1, t1)):
            calls.append('%s_eq(); printf("%s eq -\\n");' % (P, P))          # unspecified: evaluated, not judged
            exp.append("%s eq -" % P)
        else:
            calls.append('printf("%s eq %%d\\n", %s_eq());' % (P, P))
            exp.append("%s eq 0" % P)
    return decls, defs, calls, exp


E_READER = ("#include <stdio.h>\nstatic unsigned char buf[256];\n"
            "static void dump(const char *tag, const void *p, unsigned n) {\n  const unsigned char *b = p;\n"
            "  printf(\"%s \", tag);\n  for (unsigned i = 0; i < n; i++) printf(\"%02x\", b[i]);\n  printf(\"\\n\");\n}\n")


def e_unit_source(P, lits):
    decls, defs, calls, exp = e_unit(P, lits)
    return "\n".join(decls + defs) + "\n"


def e_reader_source(units, hosted=()):
    """reader (with main) for the units [(P, lits)]; units in `hosted` are defined in the reader's own translation unit"""
    s = E_READER
    body = []
    for P, lits in units:
        decls, defs, calls, exp = e_unit(P, lits)
        s += "\n".join(decls + (defs if P in hosted else [])) + "\n"
        body.append("static void show_%s(void) {\n  %s\n}\n" % (P, "\n  ".join(calls)))
    return s + "".join(body) + "int main(void) {\n" + "".join("  show_%s();\n" % P for P, _ in units) + "  return 0;\n}\n"


def e_expected(units):
    return dict((P, e_unit(P, lits)[3]) for P, lits in units)


def e_split(out):
    got = {}
    for line in out.splitlines():
        got.setdefault(line.split(" ", 1)[0], []).append(line)
    return got


def e_deviations(P, lits, got_lines, exp_lines):
    """deviation classes of one unit: which context group shows wrong content"""
    if got_lines == exp_lines:
        return []
    got = dict(l.split(" ", 2)[1:] if l.count(" ") >= 2 else (l, "") for l in got_lines)
    devs = set()
    for l in exp_lines:
        _, tag, val = l.split(" ", 2)
        if got.get(tag) != val:
            grp = E_CTXGROUP[tag.rstrip("0123456789")]
            devs.add("%s-%s" % (grp, "missing" if tag not in got else
                                "size-differs" if grp == "sizeof" else
                                "compares-equal-with-different-contents" if grp == "address-comparison" else "content-differs"))
    return sorted(devs) or ["output-differs"]


def e_eval(chibicc, wd, units, pic=False):
    """units alone in their translation units, linked into one program with a gcc-compiled reader.
    -> {P: (status, [deviations], detail)}"""
    res = {}
    exp = e_expected(units)
    for P, lits in units:
        write(os.path.join(wd, P + ".c"), e_unit_source(P, lits))
    write(os.path.join(wd, "rd.c"), e_reader_source(units))
    write(os.path.join(wd, "twin.c"), "".join('#include "%s.c"\n' % P for P, _ in units))
    gflags = ["gcc", "-std=c11", "-pedantic-errors", "-O0", "-w"]
    for src in ("rd", "twin"):
        st, out, err = px(gflags + ["-c", "-o", os.path.join(wd, src + ".o"), os.path.join(wd, src + ".c")])
        if st == "timeout":
            return dict((P, ("harness-timeout", [], "")) for P, _ in units)
        if st != 0:
            if len(units) == 1 and src == "twin":
                return {units[0][0]: ("skip-ref-rejected", [], err[-300:])}
            if src == "rd":
                raise core.HarnessError("string-literal reader does not compile: " + err[-500:])
            return e_halves(chibicc, wd, units, pic)
    gs, gout = link_run([os.path.join(wd, "rd.o"), os.path.join(wd, "twin.o")], os.path.join(wd, "p_gcc"))
    if gs == "timeout":
        return dict((P, ("harness-timeout", [], "")) for P, _ in units)
    if gs != "ok":
        if len(units) > 1:
            return e_halves(chibicc, wd, units, pic)
        return {units[0][0]: ("skip-oracle-disagreement", [], "gcc twin: %s %s" % (gs, gout[-200:]))}
    ggot = e_split(gout)
    judged = []
    for P, lits in units:
        if ggot.get(P) != exp[P]:
            res[P] = ("skip-oracle-disagreement", [], "gcc twin prints %r, model %r" % (ggot.get(P), exp[P]))
        else:
            judged.append((P, lits))
    objs = []
    rejected = set()
    for P, lits in units:
        o = os.path.join(wd, P + ".o")
        st, out, err = px([chibicc] + (["-fPIC"] if pic else []) + ["-c", "-o", o, os.path.join(wd, P + ".c")])
        if st == "timeout":
            return dict((P, ("harness-timeout", [], "")) for P, _ in units)
        if st != 0:
            rejected.add(P)
            if P not in res:
                res[P] = ("ok", ["valid-unit-rejected"], err[-600:])
    if rejected:
        if len(units) > 1:
            r2 = e_eval(chibicc, wd, [u for u in units if u[0] not in rejected], pic)
            r2.update(dict((P, res[P]) for P in rejected))
            return r2
        return res
    cs, cout = link_run([os.path.join(wd, "rd.o")] + [os.path.join(wd, P + ".o") for P, _ in units], os.path.join(wd, "p_cc"), pie=pic)
    if cs == "timeout":
        return dict((P, ("harness-timeout", [], "")) for P, _ in units)
    if cs != "ok":
        if len(units) > 1:
            return e_halves(chibicc, wd, units, pic)
        P = units[0][0]
        if P not in res:
            res[P] = ("ok", ["link-fails" if cs == "link-fail" else "program-" + cs], cout[-600:])
        return res
    cgot = e_split(cout)
    for P, lits in judged:
        devs = e_deviations(P, lits, cgot.get(P, []), exp[P])
        res[P] = ("ok", devs, "got:\n%s\nexpected:\n%s" % ("\n".join(cgot.get(P, [])), "\n".join(exp[P])) if devs else "")
    return res


def e_halves(chibicc, wd, units, pic):
    h = len(units) // 2
    r = e_eval(chibicc, wd, units[:h], pic)
    r.update(e_eval(chibicc, wd, units[h:], pic))
    return r


def _e_batch(args):
    chibicc, wd, groups = args
    os.makedirs(wd, exist_ok=True)
    out = []
    for tuples, pic in groups:
        units = [("s%d" % i, lits) for i, lits in enumerate(tuples)]
        r = e_eval(chibicc, wd, units, pic)
        for P, lits in units:
            st, devs, detail = r[P]
            out.append((lits, pic, st, devs, detail))
        for f in os.listdir(wd):
            try:
                os.unlink(os.path.join(wd, f))
            except OSError:
                pass
    return out


def e_show(lits):
    """literals for one-line descriptions: no backslashes (the lines pass through `echo` of /bin/sh in the tools)"""
    return ", ".join(L.str_spelling(k, t).replace("\\0", "{NUL}") for k, t in lits)


def e_alphabet(kinds, maxlen):
    return [(k, t) for k in kinds for t in L.str_texts(maxlen)]


def e_tuples(quick):
    """the enumerated tuples: (singles, ordered pairs, ordered triples)"""
    K = L.STR_KIND_ORDER
    if quick:
        alphas = [e_alphabet([""], 3)]                           # plain char literals: all 40 texts
        alphas += [e_alphabet([k], 2) for k in K]                # each kind: the 13 texts of length <= 2
        alphas += [e_alphabet(K, 1)]                             # all kinds mixed: the 4 texts of length <= 1
        alphas += [[(k, t) for k in K] for t in L.str_texts(2)]  # the same text in every kind
    else:
        alphas = [e_alphabet(K, 3)]                              # all 200 literals
    seen = set()
    pairs = []
    for alpha in alphas:
        for x in alpha:
            for y in alpha:
                if (x, y) not in seen:
                    seen.add((x, y))
                    pairs.append([x, y])
    if quick:
        T = [("", t) for t in L.str_texts(2, ("a", "\0"))]      # 7 texts
    else:
        T = e_alphabet(["", "L"], 2)                            # 26 literals
    triples = [[x, y, z] for x in T for y in T for z in T]
    singles = [[x] for x in e_alphabet(K, 3)]
    return singles, pairs, triples


E2_CORE9 = ["", "\0", "a", "ab", "a\0", "\0a", "\0b", "a\0a", "a\0b"]   # empty, length-only, prefix, NUL first/last/middle
E2_CORE5 = ["", "a", "a\0", "\0a", "\0b"]


def e2_programs(quick):
    """{name: [(P, lits, host)]}: packed programs for the configurations of part (d); host 'L' = library unit,
    'M' = main unit (which also holds the reader)"""
    K = L.STR_KIND_ORDER
    tuples = []
    for k in K:
        core = E2_CORE9 if (k == "" or not quick) else E2_CORE5
        tuples += [[(k, x), (k, y)] for x in core for y in core]
    for t in (E2_CORE5 if quick else E2_CORE9):
        tuples += [[(k1, t), (k2, t)] for k1 in K for k2 in K if k1 != k2]
    per = 100
    progs = {}
    for i in range(0, len(tuples), per):
        progs["strlit-%d" % (i // per)] = [("s%d" % j, lits, "LM"[j % 2]) for j, lits in enumerate(tuples[i:i + per])]
    return progs


def e2_sources(units):
    Lc = "int e2_lib_anchor;\n" + "".join(e_unit_source(P, lits) for P, lits, h in units if h == "L")
    Mc = e_reader_source([(P, lits) for P, lits, h in units], hosted=set(P for P, lits, h in units if h == "M"))
    return Lc, Mc


def _e2_ref(args):
    """second oracle: the gcc non-PIC build of the program prints what the model expects"""
    wd, name, units = args
    os.makedirs(wd, exist_ok=True)
    Lc, Mc = e2_sources(units)
    write(os.path.join(wd, "L.c"), Lc)
    write(os.path.join(wd, "M.c"), Mc)
    exp = e_expected([(P, lits) for P, lits, h in units])
    want = "".join("\n".join(exp[P]) + "\n" for P, lits, h in units)
    g = d_build("gcc", wd, "nonpic", "g1", gccmode=True)
    shutil.rmtree(wd, ignore_errors=True)
    if g[0] == "timeout":
        return name, "harness-timeout", ""
    if g[0] != "ok" or g[1] != want:
        return name, "skip-oracle-disagreement", "gcc nonpic %s: %r vs model %r" % (g[0], g[1][-200:], want[-200:])
    return name, "ok", want


def e2_eval(chibicc, wd, units, cfg):
    """-> (status, {P: [deviations]} or {'*': [whole-program deviation]}, detail)"""
    os.makedirs(wd, exist_ok=True)
    Lc, Mc = e2_sources(units)
    write(os.path.join(wd, "L.c"), Lc)
    write(os.path.join(wd, "M.c"), Mc)
    c = d_build(chibicc, wd, cfg, "c")
    if c[0] == "timeout":
        return "harness-timeout", {}, ""
    if c[0] != "ok":
        return "ok", {"*": [c[0]]}, c[1]
    exp = e_expected([(P, lits) for P, lits, h in units])
    got = e_split(c[1])
    devs = {}
    detail = ""
    for P, lits, h in units:
        d = e_deviations(P, lits, got.get(P, []), exp[P])
        if d:
            devs[P] = d
            detail = detail or "unit %s: got:\n%s\nexpected:\n%s" % (P, "\n".join(got.get(P, [])), "\n".join(exp[P]))
    return "ok", devs, detail


def _e2_one(args):
    chibicc, wd, name, units, cfg = args
    st, devs, detail = e2_eval(chibicc, wd, units, cfg)
    out = []
    for n, (P, dl) in enumerate(sorted(devs.items())):
        # narrow the reproducer (first two deviating units only): does the unit deviate when it is alone in the program?
        alone = [u for u in units if u[0] == P]
        keep = units
        if alone and n < 2:
            s2, d2, _ = e2_eval(chibicc, wd + "_n", alone, cfg)
            if s2 == "ok" and (set(d2.get(P, [])) & set(dl) or d2.get("*")):
                keep = alone
                if d2.get("*"):
                    dl = d2["*"]
            shutil.rmtree(wd + "_n", ignore_errors=True)
        out.append((P, dl, [list(u) for u in keep]))
    shutil.rmtree(wd, ignore_errors=True)
    return name, cfg, st, out, detail


# ================================================================================================ replay entry
REPLAY = "python3 $VERIF/checks/c15.py replay case.json"


def replay_main(path):
    case = json.load(open(path))
    chibicc = os.environ["CHIBICC"]
    wd = tempfile.mkdtemp(prefix="c15r_")
    try:
        part, want = case["part"], case["deviation"]
        if part == "a":
            r = eval_a(chibicc, wd, wd, case)
            got = r["devs"]
        elif part == "b" and case.get("group"):
            r = b_group_eval(chibicc, wd, case["group"])
            got = r[case["k"]][1] if r else ["valid-unit-rejected"]
        elif part == "b":
            st, got, files = eval_b_single(chibicc, wd, case)
        elif part == "s":
            r = s_eval(chibicc, wd, [case["case"]], case["type"], case["fcommon"], case["pic"])
            print(r[0][2].get("got.txt", ""), r[0][2].get("expected.txt", ""))
            got = [d for c, d in r[0][1] if c == case["cls"]]
        elif part == "c":
            n = len(case["objs"])
            for i in range(n):
                for o, f in ((case["objs"][i], case["fns"][i]), (case["objs"][i], "-"), ("-", case["fns"][i]), ("-", "-")):
                    _c_compile((chibicc, wd, i, o, f, case["fcommon"]))
            write(os.path.join(wd, "drv.c"), c_driver(n))
            px(["gcc", "-O0", "-w", "-c", "-o", os.path.join(wd, "drv%d.o" % n), os.path.join(wd, "drv.c")])
            st, dev, detail = c_eval(wd, wd, case["objs"], case["fns"], case["fcommon"])
            got = [dev] if dev else []
        elif part == "e" and case["mode"] == "alone":
            r = e_eval(chibicc, wd, [("s0", [tuple(x) for x in case["lits"]])], case.get("pic", False))
            print(r["s0"][2])
            got = r["s0"][1]
        elif part == "e":
            units = [(P, [tuple(x) for x in lits], h) for P, lits, h in case["units"]]
            st, devs, detail = e2_eval(chibicc, wd, units, case["config"])
            print(detail)
            got = devs.get(case["unit"], []) + devs.get("*", [])
        else:
            Lc, Mc = d_programs()[case["program"]]
            r = _d_one((chibicc, wd, case["program"], Lc, Mc, case["config"]))
            got = [r[3]] if r[3] else []
        print("deviations:", got)
        return 1 if want in got else 0
    finally:
        shutil.rmtree(wd, ignore_errors=True)


# ================================================================================================ run
def shard(ctx, items, per):
    b = core.chunks(items, per)
    if ctx.seed:
        import random
        random.Random(ctx.seed).shuffle(b)
    return b


def run(ctx):
    quick = ctx.tier == "quick"
    cache = ctx.mkdir("companions")
    counts = {"evaluations": 0, "distinct_nontrivial": 0, "skipped_invalid": 0, "ref_rejected": 0, "oracle_disagreements": 0,
              "skipped_undefined": 0, "harness_timeouts": 0}
    notes = []
    done = []

    def tally(st):
        if st == "ok":
            counts["evaluations"] += 1
            return True
        key = {"skip-invalid": "skipped_invalid", "skip-ref-rejected": "ref_rejected",
               "skip-oracle-disagreement": "oracle_disagreements", "skip-undefined": "skipped_undefined",
               "harness-timeout": "harness_timeouts"}[st]
        counts[key] += 1
        return False

    # ------------------------------------------------------------------ (a)
    maxlen = 2 if quick else 3
    types = ["int", "ld"] if quick else ["int", "ld", "c20", "s3", "a32"]
    cases = []
    for n in range(1, maxlen + 1):
        for seq in itertools.product(L.OBJ_ORDER, repeat=n):
            if not L.obj_model(seq)["valid"]:
                counts["skipped_invalid"] += 1
                continue
            for use in (["none", "end"] + (["mid"] if n > 1 else [])):
                for fc in (True, False):
                    for tk in (["int", "ld", "c20", "s3", "a32"] if n == 1 else types if n == 2 else ["int"]):
                        cases.append({"part": "a", "kind": "obj", "seq": list(seq), "use": use, "fcommon": fc, "type": tk})
                        if fc and tk == "int" and n <= 2 and use != "mid":
                            cases.append(dict(cases[-1], pic=True))
        # object types completed after the declaration: int v[] (every mask of incomplete/complete declarations with
        # at least one incomplete one) and struct S completed after the last declaration
        if n <= 2 or not quick:
            for seq in itertools.product(FILE_FORMS, repeat=n):
                if not L.obj_model(seq)["valid"]:
                    continue
                for inc in itertools.product("ic", repeat=n):
                    if "i" not in inc or not L.obj_incomplete_array(seq, inc)[0]:
                        continue
                    for use in (["end"] if quick and n > 1 else ["none", "end"] + (["mid"] if n > 1 else [])):
                        for fc in (True, False):
                            cases.append({"part": "a", "kind": "obj", "seq": list(seq), "use": use, "fcommon": fc, "type": "a3",
                                          "inc": "".join(inc)})
            for seq in itertools.product(SINC_FORMS, repeat=n):
                if L.obj_model(seq)["valid"]:
                    for use in ("none", "end"):
                        for fc in (True, False):
                            cases.append({"part": "a", "kind": "obj", "seq": list(seq), "use": use, "fcommon": fc, "type": "sinc"})
        fuses = ["none", "call", "init", "slinit"] + (["mid-call", "mid-init"] if n > 1 else [])
        for seq in itertools.product(L.FN_ORDER, repeat=n):
            if not L.fn_model(seq)["valid"]:
                counts["skipped_invalid"] += 1
                continue
            for use in fuses:
                for fc in ((True, False) if n < 3 else (True,)):
                    cases.append({"part": "a", "kind": "fn", "seq": list(seq), "use": use, "fcommon": fc})
                    if not fc and n <= 2 and not use.startswith("mid-"):
                        cases[-1]["pic"] = True          # functions do not depend on -fcommon: use the slot for -fPIC
    batches = shard(ctx, cases, 12)
    res = core.pmap(_a_batch, [(ctx.chibicc, os.path.join(ctx.work, "a%d" % i), cache, b) for i, b in enumerate(batches)])
    a_judged = 0
    a_classes = set()
    for batch in res:
        for case, r in batch:
            if not tally(r["status"]):
                if r["status"] in ("skip-oracle-disagreement", "skip-ref-rejected") and len(notes) < 10:
                    notes.append("a %s %s: %s" % (case["seq"], case["use"], r.get("note", "")[:200]))
                continue
            a_judged += 1
            a_classes.add(r["cls"])
            if r["nontrivial"]:
                counts["distinct_nontrivial"] += 1
            if a_judged % 997 == 1:
                ctx.sample({"part": "a", "case": case, "unit": r["files"].get("unit.c", "")[:600]})
            for dev in sorted(set(r["devs"])):
                c2 = dict(case)
                c2["deviation"] = dev
                files = dict(r["files"])
                files["case.json"] = json.dumps(c2)
                ctx.violation("C15|a-%s|%s|%s" % (case["kind"], r["cls"], dev),
                              "declaration sequence %s (use=%s, %s%s, type=%s): %s" % (
                                  " ; ".join(case["seq"]), case["use"], "-fcommon" if case["fcommon"] else "-fno-common",
                                  " -fPIC" if case.get("pic") else "",
                                  case.get("type", "-") + ("/" + case["inc"] if case.get("inc") else ""), dev),
                              files=files, replay=REPLAY)
    if a_judged < 100 or len(a_classes) < 10:
        raise core.HarnessError("part (a) degenerate: %d judged cases, %d classes" % (a_judged, len(a_classes)))
    ctx.cover(a_cases=len(cases), a_judged=a_judged, a_classes=len(a_classes), a_max_sequence=maxlen, a_types=types)
    done.append("(a) sequences <= %d" % maxlen)
    phase = {"a": round(time.time() - ctx.t0, 1)}

    # ------------------------------------------------------------------ (s) one identifier declared at several scopes
    if ctx.out_of_time(reserve=120):
        ctx.incomplete("deadline: finished %s; declarations across scopes not run" % done)
    else:
        maxdecl = 3 if quick else len(L.SCOPE_SLOTS)
        scases, sskipped = s_cases(maxdecl)
        counts["skipped_undefined"] += sskipped
        configs = [("int", True, False), ("int", False, False), ("tls", True, False), ("arr", True, False)]
        if not quick:
            configs += [("tls", False, False), ("arr", False, False), ("int", True, True), ("tls", True, True), ("arr", True, True)]
        jobs = []
        for tk, fc, pic in configs:
            sel = [c for c in scases if not (tk == "arr" and c.get("A") == "bP")]     # the parameter is a plain int
            jobs += [(g, tk, fc, pic) for g in core.chunks(sel, S_PACK)]
        res = core.pmap(_s_batch, [(ctx.chibicc, os.path.join(ctx.work, "s%d" % i), b) for i, b in enumerate(shard(ctx, jobs, 2))])
        s_judged = 0
        s_classes = set()
        s_devs = {}
        for batch in res:
            for case, tk, fc, pic, st, devs, files in batch:
                if not tally(st):
                    if st in ("skip-oracle-disagreement", "skip-ref-rejected") and len(notes) < 10:
                        notes.append("s %s %s: %s" % (case, tk, files.get("note", "")[:200]))
                    continue
                s_judged += 1
                m = L.scope_model(case)
                s_classes.add((tuple(sorted(set(m["entity"].values()))), tuple(sorted(set(str(x) for x in m["prior"].values())))))
                if len(case) > 1:
                    counts["distinct_nontrivial"] += 1
                if s_judged % 1999 == 1:
                    ctx.sample({"part": "s", "case": case, "type": tk, "unit": s_unit(case, 0, tk)})
                for cls, dev in devs:
                    s_devs.setdefault((cls, dev), []).append((tk, fc, pic, case, files))
        for (cls, dev), hits in sorted(s_devs.items()):
            # a deviation that shows with plain int objects does not depend on the type; otherwise name the types
            tks = sorted(set(h[0] for h in hits))
            tag = "" if "int" in tks else "," + "+".join(tks)
            hits.sort(key=lambda h: (h[0] != "int", len(h[3]), h[2], not h[1]))
            tk, fc, pic, case, files = hits[0]
            c2 = {"part": "s", "case": case, "type": tk, "fcommon": fc, "pic": pic, "cls": cls, "deviation": dev}
            f2 = dict(files)
            f2["case.json"] = json.dumps(c2)
            ctx.violation("C15|s-scope|%s%s|%s" % (cls, tag, dev),
                          "declarations of one identifier across scopes %s (type %s, %s%s): %s; %d cases of this class" % (
                              " ".join("%s=%s" % (sl, case[sl]) for sl in L.SCOPE_SLOTS if sl in case), tk,
                              "-fcommon" if fc else "-fno-common", " -fPIC" if pic else "", dev, len(hits)),
                          files=f2, replay=REPLAY)
        if s_judged < len(scases) or len(s_classes) < 10:
            raise core.HarnessError("part (s) degenerate: %d judged cases, %d classes; %s" % (s_judged, len(s_classes), notes[-3:]))
        ctx.cover(s_cases=len(scases), s_max_declarations=maxdecl, s_judged=s_judged, s_binding_classes=len(s_classes),
                  s_configs=["%s%s%s" % (tk, "" if fc else ",fno-common", ",fPIC" if pic else "") for tk, fc, pic in configs],
                  s_slots=dict((sl, L.SCOPE_FORMS[sl]) for sl in L.SCOPE_SLOTS))
        done.append("(s) <= %d declarations across scopes" % maxdecl)
    phase["s"] = round(time.time() - ctx.t0, 1)

    # ------------------------------------------------------------------ (b)
    plan = [(1, ["after", "before"], True), (2, ["after", "before"], True), (3, ["after"] if quick else ["after", "before"], True)]
    if not quick:
        plan.append((4, ["after"], False))
    b_judged = 0
    b_live_sizes = set()
    for n, places, loops in plan:
        if ctx.out_of_time(reserve=120):
            ctx.incomplete("deadline: finished %s; liveness graphs on %d nodes not run" % (done, n))
            break
        cs = list(b_cases(n, places, loops))
        if n <= 2:
            cs += [dict(c, pic=True) for c in cs]
        if n <= 3:
            batches = shard(ctx, cs, 120)
            res = core.pmap(_b_batch, [(ctx.chibicc, os.path.join(ctx.work, "b%d_%d" % (n, i)), b) for i, b in enumerate(batches)])
            res = [[(c, st, devs, files, None) for c, st, devs, files in batch] for batch in res]
        else:
            batches = shard(ctx, cs, 32 * 40)
            res = core.pmap(_b_multi, [(ctx.chibicc, os.path.join(ctx.work, "b%d_%d" % (n, i)), b, 32) for i, b in enumerate(batches)])
        for batch in res:
            for case, st, devs, files, group in batch:
                if not tally(st):
                    continue
                b_judged += 1
                live, val = b_model(case)
                b_live_sizes.add((len(live), case["kind"]))
                if case["edges"] and case["roots"]:
                    counts["distinct_nontrivial"] += 1
                if b_judged % 4999 == 1:
                    ctx.sample({"part": "b", "case": case, "unit": b_source(case)[:700]})
                for dev in devs:
                    c2 = dict(case)
                    c2["deviation"] = dev
                    if group:
                        c2.update(group)
                    f2 = dict(files or {})
                    f2["case.json"] = json.dumps(c2)
                    ctx.violation("C15|b-liveness|%s%s|%s" % (b_class(case, live), ",only-among-other-graphs" if group else "", dev),
                                  "static inline call graph n=%d edges=%s roots=%s root-kind=%s placement=%s: %s (reachable=%s)"
                                  % (n, case["edges"], case["roots"], case["kind"], case["place"], dev, sorted(live)),
                                  files=f2, replay=REPLAY)
        ctx.cover(**{"b_graphs_n%d" % n: len(cs)})
        done.append("(b) graphs on %d nodes%s" % (n, "" if loops else " (no self-loops)"))
    phase["b"] = round(time.time() - ctx.t0, 1)
    if ctx.out_of_time(reserve=120):
        ctx.incomplete("deadline: finished %s; reference kinds not run" % done)
    else:
        cs = b_ref_cases(quick)
        GRP = 64
        batches = shard(ctx, cs, GRP * 4)
        res = core.pmap(_b_multi, [(ctx.chibicc, os.path.join(ctx.work, "br_%d" % i), b, GRP, True) for i, b in enumerate(batches)])
        r_judged = 0
        r_kinds = set()
        r_devs = {}
        for batch in res:
            for case, st, devs, files, group in batch:
                if not tally(st):
                    if len(notes) < 10:
                        notes.append("b2 %s: %s" % (case, st))
                    continue
                r_judged += 1
                b_judged += 1
                live, allowed, val = b_model3(case)
                r_kinds.add((case["ref"], len(live) > 0, len(allowed) > len(live)))
                if case["edges"] and case["roots"]:
                    counts["distinct_nontrivial"] += 1
                if r_judged % 2999 == 1:
                    ctx.sample({"part": "b2", "case": case, "unit": b_source(case)[:900]})
                for dev in devs:
                    r_devs.setdefault((b_class(dict(case, ref=None), live), bool(group), dev), {}).setdefault(case["ref"], []).append((case, files, group))
        must_k = set(k[0] for k in L.REF_KINDS if k[3] == "must") - {"call"}
        may_k = set(k[0] for k in L.REF_KINDS if k[3] == "may")
        for (cls, grouped, dev), bykind in sorted(r_devs.items()):
            # a deviation that shows with every kind of a class has a root cause that does not depend on the kind
            labels = []
            rest = set(bykind)
            for name, ks in (("every-evaluated-kind", must_k), ("every-unevaluated-kind", may_k)):
                if ks <= rest:
                    labels.append((name, sorted(ks)[0]))
                    rest -= ks
            labels += [(k, k) for k in sorted(rest)]
            for label, k in labels:
                hits = sorted(bykind[k], key=lambda h: (h[0]["n"], len(h[0]["edges"]), len(h[0]["roots"]), bool(h[0].get("mixed"))))
                case, files, group = hits[0]
                live, allowed, val = b_model3(case)
                c2 = dict(case)
                c2["deviation"] = dev
                c2["twin"] = True
                if group:
                    c2.update(group)
                f2 = dict(files or {})
                f2["case.json"] = json.dumps(c2)
                ctx.violation("C15|b-liveness|%s,ref=%s%s|%s" % (cls, label, ",only-among-other-graphs" if group else "", dev),
                              "static inline functions referenced through %s%s: n=%d edges=%s (kinds %s) roots=%s (kinds %s) root-kind=%s: %s "
                              "(must be emitted=%s, may be emitted=%s)"
                              % (case["ref"], " mixed with plain calls" if case.get("mixed") else "", case["n"], case["edges"],
                                 case["ek"], case["roots"], case["rk"], case["kind"], dev, sorted(live), sorted(allowed)),
                              files=f2, replay=REPLAY)
        if r_judged < len(cs) * 9 // 10 or len(set(k for k, _, _ in r_kinds)) < len(L.REF_ORDER) - 1:
            raise core.HarnessError("part (b2) degenerate: %d of %d judged, %d kinds; %s" % (r_judged, len(cs), len(r_kinds), notes[-3:]))
        ctx.cover(b_ref_cases=len(cs), b_ref_judged=r_judged,
                  b_ref_kinds_evaluated=[k[0] for k in L.REF_KINDS if k[3] == "must"],
                  b_ref_kinds_not_evaluated=[k[0] for k in L.REF_KINDS if k[3] == "may"])
        done.append("(b2) %d reference kinds x graphs on <= %d nodes" % (len(L.REF_ORDER) - 1, 2 if quick else 3))
    phase["b2"] = round(time.time() - ctx.t0, 1)
    if b_judged < 100 or len(b_live_sizes) < 6:
        raise core.HarnessError("part (b) degenerate: %d judged, %d live-set classes" % (b_judged, len(b_live_sizes)))
    ctx.cover(b_judged=b_judged)

    # ------------------------------------------------------------------ (c)
    if ctx.out_of_time(reserve=120):
        ctx.incomplete("deadline: finished %s; link sets not run" % done)
    else:
        cd = ctx.mkdir("c")
        OK_, FK, OALL = list(L.LINK_OBJ_BASIC), list(L.LINK_FN), list(L.LINK_OBJ)
        comp = [(ctx.chibicc, cd, i, o, f, fc) for i in range(3) for o in OALL for f in FK for fc in (True, False)
                if o in OK_ or f == "-"]
        for key, st1, err1, st2 in core.pmap(_c_compile, comp, chunksize=8):
            if st2 != 0:
                raise core.HarnessError("gcc rejects link unit %s" % (key,))
            if st1 == "timeout":
                counts["harness_timeouts"] += 1
            elif st1 != 0:
                i, o, f, fc = key
                ctx.violation("C15|c-link|unit obj=%s,fn=%s|valid-unit-rejected" % (o, f), "chibicc rejects link unit: " + err1,
                              files={"unit.c": c_unit_source(i, o, f)}, replay="$CHIBICC -c -o u.o unit.c && exit 0; exit 1")
        for n in (2, 3):
            write(os.path.join(cd, "drv%d.c" % n), c_driver(n))
            core.sh(["gcc", "-O0", "-w", "-c", "-o", os.path.join(cd, "drv%d.o" % n), os.path.join(cd, "drv%d.c" % n)], check=True)
        sets = []
        for fc in (True, False):
            for u in itertools.product(itertools.product(OK_, FK), repeat=2):
                sets.append((tuple(x[0] for x in u), tuple(x[1] for x in u), fc))
            # three units: each dimension exhaustively on its own (quick); the joint product in thorough
            for o2 in itertools.product(OALL, repeat=2):
                if not set(o2) <= set(OK_):
                    sets.append((o2, ("-", "-"), fc))
            for o3 in itertools.product(OALL, repeat=3):
                sets.append((o3, ("-", "-", "-"), fc))
            for f3 in itertools.product(FK, repeat=3):
                if fc:
                    sets.append((("-", "-", "-"), f3, fc))
            if not quick:
                units = list(itertools.product(OK_, FK))
                for u in itertools.combinations_with_replacement(units, 3):
                    if all(x[0] != "-" for x in u) and all(x[1] != "-" for x in u):
                        sets.append((tuple(x[0] for x in u), tuple(x[1] for x in u), fc))
        batches = shard(ctx, sets, 40)
        res = core.pmap(_c_batch, [(cd, os.path.join(ctx.work, "cl%d" % i), b) for i, b in enumerate(batches)])
        c_judged = 0
        verdicts = set()
        for batch in res:
            for (objs, fns, fc), st, dev, cls, detail in batch:
                if not tally(st):
                    if st == "skip-oracle-disagreement" and len(notes) < 20:
                        notes.append("c %s %s %s: %s" % (objs, fns, fc, detail[:200]))
                    continue
                c_judged += 1
                v = L.link_model(objs, fns, fc)[0]
                verdicts.add(v)
                if v == "fail" or len(set(objs)) > 1 or len(set(fns)) > 1:
                    counts["distinct_nontrivial"] += 1
                if c_judged % 1499 == 1:
                    ctx.sample({"part": "c", "objs": objs, "fns": fns, "fcommon": fc, "model": L.link_model(objs, fns, fc)})
                if dev:
                    case = {"part": "c", "objs": list(objs), "fns": list(fns), "fcommon": fc, "deviation": dev}
                    files = {"case.json": json.dumps(case), "detail.txt": detail}
                    for i, (o, f) in enumerate(zip(objs, fns)):
                        files["u%d.c" % i] = c_unit_source(i, o, f)
                    ctx.violation("C15|c-link|%s|%s" % (cls, dev),
                                  "link set objects=%s functions=%s %s: %s (model: %s)" % (
                                      objs, fns, "-fcommon" if fc else "-fno-common", dev, L.link_model(objs, fns, fc)),
                                  files=files, replay=REPLAY)
        if c_judged < 100 or verdicts != {"ok", "fail"}:
            raise core.HarnessError("part (c) degenerate: %d judged, verdicts %s" % (c_judged, verdicts))
        ctx.cover(c_link_sets=len(sets), c_judged=c_judged)
        done.append("(c) link sets")
    phase["c"] = round(time.time() - ctx.t0, 1)

    # ------------------------------------------------------------------ (d)
    if ctx.out_of_time(reserve=60):
        ctx.incomplete("deadline: finished %s; configuration programs not run" % done)
    else:
        progs = d_programs()
        jobs = []
        for name in sorted(progs):
            for cfg in D_CONFIGS:
                if name == "common-in-both-units" and "fno-common" in cfg:
                    continue                              # ill-formed there by construction
                jobs.append((ctx.chibicc, os.path.join(ctx.work, "d_%s_%s" % (name, cfg.replace("+", "_"))), name,
                             progs[name][0], progs[name][1], cfg))
        res = core.pmap(_d_one, jobs)
        d_judged = 0
        for name, cfg, st, dev, detail in res:
            if not tally(st):
                if st == "skip-oracle-disagreement" and len(notes) < 30:
                    notes.append("d %s %s: %s" % (name, cfg, detail[:300]))
                continue
            d_judged += 1
            counts["distinct_nontrivial"] += 1
            if dev:
                case = {"part": "d", "program": name, "config": cfg, "deviation": dev}
                ctx.violation("C15|d-config|%s,%s|%s" % (name, cfg, dev),
                              "program %s in configuration %s: %s\n%s" % (name, cfg, dev, detail[:400]),
                              files={"case.json": json.dumps(case), "L.c": progs[name][0], "M.c": progs[name][1],
                                     "detail.txt": detail}, replay=REPLAY)
        if d_judged < len(jobs) // 2:
            raise core.HarnessError("part (d) degenerate: %d of %d judged; %s" % (d_judged, len(jobs), notes[-3:]))
        ctx.cover(d_programs=len(progs), d_configs=D_CONFIGS, d_judged=d_judged)
        done.append("(d) configurations")

    phase["d"] = round(time.time() - ctx.t0, 1)

    # ------------------------------------------------------------------ (e) string-literal objects
    if ctx.out_of_time(reserve=90):
        ctx.incomplete("deadline: finished %s; string-literal objects not run" % done)
    else:
        singles, pairs, triples = e_tuples(quick)
        GRP = 32
        groups = [(g, False) for g in core.chunks(singles + pairs + triples, GRP)]
        groups += [(g, True) for g in core.chunks(singles, GRP)]                # every literal once as -fPIC object in a PIE
        batches = shard(ctx, groups, 4)
        res = core.pmap(_e_batch, [(ctx.chibicc, os.path.join(ctx.work, "e%d" % i), b) for i, b in enumerate(batches)])
        e_judged = 0
        e_classes = set()
        for batch in res:
            for lits, pic, st, devs, detail in batch:
                if not tally(st):
                    if st in ("skip-oracle-disagreement", "skip-ref-rejected") and len(notes) < 40:
                        notes.append("e %s: %s" % (lits, detail[:200]))
                    continue
                e_judged += 1
                rel, kinds = L.str_tuple_class(lits)
                e_classes.add((rel, kinds))
                if len(lits) > 1:
                    counts["distinct_nontrivial"] += 1
                if e_judged % 2999 == 1:
                    ctx.sample({"part": "e", "literals": [L.str_spelling(k, t) for k, t in lits], "class": [rel, kinds]})
                for dev in devs:
                    case = {"part": "e", "mode": "alone", "lits": [list(x) for x in lits], "pic": pic, "deviation": dev}
                    ctx.violation("C15|e-strlit|%s|%s%s|%s" % (rel, kinds, "|fPIC" if pic else "", dev),
                                  "string literals %s alone in one translation unit%s: %s\n%s" % (
                                      e_show(lits), " (-fPIC)" if pic else "", dev, detail[:1500]),
                                  files={"case.json": json.dumps(case), "unit.c": e_unit_source("s0", lits),
                                         "reader.c": e_reader_source([("s0", lits)]), "detail.txt": detail}, replay=REPLAY)
        if e_judged < (len(singles) + len(pairs) + len(triples)) // 2 or len(e_classes) < 12:
            raise core.HarnessError("part (e) degenerate: %d judged tuples, %d classes; %s" % (e_judged, len(e_classes), notes[-3:]))
        ctx.cover(e_singles=len(singles), e_pairs=len(pairs), e_triples=len(triples), e_judged_alone=e_judged,
                  e_relation_classes=len(e_classes), e_contexts=E_CONTEXTS)
        done.append("(e) string literals alone in a unit")
        phase["e1"] = round(time.time() - ctx.t0, 1)
        # packed programs in every configuration of part (d)
        progs = e2_programs(quick)
        refs = {}
        for name, st, want in core.pmap(_e2_ref, [(os.path.join(ctx.work, "e2r_" + n), n, progs[n]) for n in sorted(progs)]):
            if st == "ok":
                refs[name] = want
            else:
                tally(st)
                notes.append("e2 %s: %s" % (name, want[:300]))
        jobs = [(ctx.chibicc, os.path.join(ctx.work, "e2_%s_%s" % (n, cfg.replace("+", "_"))), n, progs[n], cfg)
                for n in sorted(refs) for cfg in D_CONFIGS]
        e2_judged = 0
        e2_devs = {}                 # (relation, kinds, among-others, deviation) -> [(cfg, name, P, lits, keep, detail)]
        for name, cfg, st, out, detail in core.pmap(_e2_one, jobs):
            if not tally(st):
                continue
            e2_judged += 1
            counts["distinct_nontrivial"] += 1
            for P, dl, keep in out:
                lits = [tuple(x) for x in dict((u[0], u[1]) for u in progs[name]).get(P, [])]
                rel, kinds = L.str_tuple_class(lits) if lits else ("program", "-")
                for dev in dl:
                    e2_devs.setdefault((rel, kinds, len(keep) != 1, dev), []).append((cfg, name, P, lits, keep, detail))
        for (rel, kinds, among, dev), hits in sorted(e2_devs.items()):
            # a deviation seen in every configuration has one root cause that does not depend on the configuration
            cfgs = sorted(set(h[0] for h in hits))
            groups = [("every-configuration", hits[:1])] if set(cfgs) == set(D_CONFIGS) else \
                     [(c, [h for h in hits if h[0] == c][:1]) for c in cfgs]
            for label, hs in groups:
                cfg, name, P, lits, keep, detail = hs[0]
                case = {"part": "e", "mode": "config", "config": cfg, "units": keep, "unit": P, "deviation": dev}
                Lc, Mc = e2_sources([tuple(u) for u in keep])
                ctx.violation("C15|e-strlit-config|%s|%s|%s%s|%s" % (rel, kinds, label, ",among-other-literals" if among else "", dev),
                              "string literals %s in program %s (%d units), configuration %s%s: %s\n%s" % (
                                  e_show(lits), name, len(keep), cfg, " (and every other one)" if label != cfg else "", dev, detail[:1500]),
                              files={"case.json": json.dumps(case), "L.c": Lc, "M.c": Mc, "detail.txt": detail}, replay=REPLAY)
        if e2_judged < len(progs) * len(D_CONFIGS) // 2:
            raise core.HarnessError("part (e) configurations degenerate: %d judged; %s" % (e2_judged, notes[-3:]))
        ctx.cover(e_config_programs=len(progs), e_config_units=sum(len(v) for v in progs.values()), e_config_judged=e2_judged)
        done.append("(e) string literals x configurations")
    phase["e"] = round(time.time() - ctx.t0, 1)
    ctx.cover(bounds_completed=done, oracle_notes=notes, phase_end_seconds=phase, **counts)
    ctx.cover(rule="non-trivial = (a) sequence of >= 2 declarations or one that defines; (b) graph with >= 1 edge and >= 1 root; "
                   "(b2) graph with >= 1 edge and >= 1 root whose references are of one of the 49 non-call kinds of b_ref_kinds_evaluated / "
                   "b_ref_kinds_not_evaluated (uniform on graphs <= 2 nodes, thorough <= 3; mixed with calls on 2 nodes): "
                   "must-be-emitted <= emitted <= may-be-emitted; (s) >= 2 declarations of one identifier over the scope slots of "
                   "s_slots (quick <= 3 declarations, thorough all) x s_configs: every use denotes the object the model says; "
                   "(c) set whose units differ or that the model calls ill-formed; (d) every program x configuration; "
                   "(e) every tuple of >= 2 string literals over the alphabet {'',u8,L,u,U} x texts of length <= 3 over {a,b,NUL} "
                   "(pairs: quick = char x length <= 3, each kind x length <= 2, all kinds x length <= 1, each text of length <= 2 x all kinds; "
                   "thorough all 200 x 200 literals; triples: quick 7 char "
                   "literals over {a,NUL}, thorough {'',L} x length <= 2) alone in a unit x all contexts of e_contexts, and every "
                   "packed program x configuration; judged on content bytes up to sizeof, never on address identity. "
                   "Oracle: constraints from models/c15_linkage.py (C11 6.2.2, 6.9.2, 6.7.4, 6.7.1 + -fcommon/-fno-common), "
                   "graph reachability, model-predicted program output confirmed by a gcc -std=c11 -O0 twin")
    ctx.assume("symbol order, local label names, section names (only the section KIND from its flags/type is used) and whether a "
               "non-static inline definition is emitted are free")
    ctx.assume("gcc 12 -std=c11 -pedantic-errors decides validity of a generated unit together with the model; the system "
               "linker (GNU ld via gcc / via chibicc's own driver) decides link success")
    ctx.assume("a function named only in operands that are not evaluated or in code that can never run may or may not be emitted; "
               "GNU forms (statement expression, ?:, typeof, _Alignof expr) are part of the alphabet because chibicc accepts them")
    ctx.assume("liveness graphs on 4 nodes (thorough) are enumerated without self-loops; self-loops are exhaustive for n <= 3")
    ctx.assume("string literals: x86-64 SysV element types (wchar_t = int, char16_t = unsigned short, char32_t = unsigned int, "
               "little endian); two literals may share or overlap storage whenever their bytes agree over the common length")
    if counts["harness_timeouts"]:
        ctx.incomplete("%d cases hit the per-process wall limit and were not judged" % counts["harness_timeouts"])


if __name__ == "__main__":
    if len(sys.argv) == 3 and sys.argv[1] == "replay":
        sys.exit(replay_main(sys.argv[2]))
    print("usage: c15.py replay case.json")
    sys.exit(2)
