#include <stddef.h>
#include <stdarg.h>
#include <stdbool.h>
size_t n = offsetof(struct { int a; int b; }, b);
bool t = true;
