int f(int x) { switch (x) { case 3 ... 1: ; } return x; }
