int a;
int b;
long d = &a - &b;
