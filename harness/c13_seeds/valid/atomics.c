_Atomic int c;
int f(void) {
  c++;
  c += 2;
  int o = 1;
  __builtin_compare_and_swap(&c, &o, 3);
  return __builtin_atomic_exchange(&c, 4);
}
