#ifdef 1
#endif
