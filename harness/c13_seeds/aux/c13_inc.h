#ifndef C13_INC_H
#define C13_INC_H
#define INC_VAL 4
extern int inc_var;
#endif
