/* C08 twin driver (compiled by gcc).  The generated unit is compiled twice (chibicc: cc_*, gcc -O0: ref_*) and exports
 *   long  X_tab[],  X_ntab      compile-time facts (sizeof, _Alignof, offsetof, _Generic ids)
 *   void  X_blk(long *), X_nblk facts that need block scope / parameters, written at run time
 *   struct vp_img X_imgs[], X_nimgs   one record per struct/union with bit-fields: object, sizeof, setter, #bit-fields
 * Output lines:  T <idx> <cc> <ref>   table fact differs
 *                B <idx> <cc> <ref>   block fact differs
 *                I <rec> <field> <cc-hex> <ref-hex>   byte image after `obj.field = -1` on a zeroed object differs
 *                X <rec> <field> <signal>             chibicc-compiled setter crashed
 *                R <idx> <ref>  /  Q <idx> <ref>  /  J <rec> <field> <ref-hex>   gcc's value of every table fact, block
 *                                                     fact and image (for the model cross-check in the check)
 *                S tab=<n> blk=<n> img=<n>            summary (always last)
 */
#include <stdio.h>
#include <string.h>
#include <signal.h>
#include <setjmp.h>
#include <stdlib.h>
#include <unistd.h>

struct vp_img { void *obj; long size; void (*set)(int); long nf; };

extern long cc_tab[], ref_tab[], cc_ntab, ref_ntab, cc_nblk, ref_nblk, cc_nimgs, ref_nimgs;
extern char ref_tabkind[], ref_blkkind[];   /* 1 = the entry is a _Generic type id */

/* chibicc has one type for char/signed char and one for long/long long (unsigned likewise); type identity is compared
 * up to that merge.  Ids: see PRIM in checks/c08.py. */
static long canon(long id) { return id == 2 ? 1 : id == 10 ? 8 : id == 11 ? 9 : id; }
static int differs(long cc, long ref, int kind) { return kind == 1 ? canon(cc) != canon(ref) : cc != ref; }
extern void cc_blk(long *), ref_blk(long *);
extern struct vp_img cc_imgs[], ref_imgs[];

static sigjmp_buf trap;
static volatile int in_cc;
static void on_sig(int sig) { if (in_cc) siglongjmp(trap, sig); _exit(70); }

static void hex(const unsigned char *p, long n) { for (long i = 0; i < n; i++) printf("%02x", p[i]); }

int main(void) {
  signal(SIGSEGV, on_sig); signal(SIGBUS, on_sig); signal(SIGFPE, on_sig); signal(SIGILL, on_sig);
  if (cc_ntab != ref_ntab || cc_nblk != ref_nblk || cc_nimgs != ref_nimgs) { printf("E counts differ\n"); return 3; }
  for (long i = 0; i < ref_ntab; i++) {
    printf("R %ld %ld\n", i, ref_tab[i]);
    if (differs(cc_tab[i], ref_tab[i], ref_tabkind[i])) printf("T %ld %ld %ld\n", i, cc_tab[i], ref_tab[i]);
  }
  long nb = ref_nblk;
  long *a = calloc(nb + 1, sizeof(long)), *b = calloc(nb + 1, sizeof(long));
  ref_blk(b);
  int sg;
  if ((sg = sigsetjmp(trap, 1)) == 0) { in_cc = 1; cc_blk(a); in_cc = 0; }
  else { in_cc = 0; printf("X -1 -1 %d\n", sg); }
  for (long i = 0; i < nb; i++) {
    printf("Q %ld %ld\n", i, b[i]);
    if (differs(a[i], b[i], ref_blkkind[i])) printf("B %ld %ld %ld\n", i, a[i], b[i]);
  }
  long nimg = 0;
  for (long r = 0; r < ref_nimgs; r++) {
    struct vp_img *c = &cc_imgs[r], *g = &ref_imgs[r];
    for (int k = 0; k < g->nf; k++) {
      memset(g->obj, 0, g->size);
      g->set(k);
      printf("J %ld %d ", r, k); hex(g->obj, g->size); printf("\n");
      if (c->size != g->size) continue;            /* size mismatch is already reported through the table */
      memset(c->obj, 0, c->size);
      if ((sg = sigsetjmp(trap, 1)) == 0) { in_cc = 1; c->set(k); in_cc = 0; }
      else { in_cc = 0; printf("X %ld %d %d\n", r, k, sg); continue; }
      nimg++;
      if (memcmp(c->obj, g->obj, g->size)) {
        printf("I %ld %d ", r, k); hex(c->obj, c->size); printf(" "); hex(g->obj, g->size); printf("\n");
      }
    }
  }
  printf("S tab=%ld blk=%ld img=%ld\n", ref_ntab, nb, nimg);
  return 0;
}
