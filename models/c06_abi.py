"""System V x86-64 psABI (section 3.2.3) parameter classification and register assignment - reference model for C06.

Types are tuples:
  ("p", name)              primitive: char short int long ptr bool float double ldouble
  ("a", elem, n)           array member (only inside aggregates)
  ("s", (m1, m2, ...))     struct,   ("u", (m1, ...))  union      (members are types)

The model is used (a) to build signatures that sit on register-exhaustion boundaries, (b) to say how many vector
registers a call uses (%al for variadic callees), (c) to label failures ("eightbyte k of the struct is SSE, one SSE
register free").  Byte integrity itself is judged against constants, never against this model.
"""

PRIM = {  # name -> (size, align, class, C spelling, bytes that carry the value)
    "char": (1, 1, "INTEGER", "char", 1), "short": (2, 2, "INTEGER", "short", 2), "int": (4, 4, "INTEGER", "int", 4),
    "long": (8, 8, "INTEGER", "long", 8), "ptr": (8, 8, "INTEGER", "void *", 8), "bool": (1, 1, "INTEGER", "_Bool", 1),
    "float": (4, 4, "SSE", "float", 4), "double": (8, 8, "SSE", "double", 8), "ldouble": (16, 16, "X87", "long double", 10),
}
GP_MAX, SSE_MAX = 6, 8


def P(n): return ("p", n)


def layout(t):
    """-> (size, align, leaves) ; leaves = [(offset, primitive name)] in declaration order, arrays expanded."""
    k = t[0]
    if k == "p":
        s, a = PRIM[t[1]][:2]
        return s, a, [(0, t[1])]
    if k == "a":
        s, a, lv = layout(t[1])
        return s * t[2], a, [(i * s + o, n) for i in range(t[2]) for o, n in lv]
    off = size = 0
    align = 1
    leaves = []
    for m in t[1]:
        s, a, lv = layout(m)
        align = max(align, a)
        if k == "s":
            off = (off + a - 1) // a * a
            leaves += [(off + o, n) for o, n in lv]
            off += s
            size = off
        else:
            leaves += lv
            size = max(size, s)
    return (size + align - 1) // align * align, align, leaves


def value_mask(t):
    """Byte offsets that carry member values (padding and the 6 tail bytes of long double excluded)."""
    size, _, leaves = layout(t)
    m = set()
    for o, n in leaves:
        m.update(range(o, o + PRIM[n][4]))
    return size, sorted(m)


def _merge(a, b):
    if a == b: return a
    if a == "NO_CLASS": return b
    if b == "NO_CLASS": return a
    if "MEMORY" in (a, b): return "MEMORY"
    if "INTEGER" in (a, b): return "INTEGER"
    if a in ("X87", "X87UP") or b in ("X87", "X87UP"): return "MEMORY"
    return "SSE"


def classify(t):
    """psABI 3.2.3 classification -> list of per-eightbyte classes, or ["MEMORY"]."""
    if t[0] == "p":
        c = PRIM[t[1]][2]
        return ["X87", "X87UP"] if c == "X87" else [c]
    size, align, leaves = layout(t)
    if size > 16 or size == 0:           # no __m256 members here, so more than two eightbytes is always MEMORY
        return ["MEMORY"]
    cls = ["NO_CLASS"] * ((size + 7) // 8)
    for o, n in leaves:
        if o % PRIM[n][1]:
            return ["MEMORY"]            # unaligned field (cannot happen with natural layout)
        c = PRIM[n][2]
        if c == "X87":
            cls[o // 8] = _merge(cls[o // 8], "X87")
            cls[o // 8 + 1] = _merge(cls[o // 8 + 1], "X87UP")
        else:
            cls[o // 8] = _merge(cls[o // 8], c)
    if "MEMORY" in cls:
        return ["MEMORY"]
    for i, c in enumerate(cls):
        if c == "X87UP" and (i == 0 or cls[i - 1] != "X87"):
            return ["MEMORY"]
    return cls


def arg_need(t):
    """-> (gp, sse) registers an argument of type t needs, or None if it is passed in memory."""
    cls = classify(t)
    if cls[0] in ("MEMORY", "X87"):
        return None
    return cls.count("INTEGER"), cls.count("SSE")


def ret_where(t):
    """-> 'void' | 'memory' (hidden pointer in %rdi, returned in %rax) | 'x87' | 'regs'"""
    if t is None: return "void"
    cls = classify(t)
    if cls[0] == "MEMORY": return "memory"
    if cls[0] == "X87": return "x87"
    return "regs"


def assign(args, ret=None):
    """Register assignment of a whole call.  -> (places, gp_used, sse_used); places[k] is ("reg", gp_before, sse_before)
    or ("mem", gp_before, sse_before, reason) where reason is 'class' or 'no-reg'."""
    gp = 1 if ret_where(ret) == "memory" else 0
    sse = 0
    places = []
    for t in args:
        need = arg_need(t)
        if need is None:
            places.append(("mem", gp, sse, "class"))
        elif gp + need[0] <= GP_MAX and sse + need[1] <= SSE_MAX:
            places.append(("reg", gp, sse))
            gp += need[0]; sse += need[1]
        else:
            places.append(("mem", gp, sse, "no-reg"))   # psABI: no registers are consumed by an argument that does not fit
    return places, gp, sse


# ---- naming / C text -------------------------------------------------------
_AB = {"char": "c", "short": "s", "int": "i", "long": "l", "ptr": "p", "bool": "b", "float": "f", "double": "d", "ldouble": "L"}


def tname(t):
    """Stable short name, e.g. s(i,d)  u(l,f2)  s(c,s(f,f))."""
    k = t[0]
    if k == "p": return _AB[t[1]]
    if k == "a": return "%s%d" % (tname(t[1]), t[2])
    return "%s(%s)" % (k, ",".join(tname(m) for m in t[1]))


def cdecl(t, name):
    """C declaration text of an aggregate type body / member."""
    k = t[0]
    if k == "p": return "%s %s" % (PRIM[t[1]][3], name)
    if k == "a": return "%s %s[%d]" % (PRIM[t[1][1]][3], name, t[2])
    body = " ".join(cdecl(m, "m%d" % i) + ";" for i, m in enumerate(t[1]))
    return "%s { %s } %s" % ("struct" if k == "s" else "union", body, name)


def class_pattern(t):
    """e.g. 'INTEGER', 'SSE', 'X87', 'struct16[INTEGER,SSE]', 'union8[SSE]', 'struct24[MEMORY]'."""
    if t is None: return "void"
    if t[0] == "p":
        return {"bool": "INTEGER:_Bool", "ldouble": "X87"}.get(t[1], "%s:%s" % (PRIM[t[1]][2], t[1]))
    size = layout(t)[0]
    return "%s%d[%s]" % ("struct" if t[0] == "s" else "union", size, ",".join(classify(t)))


def pressure(t, gp_before, sse_before):
    """Register-pressure position of an argument: how its need relates to what is still free."""
    need = arg_need(t)
    if need is None:
        return "mem-class"
    def rel(n, free):
        if n == 0: return "-" if free > 0 else "-/0free"
        if free > n: return "room"
        if free == n: return "last"
        return "short" if free > 0 else "none"
    return "gp:%s,sse:%s" % (rel(need[0], GP_MAX - gp_before), rel(need[1], SSE_MAX - sse_before))
