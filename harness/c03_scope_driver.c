/* C03 (c): generic driver.  The unit defines FN(ctab)[] (void f(short, void *)), FN(nctab), FN(out)[NS], FN(jmp); per case
 * the binary file argv[1] holds a flag (the model says the case is non-trivial: the name denotes at least two different
 * things over the probe sites) and the model's expected probe values (2 runs x NS longs: jmp=0, jmp=1). */
#include <stdio.h>
#include <stdlib.h>
#include <string.h>
#include <setjmp.h>
#include <signal.h>
#define NS 44
#define UNSET (-7777L)
extern void (*cc_ctab[])(short, void *), (*ref_ctab[])(short, void *);
extern int cc_nctab, ref_nctab, cc_jmp, ref_jmp;
extern long cc_out[NS], ref_out[NS];
static sigjmp_buf jb; static volatile int in_cc;
static void on_sig(int s) { if (in_cc) siglongjmp(jb, s); _exit(70); }
int main(int argc, char **argv) {
  FILE *f = fopen(argc > 1 ? argv[1] : "table.bin", "rb");
  long n, evals = 0, judged = 0, odis = 0, nontrivial = 0;
  if (!f || fread(&n, sizeof n, 1, f) != 1 || n != cc_nctab || n != ref_nctab) { fprintf(stderr, "table mismatch\n"); return 72; }
  signal(SIGSEGV, on_sig); signal(SIGBUS, on_sig); signal(SIGILL, on_sig); signal(SIGFPE, on_sig);
  for (long i = 0; i < n; i++) {
    long want[2][NS], flag;
    if (fread(&flag, sizeof flag, 1, f) != 1 || fread(want, sizeof want, 1, f) != 1) return 72;
    int bad = 0, distinct = flag != 0;
    for (int mode = 0; mode < 2; mode++) {
      int any = 0;
      for (int k = 0; k < NS; k++) if (want[mode][k] != UNSET) any = 1;
      if (mode == 1 && !any) continue;
      for (int k = 0; k < NS; k++) cc_out[k] = ref_out[k] = UNSET;
      cc_jmp = ref_jmp = mode;
      evals++;
      ref_ctab[i](0, 0);
      if (memcmp(ref_out, want[mode], sizeof ref_out)) {
        odis++;
        for (int k = 0; k < NS; k++) if (ref_out[k] != want[mode][k]) { printf("O %ld mode=%d site=%d model=%ld ref=%ld\n", i, mode, k, want[mode][k], ref_out[k]); break; }
        continue;
      }
      judged++;
      int sg;
      if ((sg = sigsetjmp(jb, 1)) == 0) { in_cc = 1; cc_ctab[i](0, 0); in_cc = 0; }
      else { in_cc = 0; if (!bad++) printf("V %ld mode=%d site=-1 want=0 got=signal\n", i, mode); continue; }
      for (int k = 0; k < NS; k++) if (cc_out[k] != want[mode][k]) { if (!bad++) printf("V %ld mode=%d site=%d want=%ld got=%ld\n", i, mode, k, want[mode][k], cc_out[k]); }
    }
    nontrivial += distinct;
  }
  printf("S evals=%ld judged=%ld odis=%ld nontrivial=%ld\n", evals, judged, odis, nontrivial);
  return 0;
}
