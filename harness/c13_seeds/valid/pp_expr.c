#if (1 + 2 * 3 == 7) && !defined X || (4 / 2 > 1 ? 0 : 1)
int a;
#endif
#if 'a' == 97 && 0x10 == 16 && -1 < 0
int b;
#endif
