#!/bin/sh
# usage: demos/C06/run.sh <mutant.diff>...
# The C06 mutants are written against /repo + the pending proposed_fixes/C06-[1-5]-*.diff (on the unfixed tree the check
# already fails).  This script builds that base (fixes that are already committed are skipped), applies one mutant,
# runs the repository's own tests (must pass) and then `./check C06 quick` against the copy (must report violations).
# Once the fixes are committed, `tools/mutant.sh demos/C06/<name>.diff C06` does the same.
for m in "$@"; do
  m=$(readlink -f "$m")
  d=$(mktemp -d /tmp/c06mut_XXXXXX)
  rsync -a --exclude=.git --exclude='*.o' --exclude=/chibicc --exclude=/stage2 --exclude='*.exe' --exclude='/tmp*' /repo/ "$d"/
  for f in /verif/proposed_fixes/C06-[1-5]-*.diff; do
    (cd "$d" && git apply --check "$f" 2>/dev/null && git apply "$f") || echo "note: $(basename $f) not applied (already in the tree?)"
  done
  if [ -n "$m" ] && [ "$(basename $m)" != none ]; then (cd "$d" && patch -p1 -s < "$m") || { echo "MUTANT: patch does not apply"; rm -rf "$d"; continue; }; fi
  /verif/tools/repotest.sh "$d" || { echo "MUTANT $(basename $m): repo tests fail (not a valid mutant)"; rm -rf "$d"; continue; }
  out=$(cd /verif && VERIF_REPO="$d" VERIF_NO_EVIDENCE=1 ./check C06 ${TIER:-quick} 2>&1); rc=$?
  echo "MUTANT $(basename $m) check=C06 rc=$rc $(echo "$out" | grep -c '^VIOLATION') violation lines"
  echo "$out" | grep '^VIOLATION' | head -3 | cut -c1-300
  [ $rc -ge 2 ] && echo "$out" | tail -5
  rm -rf "$d"
done
