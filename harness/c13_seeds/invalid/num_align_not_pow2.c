_Alignas(3) int x;
struct T { char c; } __attribute__((aligned(3))) t;
