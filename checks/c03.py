"""C03 control flow and lexical scoping follow the abstract machine.

Three bounded-exhaustive enumerations, each a twin check (the same generated unit compiled by the chibicc under test
and by gcc -O0, linked with a gcc-compiled driver) with a boring reference model as second oracle; a case is judged
only where model and gcc agree:

 (a) trees    statement trees by size (models/c03_trees.py) executed on every input tape up to length L; markers and
              conditions call a gcc-compiled recorder; oracle = event trace of the reference interpreter in
              harness/c03_rt.h == trace of the gcc twin.  Layers:
                full / core / loops   the whole statement and expression alphabet by size; besides the int tape bit C() the
                              operands are T()/Z() and the TYPED tape bits Cc/Cl/Cf/Cd/Cld/Cp (char 0x80, long and pointer
                              with only high bits set, 0.25f, 0.5 / -0.0, 0.5L - one per class of truth test), cost 1 each
                typed         if, if/else, while, do, for, V() x all expression forms (&& || ?: GNU-?: , ! statement
                              expression) with EVERY leaf ranging over C() and the six typed tape bits at no cost: size 1 =
                              every condition context x every operand type x every pair (?:: triple) of operand types;
                              size 2 (thorough) = every nesting of two forms.  Constraint violations (pointer vs
                              arithmetic arms of ?:) are not generated; the interpreter carries (value as long, truth) pairs
                duff          switch with a free-form body: case/default labels (<= 3 per switch, every shape of
                              SWITCH_SHAPES) on any statement at any depth of if/else, while, do, for, compound and
                              labelled statements (Duff's device), with break/continue/return/goto
                names         the label NAME space: every program of goto / computed goto / if / if-else / compound /
                              return (sizes 3-4, thorough 5) with >= 2 labels and a jump, x every ORDERED selection of label
                              names from L, L1, L10, l1, XL1 and two 63-character names differing in the last character
                              (prefixes, suffixes, case variants of each other; size 5 and four labels: the first four
                              names): definition order = textual order, so every related pair is defined in both orders
                              and is the target of goto and of &&label.  The interpreter knows labels by index only.
                trap / trap2  operands that must NOT be evaluated, where evaluation is observable only by a TRAP: every leaf
                              of if, if/else, while, do, for, V() x && || ?: GNU-?: , ! ({ }) ranges over C() and *gp<p>
                              (null pointer), ga[gi<p>] (index into an unmapped page), 6 / gd<p> (run-time zero divisor) -
                              each valid only while the tape bit read last equals its polarity p - and the pure operands 7,
                              a global, sizeof of a trapping operand (trap: size 1, all 9; trap2: size 2, three to five of
                              them).  None of them calls the recorder, so a compiler that evaluates an unselected ?: arm or
                              a short-circuited operand "because it is pure" is seen only by SIGSEGV / SIGFPE: the driver
                              runs every function under sigsetjmp and a signal is end state 5 of that run = VIOLATION.  A
                              run on which the abstract machine itself evaluates an invalid operand is undefined: skipped
                              and counted (skipped_undefined), neither twin is run on it.
                dead          a statement that traps whenever executed (`gsink = *gnull;`) at every position of programs
                              with goto / return / break / continue / loops / switch (sizes 2-3, thorough 4): dead code
                              after and around jumps must stay dead
 (b) switch   controlling type x case-label sets from the thresholds x GNU ranges between neighbours x default
              placement, selector = every label bound -1/0/+1; oracle = Python model of 6.8.4.2p5 == gcc twin.
              SHAPE family (lowering as a function of the shape of the label set): labels base + stride * p for p in EVERY
              subset of a window {0..7} (thorough {0..8}) containing 0 = all shapes of 1..8 (9) labels - dense, one hole
              at each position, several holes, sparse - x 11 (19) (type, base, stride) triples incl. sets straddling 0,
              the range of char / unsigned char / short, 2^31, 2^32, 2^63 x default none / first / middle / last (every
              position; descending and interleaved label order) + big sets of 16, 64, 300 (.. 1100) labels (dense, one
              hole, two holes, every other value); selector = EVERY value from the smallest label - 2 to the largest + 2.
 (c) scope    models/c03_scope.py: every assignment of declarations of one name (ordinary identifier / tag / label) to
              the scope chain file > parameter > block > for-init > inner block, the tag declaration kinds being
              definitions (struct/union/enum) AND incomplete declarations (`struct x;`, first mention in a parameter list)
              never completed or completed later at the same level after nested scopes closed; and (stmt family) to file
              scope, function body, the controlling expression and the non-compound body of if/while/do/for/switch
              (C11 6.8.4p3, 6.8.5p5) or the parameter list of a function-pointer declarator / function declaration at
              block or file scope (6.2.1p4).  A probe after every scope entry and exit observes the ordinary binding, the
              label binding (`goto x` with and without a DECOY label whose spelling is a prefix / extension / suffix-extension /
              case variant of x, defined before or after x: the probes executed tell which statement was reached), the
              tag binding (sizeof where complete), the tag identity (pointer-to-incomplete compatibility via _Generic with
              the pointers declared next to every struct/union declaration) and objects of the type (last byte survives an
              assignment); oracle = innermost visible declaration model == gcc twin.
              POINT OF DECLARATION (point family, C11 6.2.1p7): besides the probes AFTER declarations, probes INSIDE a
              declaration - the exact point at which each kind of declaration enters scope.  Self-referential declaration
              kinds at every level of the chain where C allows them, over every assignment of enclosing declarations of x:
                array bound in the declarator (object, typedef, parameter `char (*x)[REF + 1]`) ...... sees the enclosing x
                initializer (`char x[N] = { sizeof(x) }`, also with the bound, also in for-init, file scope) sees the new x
                enumerator value (`enum { x = REF + 1 }`, in blocks, parameter lists, type names in controlling
                  expressions and bodies) and every earlier enumerator of the list ........................ sees the enclosing x
                a later enumerator of the same list (`enum { a = REF + 1, x = REF + 2, b = x + 3 }`) ...... sees the new x
                a later parameter (`short x, char (*r)[sizeof(x) + 1]`; prototype scope: `__typeof__(x) *r`
                  observed through _Generic on the function type) ........................................ sees the parameter
                a member declaration mentioning its own tag (`struct x { struct x *n; .. }`, struct and union, at file /
                  parameter / block / inner-block level and in type names) ............................... sees the NEW type
              REF = sizeof(x) / sizeof(*x) / x according to what the enclosing x is.  The observable of such a
              declaration (sizeof x, x[0], enumerator values, sizeof *r, sizeof *q->n, _Generic(q->n, struct x *)) depends on
              what its inside references bound to and is read at every probe site where x denotes that declaration;
              model = the three rules of 6.2.1p7 == gcc twin.  Bounds: quick at most 3 declarations per case (one name
              space, or a self-referential declaration in each), thorough 5 (4 with both name spaces).
"""
import os, re, itertools
from vlib import core, twin
from models import c03_trees as trees

LEVEL = "exploration"
BUDGET = {"quick": 1200, "thorough": 6000}

RT = os.path.join(core.VERIF, "harness/c03_rt.h")


class _C:                       # minimal ctx stand-in for twin (workers get picklable arguments only)
    chibicc = None


def _cc(chibicc):
    c = _C()
    c.chibicc = chibicc
    return c


# ---------------------------------------------------------------------------------------------------------
# generic: twin run of a list of cases with bisection of rejected cases on either side
# ---------------------------------------------------------------------------------------------------------
def _bisect(cases, ok):
    """minimal set of single cases c with not ok([c]) explaining not ok(cases) (cases are independent functions)"""
    bad, stack, n = [], [list(cases)], 0
    while stack:
        cs = stack.pop()
        n += 1
        if n > 48 and len(cs) > 1:          # dense failures: bisection does not pay, test the rest one by one
            stack.extend([c] for c in reversed(cs))
            continue
        r = ok(cs)
        if r is True:
            continue
        if len(cs) == 1:
            bad.append((cs[0], r))
        else:
            stack.append(cs[len(cs) // 2:]); stack.append(cs[:len(cs) // 2])
    return bad


def robust_twin(chibicc, wd, name, cases, build, run_timeout=600, extra_units=()):
    """build(cases) -> (unit, driver, {file: bytes}).  Returns (res, kept, cc_rejected[(case,(stage,status,err,src))], ref_rejected[case])."""
    C = _cc(chibicc)
    cur = list(cases)
    cc_rej, ref_rej = [], []
    os.makedirs(wd, exist_ok=True)
    for attempt in range(4):
        if not cur:
            return None, cur, cc_rej, ref_rej
        unit, drv, files = build(cur)
        for fn, data in files.items():
            with open(os.path.join(wd, fn), "wb") as f:
                f.write(data)
        res = twin.twin_run(C, wd, name, unit, drv, run_timeout=run_timeout, extra_units=extra_units)
        if res["status"] == "ok":
            return res, cur, cc_rej, ref_rej
        if res["status"] == "cc-fail":
            def ok(cs):
                u = build(cs)[0]
                p = os.path.join(wd, name + "_bis.c")
                with open(p, "w") as f:
                    f.write(twin.PRELUDE + u)
                good, stage, st, err = twin.cc_compile(C, p, os.path.join(wd, name + "_bis.o"), ["-DPFX=cc_"], cwd=wd)
                return True if good else (stage, st, err, twin.PRELUDE + u)
            bad = _bisect(cur, ok)
            if not bad:
                raise core.HarnessError("chibicc rejects batch %s but no single case: %s" % (name, res["stderr"][-800:]))
            cc_rej += bad
            drop = set(id(c) for c, _ in bad)
            cur = [c for c in cur if id(c) not in drop]
        elif res.get("stage") == "gcc-unit":
            def ok(cs):
                u = build(cs)[0]
                p = os.path.join(wd, name + "_bis.c")
                with open(p, "w") as f:
                    f.write(twin.PRELUDE + u)
                good, err = twin.ref_compile(p, os.path.join(wd, name + "_bis.o"), ["-DPFX=ref_"], cwd=wd)
                return True if good else err
            bad = _bisect(cur, ok)
            if not bad:
                raise core.HarnessError("gcc rejects batch %s but no single case: %s" % (name, res["stderr"][-800:]))
            ref_rej += [c for c, _ in bad]
            drop = set(id(c) for c, _ in bad)
            cur = [c for c in cur if id(c) not in drop]
        else:
            raise core.HarnessError("driver of batch %s does not build: %s" % (name, res["stderr"][-1500:]))
    raise core.HarnessError("batch %s still does not build after removing rejected cases" % name)


# ---------------------------------------------------------------------------------------------------------
# (a) statement trees
# ---------------------------------------------------------------------------------------------------------
ALLOPS = {"and", "or", "cond", "elvis", "comma", "not", "se"}
# the typed tape bits Cc/Cl/Cf/Cd/Cld/Cp (one per class of truth test: 8/32-bit integer, 64-bit integer, float, double,
# long double, pointer) are operands costing 1, like T()/Z()
FULL = {"empty": 1, "ret": 1, "goto": 1, "cgoto": 1, "label": 1, "for": (0, 1, 2), "fornocond": 1, "blk3": 1,
        "switch": trees.SWITCH_SHAPES, "exprs": ALLOPS, "exprleaves": 1, "tleaves": trees.TYPED_LEAVES}
# mixed operand types: every condition leaf is C() or any typed tape bit at no cost, so size 1 holds every condition
# context (if, if/else, while, do, for, !, ?: condition, GNU ?:, both sides of && and ||, comma, statement expression) with
# every operand type and every PAIR (triple for ?:) of operand types; size 2 every nesting of two such forms
TYPED = {"for": (0,), "noblk": 1, "exprs": ALLOPS, "tleaves": trees.TYPED_LEAVES, "tfree": 1}
# Duff's device: switch with a free-form body; case/default labels (<= 3, every shape) on any statement at any depth of
# if/else, while, do, for, compound and labelled statements, plus break/continue/return/goto
DUFF = {"swd": 1, "for": (1,), "ret": 1, "goto": 1, "label": 1}
DUFFDEEP = {"swd": 1, "for": (1,)}
# reduced alphabet for the largest size: no 3-child compounds, one for-variant, three switch shapes, no T/Z operands
CORE = {"ret": 1, "goto": 1, "label": 1, "for": (2,), "switch": [(0, "d"), ("d", 0, 1), (0, 1, 2)],
        "exprs": {"and", "or", "cond", "elvis", "comma", "se"}}
# loops, compound, if, one switch shape, break/continue (+ return/goto/labels): the jump-target bookkeeping, one size deeper
LOOPS = {"for": (1,), "switch": [(0, "d")]}
LOOPSGOTO = {"ret": 1, "goto": 1, "label": 1, "for": (1,), "switch": [(0, "d")]}
# label NAME space: programs of goto / computed goto / if / compound / return with >= 2 labels, each with every ordered selection
# of label names from trees.LABEL_NAMES (prefixes, suffixes, case variants of each other, names differing in the 63rd character):
# definition order = textual order, so every related pair of names occurs in both definition orders and as target of goto and &&
NAMED = {"goto": 1, "cgoto": 1, "label": 1, "ret": 1, "blk3": 1, "noloops": 1, "names": 1}
# operands that must NOT be evaluated, where evaluation is observable only by a trap: every leaf of every condition context and
# expression form ranges over C(), the trapping operands (null-pointer dereference, index into an unmapped page, division by a
# run-time zero - each valid only after the tape bit of its polarity), and pure operands (constant, global, sizeof of a trapping
# operand) at no cost; TRAP2 = one nesting level deeper over a reduced operand set
TRAP = {"for": (0,), "noblk": 1, "exprs": ALLOPS, "trapleaves": trees.TRAP_LEAVES}
TRAP2 = {"for": (0,), "noblk": 1, "exprs": ALLOPS, "trapleaves": ("Dp1", "Dp0", "G")}
TRAP2T = {"for": (0,), "noblk": 1, "exprs": ALLOPS, "trapleaves": ("Dp1", "Dp0", "Dx1", "Dv0", "G")}
# dead code: a statement that traps when executed, after / around every jump (only programs containing it are kept)
DEAD = {"ret": 1, "goto": 1, "label": 1, "blk3": 1, "for": (1,), "switch": [(0, "d")], "trapstmt": 1, "only": "X"}
TREE_LAYERS = {
    "quick": [("full", FULL, (0, 1, 2, 3), 4), ("loops+goto", LOOPSGOTO, (4,), 4), ("typed", TYPED, (1,), 4), ("duff", DUFF, (1, 2, 3), 4),
              ("names", NAMED, (3, 4), 4), ("trap", TRAP, (1,), 4), ("trap2", TRAP2, (2,), 4), ("dead", DEAD, (2, 3), 4)],
    "thorough": [("full", FULL, (0, 1, 2, 3), 6), ("core", CORE, (4,), 5), ("loops", LOOPS, (5,), 5), ("typed", TYPED, (1, 2), 5),
                 ("duff", DUFF, (1, 2, 3), 6), ("duffdeep", DUFFDEEP, (4,), 5),
                 ("names", NAMED, (3, 4, 5), 5), ("trap", TRAP, (1,), 5), ("trap2", TRAP2T, (2,), 5), ("dead", DEAD, (2, 3, 4), 5)],
}
TREE_DECL = ("int T(int); int Z(int); int C(void); int C2(void); int SEL(int); void V(long);\n" + trees.LEAF_DECL + "\n" +
             trees.TRAP_DECL + "\n")

PROGS = []        # filled in the parent before workers are forked: (layer name, L, tree)


def enum_trees(tier):
    out = []
    for name, al, sizes, L in TREE_LAYERS[tier]:
        g = trees.Gen(al)
        for n in sizes:
            for p in g.programs(n):
                if "only" in al and not trees._count(p, al["only"]):
                    continue
                if "names" in al:
                    if not (trees._count(p, "goto") or trees._count(p, "cgoto")):
                        continue
                    # sizes <= 4: all 7 names for two labels (thorough: also for three), size 5: the 4 core names
                    for nm in trees.name_tuples(trees.count_labels(p), 0 if n > 4 else 1 if tier == "quick" else 2):
                        out.append((name, L, trees.name_labels(p, nm)))
                    continue
                out.append((name, L, p))
    # small (specialised) layers first: if the deadline stops the enumeration on an overloaded machine, what is cut is the
    # tail of the largest generic layer, not a whole dimension
    cnt = {}
    for q in out:
        cnt[q[0]] = cnt.get(q[0], 0) + 1
    order = dict((nm, k) for k, nm in enumerate(sorted(cnt, key=lambda nm: (cnt[nm], nm))))
    out.sort(key=lambda q: order[q[0]])          # stable: the order inside a layer is kept
    return out


def build_tree_batch(progs):
    """progs: list of (L, tree) -> unit text, (dummy) driver text, {table.bin}"""
    rows, u, meta = [], [TREE_DECL], []
    for i, (L, t) in enumerate(progs):
        e = trees.Emit(t, rows)
        u.append(e.function("FN(p%d)" % i))
        meta.append((e.root, L))
    u.append("void (*FN(tab)[])(void) = {%s};" % ", ".join("FN(p%d)" % i for i in range(len(progs))))
    u.append("int FN(ntab) = %d;" % len(progs))
    return "\n".join(u) + "\n", "int c03_unused;\n", {"table.bin": trees.table_file(meta, rows)}


TREE_DRV_OBJ = None     # harness/c03_tree_driver.c compiled once per run (set in the parent before forking)


def _tree_worker(args):
    chibicc, wd, name, lo, hi = args
    progs = [(L, t) for (_, L, t) in PROGS[lo:hi]]
    res, kept, cc_rej, ref_rej = robust_twin(chibicc, wd, name, progs, build_tree_batch, extra_units=[TREE_DRV_OBJ])
    out = res["stdout"] if res else ""
    code = res["code"] if res else 0
    err = res["stderr"][-500:] if res else ""
    return name, code, out, err, kept, [(c, r[:3]) for c, r in cc_rej], ref_rej


def _fail_worker(args):
    """compile+run a list of (L, tree) and return the set of indices whose chibicc trace differs"""
    chibicc, wd, name, progs = args
    res, kept, cc_rej, ref_rej = robust_twin(chibicc, wd, name, progs, build_tree_batch, extra_units=[TREE_DRV_OBJ])
    failing = {}
    if res:
        for m in re.finditer(r"^V (\d+) (tape=\S* want=\S+ got=\S+)", res["stdout"], re.M):
            failing[id(kept[int(m.group(1))])] = m.group(2)
    rejected = set(id(c) for c, _ in cc_rej)
    return [(failing.get(id(p)), id(p) in rejected) for p in progs]


def deviation_class(line):
    m = re.search(r"want=(\S*)/(\d) got=(\S*)/(\d)", line)
    if not m:
        return "differs"
    w, we, g, ge = m.group(1), int(m.group(2)), m.group(3), int(m.group(4))
    if ge == 4: return "no-progress"
    if ge == 5: return "signal"
    wl = w.split(",") if w else []
    gl = g.split(",") if g else []
    k = 0
    while k < len(wl) and k < len(gl) and wl[k] == gl[k]:
        k += 1
    if k == len(gl) and k < len(wl): return "stops-early"
    if k == len(wl) and k < len(gl): return "runs-on"
    if k == len(wl) and k == len(gl): return "end-state"
    def cls(x):
        x = int(x)
        return "V" if x >= 2000 else "S" if x >= 1020 else "C" if x >= 1000 else "T"
    return "diverges:want=%s,got=%s" % (cls(wl[k]), cls(gl[k]))


TREE_REPLAY = ("$CHIBICC -DPFX=cc_ -c -o cc.o unit.c || exit 1\n"
               "gcc -O0 -w -std=gnu11 -fno-pie -DPFX=ref_ -c -o ref.o unit.c || exit 0\n"
               "gcc -O1 -w -std=gnu11 -fno-pie -no-pie -o drv $VERIF/harness/c03_tree_driver.c cc.o ref.o -Wl,-z,noexecstack || exit 0\n"
               "./drv > out.txt; grep -q '^O ' out.txt && exit 0; grep -q '^V ' out.txt && exit 1\nexit 0")


def tree_files(L, t):
    u, d, files = build_tree_batch([(L, t)])
    return {"unit.c": twin.PRELUDE + u, "table.bin": files["table.bin"], "program.txt": trees.Emit(t).function("p") + "\n"}


def shrink_failures(ctx, failing):
    """failing: list of (L, tree, line).  Bulk delta-debugging: every round compiles all one-step reductions of all
    still-shrinking programs in shared units and keeps, per program, the first (smallest) reduction that still fails."""
    cur = [(L, t, line) for (L, t, line) in failing]
    done = [None] * len(cur)
    active = list(range(len(cur)))
    cache = {}
    rnd = 0
    while active and rnd < 12:
        rnd += 1
        cand = {}
        for i in active:
            L, t, line = cur[i]
            cand[i] = [c for c in trees.shrink_candidates(t)]
        need = []
        seen = set()
        for i in active:
            for c in cand[i]:
                key = (cur[i][0], c)
                if key not in cache and key not in seen:
                    seen.add(key); need.append(key)
        batches = core.chunks(need, 600)
        wd = ctx.mkdir("shrink")
        args = [(ctx.chibicc, os.path.join(wd, "r%d_%d" % (rnd, k)), "s", b) for k, b in enumerate(batches)]
        for b, resl in zip(batches, core.pmap(_fail_worker, args)):
            for key, (line, rej) in zip(b, resl):
                cache[key] = line
        nxt = []
        for i in active:
            L, t, line = cur[i]
            for c in cand[i]:
                l2 = cache.get((L, c))
                if l2:
                    cur[i] = (L, c, l2)
                    nxt.append(i)
                    break
            else:
                done[i] = cur[i]
        active = nxt
    for i in active:
        done[i] = cur[i]
    return done


def build_driver(ctx, src):
    obj = os.path.join(ctx.mkdir("drv"), os.path.basename(src)[:-2] + ".o")
    st, out, err = core.run_limited(twin.GCC_DRV + ["-c", "-o", obj, os.path.join(core.VERIF, "harness", src)], timeout=120)
    if st != 0:
        raise core.HarnessError("cannot build %s: %s" % (src, err[-1000:]))
    return obj


def run_trees(ctx):
    global PROGS, TREE_DRV_OBJ
    TREE_DRV_OBJ = build_driver(ctx, "c03_tree_driver.c")
    PROGS = enum_trees(ctx.tier)
    total = len(PROGS)
    bad_gen = sum(1 for (_, _, t) in PROGS[::97] if not trees.valid(t))
    if bad_gen:
        raise core.HarnessError("generator produced %d statically invalid trees" % bad_gen)
    per = 700
    ranges = [(lo, min(lo + per, total)) for lo in range(0, total, per)]
    if ctx.seed:
        import random
        random.Random(ctx.seed).shuffle(ranges)
    wd = ctx.mkdir("trees")
    args = [(ctx.chibicc, os.path.join(wd, "b%d" % i), "t", lo, hi) for i, (lo, hi) in enumerate(ranges)]
    tot = dict(runs=0, judged=0, silent=0, odis=0, paths=0, budget=0, nontrivial=0, undef=0)
    failing, rejected, ref_rejected = [], [], 0
    done = 0
    for grp in core.chunks(args, core.NPROC * 2):
        if ctx.out_of_time(reserve=120 + BUDGET[ctx.tier] // 4):      # leave a quarter of the budget to the scope part
            ctx.incomplete("trees: deadline after %d of %d programs" % (done, total))
            break
        for name, code, out, err, kept, cc_rej, ref_rej in core.pmap(_tree_worker, grp):
            done += len(kept) + len(cc_rej) + len(ref_rej)
            ref_rejected += len(ref_rej)
            for c, r in cc_rej:
                rejected.append((c, r))
            if not kept:
                continue
            if code != 0:
                raise core.HarnessError("tree driver failed: code=%s %s %s" % (code, err, out[-300:]))
            m = re.search(r"^S runs=(\d+) judged=(\d+) silent=(\d+) odis=(\d+) paths=(\d+) budget=(\d+) nontrivial=(\d+) undef=(\d+)", out, re.M)
            if not m:
                raise core.HarnessError("no summary from tree driver")
            for k, v in zip(("runs", "judged", "silent", "odis", "paths", "budget", "nontrivial", "undef"), m.groups()):
                tot[k] += int(v)
            for line in out.splitlines():
                if line.startswith("O "):
                    i = int(line.split()[1])
                    ctx.sample({"oracle_disagreement": line, "program": trees.Emit(kept[i][1]).function("p")}, limit=8)
                elif line.startswith("V "):
                    i = int(line.split()[1])
                    failing.append((kept[i][0], kept[i][1], line.split(" ", 2)[2]))
    if tot["odis"]:
        raise core.HarnessError("trees: reference interpreter and gcc disagree on %d runs (see evidence samples) - fix the model" % tot["odis"])
    for (L, t), (stage, st, err) in rejected[:50]:
        first = (err.strip().splitlines() or [""])[0][:160]
        u = build_tree_batch([(L, t)])[0]
        ctx.violation("C03|tree|%s|rejected:%s:%s" % (trees.canon(t), stage, st), "valid program rejected by chibicc (%s): %s -- %s" % (stage, trees.Emit(t).function("p"), first),
                      files={"unit.c": twin.PRELUDE + u}, replay="$CHIBICC -DPFX=cc_ -c -o cc.o unit.c && exit 0; exit 1")
    # shrink failing programs (smallest first, bounded) so that one root cause gives one signature
    failing.sort(key=lambda x: (trees.size(x[1]), trees.canon(x[1])))
    CAP = 1500
    shr = shrink_failures(ctx, failing[:CAP]) if failing else []
    classes = {}
    for (L, t, line), (L0, t0, line0) in zip(shr, failing):
        sig = "C03|tree|%s|%s" % (trees.canon(t), deviation_class(line))
        classes.setdefault(sig, []).append((L, t, line, t0))
    for sig, lst in sorted(classes.items()):
        L, t, line, t0 = lst[0]
        for _ in lst:
            ctx.violation(sig, "trace differs from C abstract machine (interpreter == gcc): %s  %s  [%d enumerated programs shrink to this one; first: %s]"
                          % (trees.Emit(t).function("p"), line, len(lst), trees.Emit(t0).function("p")), files=tree_files(L, t), replay=TREE_REPLAY)
    ctx.cover(tree_condition_operand_types="int C(), char, long (high bits only), float, double (-0.0 false), long double, pointer (high bits only)",
              tree_programs=done, tree_runs=tot["runs"], tree_runs_judged=tot["judged"], tree_paths=tot["paths"], tree_budget_cut_paths=tot["budget"],
              tree_nontrivial_programs=tot["nontrivial"], skipped_silent_loop_runs=tot["silent"], skipped_undefined=tot["undef"],
              tree_label_names="layer names: every program of goto / computed goto / if / compound / return with >= 2 labels x every ordered "
                               "selection of label names from %s (size 5 and 4 labels: the first 4; quick 3 labels: the first 4): prefixes, suffixes, "
                               "case variants, names differing only in the 63rd character, in both definition orders, as goto and && targets"
                               % ",".join(n if len(n) < 20 else n[:4] + ".." + n[-4:] for n in trees.LABEL_NAMES),
              tree_trap_operands="layers trap / trap2: every leaf of if, if/else, while, do, for, V() x && || ?: GNU-?: , ! ({}) ranges over C() and "
                                 "the operands %s (evaluation observable only by SIGSEGV / SIGFPE; a run on which the abstract machine evaluates an "
                                 "invalid one is undefined and skipped); layer dead: a trapping statement `gsink = *gnull;` in every position of "
                                 "programs with goto / return / break / continue / switch / loops (kept: programs containing it)"
                                 % ", ".join("%s `%s`" % (k, v[0]) for k, v in trees.TRAP_TEXT.items()),
              tree_failing_programs=len(failing),
              tree_failing_unshrunk=max(0, len(failing) - CAP), ref_rejected=ref_rejected, cc_rejected=len(rejected),
              tree_layers="; ".join("%s sizes %s L=%d: %d programs" % (n, list(s), L, sum(1 for q in PROGS if q[0] == n)) for n, a, s, L in TREE_LAYERS[ctx.tier]))
    if ctx.exhaustive and any(q[0] == "trap" for q in PROGS) and not 0 < tot["undef"] < tot["runs"] // 4:
        raise core.HarnessError("trees: trapping operands degenerate (%d undefined runs of %d)" % (tot["undef"], tot["runs"]))
    if ctx.exhaustive and (tot["judged"] < done or tot["nontrivial"] * 3 < done):
        raise core.HarnessError("trees: vacuous (%d programs, %d judged runs, %d non-trivial)" % (done, tot["judged"], tot["nontrivial"]))
    for k in (1, len(PROGS) // 2, len(PROGS) - 1):
        ctx.sample({"tree_program": trees.Emit(PROGS[k][2]).function("p"), "layer": PROGS[k][0], "tape_bound": PROGS[k][1]}, limit=12)
    return done, tot


# ---------------------------------------------------------------------------------------------------------
# (b) switch lowering
# ---------------------------------------------------------------------------------------------------------
import struct

# name, C spelling, bits, signed
SW_TYPES = [("char", "char", 8, True), ("uchar", "unsigned char", 8, False), ("short", "short", 16, True), ("int", "int", 32, True),
            ("uint", "unsigned", 32, False), ("long", "long", 64, True), ("ulong", "unsigned long", 64, False),
            ("enum", "enum FN(E)", 32, True)]       # enum E has a negative enumerator: compatible type int for gcc and chibicc
SW_DECL = "enum FN(E) { FN(EN) = -1, FN(EP) = 1 };\n"


def wrap(v, bits, signed):
    v &= (1 << bits) - 1
    if signed and v >> (bits - 1):
        v -= 1 << bits
    return v


def promoted(bits, signed):
    return (32, True) if bits < 32 else (bits, signed)


def pool(bits, signed):
    """threshold label values (name, mathematical value) for a controlling type"""
    lo = -(1 << (bits - 1)) if signed else 0
    hi = (1 << (bits - 1)) - 1 if signed else (1 << bits) - 1
    out, seen = [], set()
    for name, v in (("MIN", lo), ("-1", -1), ("0", 0), ("1", 1), ("255", 255), ("256", 256), ("2^31-1", 2 ** 31 - 1), ("2^31", 2 ** 31),
                    ("2^32", 2 ** 32), ("2^32+1", 2 ** 32 + 1), ("MAX", hi)):
        if v not in seen:
            seen.add(v); out.append((name, v))
    return out


def c_const(v):
    if v == -(1 << 63): return "(-9223372036854775807L-1)"
    if v >= (1 << 63): return "%dUL" % v
    if -(1 << 31) < v < (1 << 31): return "%d" % v
    if v == -(1 << 31): return "(-2147483647-1)"
    return "%dL" % v


class SwCase:
    """items: list of ('c', (name, v)) or ('r', (name, lo), (name, hi)) in textual order; dflt: section index of default or None"""
    def __init__(self, ty, ctl, items, dflt, dense=False):
        self.ty, self.ctl, self.items, self.dflt, self.dense = ty, ctl, items, dflt, dense

    def sections(self):
        secs = [("item", it) for it in self.items]
        if self.dflt is not None:
            secs.insert(self.dflt, ("default", None))
        return secs

    def cid(self):
        def it(x):
            return x[1][0] if x[0] == "c" else "%s...%s" % (x[1][0], x[2][0])
        return "%s/%s/%s" % (self.ty[0], self.ctl, ",".join("default" if k == "default" else it(x) for k, x in self.sections()))

    def source(self, name):
        T = self.ty[1]
        body = []
        for j, (k, x) in enumerate(self.sections()):
            if k == "default": lab = "default"
            elif x[0] == "c": lab = "case %s" % c_const(x[1][1])
            else: lab = "case %s ... %s" % (c_const(x[1][1]), c_const(x[2][1]))
            body.append("%s: r = r * %d + %d;" % (lab, self.mult(), j + 1))
        ctl = "v" if self.ctl == "var" else "(%s)sel" % T
        return "long %s(long sel) { %s v = (%s)sel; %s r = 1; switch (%s) { %s } return (long)r + 0 * (long)v; }" % (
            name, T, T, "unsigned long" if self.dense else "long", ctl, " ".join(body))

    def mult(self):
        """sections entered at j and falling through give r = fold(r * mult + k): base 8 digits for the small sets; the shape family
        (up to 1100 sections) folds modulo 2^64 with an odd multiplier (unsigned long r), so no section is shifted out"""
        return 1000003 if self.dense else 8

    def result(self, entry):
        r = 1
        if entry is not None:
            for j in range(entry, len(self.sections())):
                r = r * self.mult() + j + 1
                if self.dense: r &= (1 << 64) - 1
        return wrap(r, 64, True)

    def model(self, sel):
        """C11 6.8.4.2p5: labels converted to the promoted type of the controlling expression; returns (result, entry section or None)"""
        bits, signed = self.ty[2], self.ty[3]
        pb, ps = promoted(bits, signed)
        pv = wrap(sel, bits, signed)              # (T)sel, then promotion preserves the value
        secs = self.sections()
        entry = None
        for j, (k, x) in enumerate(secs):
            if k == "default": continue
            if x[0] == "c":
                if wrap(x[1][1], pb, ps) == pv: entry = j
            elif wrap(x[1][1], pb, ps) <= pv <= wrap(x[2][1], pb, ps): entry = j
        if entry is None and self.dflt is not None:
            entry = self.dflt
        return self.result(entry), entry

    def selectors(self):
        bits, signed = self.ty[2], self.ty[3]
        pb, ps = promoted(bits, signed)
        out, seen = [], set()
        def add(v):
            v = wrap(v, 64, True)
            if v not in seen:
                seen.add(v); out.append(v)
        add(0)
        for x in self.items:
            for b in x[1:]:
                for d in (-1, 0, 1):
                    add(b[1] + d); add(wrap(b[1], pb, ps) + d)
        if self.dense:          # shape family: EVERY value from the smallest label - 2 to the largest + 2, all holes included
            conv = [wrap(b[1], pb, ps) for x in self.items for b in x[1:]]
            if max(conv) - min(conv) <= 3000:
                for v in range(min(conv) - 2, max(conv) + 3):
                    add(v)
        return out

    def shrinks(self):
        out = []
        n = len(self.items)
        def without(lo, hi):            # drop items[lo:hi]; the default keeps its place among the remaining sections
            d = self.dflt
            if d is not None:
                d = d - (hi - lo) if d >= hi else lo if d > lo else d
            return SwCase(self.ty, self.ctl, self.items[:lo] + self.items[hi:], d, self.dense)
        if n > 4:                       # large label sets: halves and quarters first
            for k in (2, 4):
                for q in range(k):
                    if n * q // k < n * (q + 1) // k < n or q:
                        out.append(without(n * q // k, n * (q + 1) // k))
        if self.dflt is not None:
            out.append(SwCase(self.ty, self.ctl, self.items, None, self.dense))
        if n > 1:
            for j in range(n):
                out.append(without(j, j + 1))
        for j, x in enumerate(self.items):
            if x[0] == "r":
                out.append(SwCase(self.ty, self.ctl, self.items[:j] + [("c", x[1])] + self.items[j + 1:], self.dflt, self.dense))
                out.append(SwCase(self.ty, self.ctl, self.items[:j] + [("c", x[2])] + self.items[j + 1:], self.dflt, self.dense))
        return [c for c in out if c.items]


# SHAPE family: switch lowering as a function of the shape of the label set.  A label set is base + stride * p for p in a
# subset of a window {0..W-1} that contains 0: all 2^(W-1) subsets = every shape with 1..W labels (dense run, one hole at every
# position, several holes, sparse) x (controlling type, base, stride) x default none / at every position (quick: none / first /
# middle / last) x textual order of the labels (thorough: also descending and interleaved); plus BIG label sets (dense, one
# hole, two holes, every other value).  Selectors: every value from the smallest label - 2 to the largest + 2.
SHAPE_W = {"quick": 8, "thorough": 9}
SHAPE_CFG = {
    "quick": [("int", 0, 1), ("int", -3, 1), ("int", 0, 3), ("char", -4, 1), ("uchar", 250, 1), ("short", 32764, 1), ("uint", 2 ** 31 - 4, 1),
              ("long", 2 ** 32 - 4, 1), ("long", -3, 2), ("ulong", 2 ** 63 - 4, 1), ("enum", -1, 1)],
    "thorough": [("int", 0, 1), ("int", -3, 1), ("int", 0, 2), ("int", 0, 3), ("int", 2 ** 31 - 9, 1), ("char", -4, 1), ("char", 120, 1),
                 ("uchar", 250, 1), ("short", 32764, 1), ("short", -5, 3), ("uint", 2 ** 31 - 4, 1), ("uint", 2 ** 32 - 9, 1),
                 ("long", 2 ** 32 - 4, 1), ("long", -3, 2), ("long", -2 ** 31 - 4, 1), ("long", 2 ** 63 - 9, 1), ("ulong", 2 ** 63 - 4, 1),
                 ("ulong", 2 ** 64 - 9, 1), ("enum", -1, 1)],
}
BIG_N = {"quick": (16, 64, 300), "thorough": (16, 17, 33, 64, 256, 300, 1100)}
BIG_CFG = [("int", -5), ("long", 2 ** 32 - 8), ("ulong", 2 ** 63 - 8)]


def enum_shapes(tier):
    TY = dict((t[0], t) for t in SW_TYPES)
    out = []
    def mk(ty, vals, d, order="asc"):
        its = [("c", (str(v), v)) for v in vals]
        if order == "desc": its.reverse()
        elif order == "mix": its = its[1::2] + its[0::2]
        return SwCase(ty, "var", its, d, True)
    W = SHAPE_W[tier]
    for tn, base, stride in SHAPE_CFG[tier]:
        for m in range(1, 1 << W, 2):
            vals = [base + stride * p for p in range(W) if m >> p & 1]
            n = len(vals)
            dpos = sorted(set([0, n // 2, n])) if tier == "quick" else list(range(n + 1))
            for d in [None] + dpos:
                out.append(mk(TY[tn], vals, d))
            if tier != "quick" and n > 1:
                for order in ("desc", "mix"):
                    for d in (None, n):
                        out.append(mk(TY[tn], vals, d, order))
    for tn, base in BIG_CFG:
        for n in BIG_N[tier]:
            shapes = [list(range(n)), [p for p in range(n + 1) if p != n // 2], [p for p in range(n + 2) if p not in (1, n - 1)],
                      list(range(0, 2 * n, 2))]
            for sh in shapes:
                for d in (None, len(sh)):
                    out.append(mk(TY[tn], [base + p for p in sh], d))
    seen, uniq = set(), []
    for c in out:                   # the same label set can arise from two strides
        if c.cid() not in seen:
            seen.add(c.cid()); uniq.append(c)
    for c in uniq[::37]:            # the fold must tell every entry point apart
        rs = [c.result(j) for j in [None] + list(range(len(c.sections())))]
        if len(set(rs)) != len(rs):
            raise core.HarnessError("switch shapes: result fold is not injective for " + c.cid()[:80])
    return uniq


def enum_switch(tier):
    maxk = 2 if tier == "quick" else 3
    cases, collide = [], 0
    for ty in SW_TYPES:
        pb, ps = promoted(ty[2], ty[3])
        P = pool(ty[2], ty[3])
        for k in range(1, maxk + 1):
            for combo in itertools.combinations(P, k):
                conv = [wrap(v, pb, ps) for _, v in combo]
                if len(set(conv)) != k:
                    collide += 1          # gcc rejects duplicate case values (after conversion)
                    continue
                srt = [c for _, c in sorted(zip(conv, combo), key=lambda z: z[0])]
                forms = [[("c", x) for x in srt]]
                if k == 1: forms.append([("r", srt[0], srt[0])])
                if k == 2: forms.append([("r", srt[0], srt[1])])
                if k == 3:
                    forms.append([("r", srt[0], srt[1]), ("c", srt[2])]); forms.append([("c", srt[0]), ("r", srt[1], srt[2])])
                orders = [False] if tier == "quick" else [False, True]
                for items in forms:
                    for rev in orders:
                        its = list(reversed(items)) if rev else items
                        if rev and len(its) == 1: continue
                        dpos = [None, 0, len(its)] if tier == "quick" else [None] + list(range(len(its) + 1))
                        for d in dpos:
                            for ctl in (("var",) if tier == "quick" and d not in (None, 0) else ("var", "cast")):
                                cases.append(SwCase(ty, ctl, its, d))
    return cases + enum_shapes(tier), collide


def build_switch_batch(cases):
    u = [SW_DECL]
    tab = [struct.pack("<q", len(cases))]
    for i, c in enumerate(cases):
        u.append(c.source("FN(s%d)" % i))
        sels = c.selectors()
        want = [c.model(s)[0] for s in sels]
        tab.append(struct.pack("<q%dq%dq" % (len(sels), len(sels)), len(sels), *(sels + want)))
    u.append("long (*FN(stab)[])(long) = {%s};" % ", ".join("FN(s%d)" % i for i in range(len(cases))))
    u.append("int FN(nstab) = %d;" % len(cases))
    return "\n".join(u) + "\n", "int c03_unused;\n", {"table.bin": b"".join(tab)}


SW_DRV_OBJ = None
SW_CASES = []


def _switch_worker(args):
    chibicc, wd, name, lo, hi = args
    cases = SW_CASES[lo:hi]
    res, kept, cc_rej, ref_rej = robust_twin(chibicc, wd, name, cases, build_switch_batch, extra_units=[SW_DRV_OBJ])
    idx = dict((id(c), lo + i) for i, c in enumerate(cases))
    return (res["code"] if res else 0, res["stdout"] if res else "", res["stderr"][-500:] if res else "", [idx[id(c)] for c in kept],
            [(idx[id(c)], r[:3]) for c, r in cc_rej], [idx[id(c)] for c in ref_rej])


def _switch_fail_worker(args):
    chibicc, wd, name, cases = args
    res, kept, cc_rej, ref_rej = robust_twin(chibicc, wd, name, cases, build_switch_batch, extra_units=[SW_DRV_OBJ])
    st = {}
    if res:
        for m in re.finditer(r"^V (\d+) sel=(-?\d+) want=(\d+) got=(\S+)", res["stdout"], re.M):
            st[id(kept[int(m.group(1))])] = ("V", int(m.group(2)), m.group(4))
    for c, r in cc_rej:
        st[id(c)] = ("R", r[0], r[1])
    return [st.get(id(c)) for c in cases]


def switch_sig(c, status):
    def it(k, x):
        if k is None: return "none"
        if k == "default": return "default"
        def cls(b):         # value class: the root causes seen so far depend only on whether a label fits in int
            return "int" if -(1 << 31) <= b[1] < (1 << 31) else "wide"
        return "case:" + cls(x[1]) if x[0] == "c" else "range:%s...%s" % (cls(x[1]), cls(x[2]))
    secs = c.sections()
    def seclist():                  # runs of more than 4 equal section classes are written class*N
        out = []
        for k, x in secs:
            n = it(k, x)
            if out and out[-1][0] == n: out[-1][1] += 1
            else: out.append([n, 1])
        return ",".join(",".join([n] * k) if k <= 4 else "%s*%d" % (n, k) for n, k in out)
    if status[0] == "R":
        return "C03|switch|%s|%s|rejected:%s:%s" % (c.ty[0], seclist(), status[1], status[2])
    sel, got = status[1], status[2]
    want, entry = c.model(sel)
    w = it(*secs[entry]) if entry is not None else "none"
    g = "signal" if got == "signal" else "invalid"
    if got != "signal":
        for j in [None] + list(range(len(secs))):
            r = c.result(j)
            if r == int(got):
                g = it(*secs[j]) if j is not None else "none"
    return "C03|switch|%s|%s|enters:%s,want:%s" % (c.ty[0], seclist(), g, w)


SW_REPLAY = ("$CHIBICC -DPFX=cc_ -c -o cc.o unit.c || exit 1\n"
             "gcc -O0 -w -std=gnu11 -fno-pie -DPFX=ref_ -c -o ref.o unit.c || exit 0\n"
             "gcc -O1 -w -std=gnu11 -fno-pie -no-pie -o drv $VERIF/harness/c03_switch_driver.c cc.o ref.o -Wl,-z,noexecstack || exit 0\n"
             "./drv > out.txt; grep -q '^O ' out.txt && exit 0; grep -q '^V ' out.txt && exit 1\nexit 0")


def run_switch(ctx):
    global SW_DRV_OBJ, SW_CASES
    SW_DRV_OBJ = build_driver(ctx, "c03_switch_driver.c")
    SW_CASES, collide = enum_switch(ctx.tier)
    total = len(SW_CASES)
    per = 250
    wd = ctx.mkdir("switch")
    args = [(ctx.chibicc, os.path.join(wd, "b%d" % i), "s", lo, min(lo + per, total)) for i, lo in enumerate(range(0, total, per))]
    if ctx.seed:
        import random
        random.Random(ctx.seed).shuffle(args)
    tot = dict(evals=0, judged=0, odis=0, nontrivial=0)
    failing, ref_rejected, done = [], 0, 0
    for grp in core.chunks(args, core.NPROC * 2):
        if ctx.out_of_time(reserve=120):
            ctx.incomplete("switch: deadline after %d of %d cases" % (done, total))
            break
        for code, out, err, kept, cc_rej, ref_rej in core.pmap(_switch_worker, grp):
            done += len(kept) + len(cc_rej) + len(ref_rej)
            ref_rejected += len(ref_rej)
            for i in ref_rej:
                ctx.sample({"ref_rejected": SW_CASES[i].source("s")}, limit=10)
            for i, r in cc_rej:
                failing.append((SW_CASES[i], ("R", r[0], r[1])))
            if not kept:
                continue
            if code != 0:
                raise core.HarnessError("switch driver failed: code=%s %s" % (code, err))
            m = re.search(r"^S evals=(\d+) judged=(\d+) odis=(\d+) nontrivial=(\d+)", out, re.M)
            if not m:
                raise core.HarnessError("no summary from switch driver")
            for k, v in zip(("evals", "judged", "odis", "nontrivial"), m.groups()):
                tot[k] += int(v)
            for mm in re.finditer(r"^O (\d+) (.*)", out, re.M):
                ctx.sample({"oracle_disagreement": mm.group(2), "case": SW_CASES[kept[int(mm.group(1))]].source("s")}, limit=10)
            for mm in re.finditer(r"^V (\d+) sel=(-?\d+) want=(\d+) got=(\S+)", out, re.M):
                failing.append((SW_CASES[kept[int(mm.group(1))]], ("V", int(mm.group(2)), mm.group(4))))
    if tot["odis"]:
        raise core.HarnessError("switch: model and gcc disagree on %d evaluations (see evidence samples)" % tot["odis"])
    if ref_rejected:
        raise core.HarnessError("switch: gcc rejected %d generated cases (the generator must only emit valid label sets)" % ref_rejected)
    # shrink failing cases (remove default / items, range -> single bound) while they still fail, in bulk
    failing.sort(key=lambda x: (len(x[0].sections()), x[0].cid()))
    CAP = 3000
    cur = list(failing[:CAP])
    active = list(range(len(cur)))
    cache = {}
    rnd = 0
    while active and rnd < 8:
        rnd += 1
        cand = dict((i, cur[i][0].shrinks()) for i in active)
        need, seen = [], set()
        for i in active:
            for c in cand[i]:
                if c.cid() not in cache and c.cid() not in seen:
                    seen.add(c.cid()); need.append(c)
        batches = core.chunks(need, 120)
        a2 = [(ctx.chibicc, os.path.join(wd, "r%d_%d" % (rnd, k)), "s", b) for k, b in enumerate(batches)]
        for b, resl in zip(batches, core.pmap(_switch_fail_worker, a2)):
            for c, st in zip(b, resl):
                cache[c.cid()] = st
        nxt = []
        for i in active:
            for c in cand[i]:
                st = cache.get(c.cid())
                if st and st[0] == cur[i][1][0]:       # same kind of failure (wrong value / rejected)
                    cur[i] = (c, st); nxt.append(i)
                    break
        active = nxt
    groups = {}
    for (c, st), (c0, st0) in zip(cur, failing):
        groups.setdefault(switch_sig(c, st), []).append((c, st, c0))
    for sig, lst in sorted(groups.items()):
        c, st, c0 = lst[0]
        u, d, files = build_switch_batch([c])
        if st[0] == "R":
            desc = "valid switch rejected (%s status %s): %s" % (st[1], st[2], c.source("s"))
            rp = "$CHIBICC -DPFX=cc_ -c -o cc.o unit.c && exit 0; exit 1"
        else:
            desc = "switch enters the wrong section: %s  selector %d: want %s got %s" % (c.source("s"), st[1], c.model(st[1])[0], st[2])
            rp = SW_REPLAY
        desc += "  [%d enumerated cases shrink to this one; first: %s]" % (len(lst), c0.cid())
        for _ in lst:
            ctx.violation(sig, desc, files={"unit.c": twin.PRELUDE + u, "table.bin": files["table.bin"]}, replay=rp)
    ctx.cover(switch_cases=done, switch_evaluations=tot["evals"], switch_judged=tot["judged"], switch_nontrivial=tot["nontrivial"],
              switch_failing_cases=len(failing), switch_failing_unshrunk=max(0, len(failing) - CAP), skipped_colliding_label_sets=collide,
              switch_bounds="types %s; label sets of <= %d labels from the 11 thresholds; singles and GNU ranges between neighbours; default %s; selector = every bound -1/0/+1 before and after conversion"
                            % (",".join(t[0] for t in SW_TYPES), 2 if ctx.tier == "quick" else 3, "none/first/last" if ctx.tier == "quick" else "none/every position, ascending and descending label order"),
              switch_shape_cases=sum(1 for c in SW_CASES if c.dense),
              switch_shape_bounds="label set = base + stride * p, p in EVERY subset of {0..%d} containing 0 (1..%d labels: dense, one hole at each position, "
                                  "several holes, sparse) x (type, base, stride) in %s x default %s; plus big sets of n in %s labels (dense, one hole, two holes, "
                                  "every other value; default none/last) for (type, base) in %s; selector = EVERY value from the smallest label - 2 to the "
                                  "largest + 2 (all holes), plus the bounds -1/0/+1 before conversion"
                                  % (SHAPE_W[ctx.tier] - 1, SHAPE_W[ctx.tier], SHAPE_CFG[ctx.tier],
                                     "none/first/middle/last" if ctx.tier == "quick" else "none/every position; descending and interleaved label order with default none/last",
                                     BIG_N[ctx.tier], BIG_CFG))
    if ctx.exhaustive and not any(c.dense and len(c.items) >= 8 for c in SW_CASES):
        raise core.HarnessError("switch: the shape family is empty")
    if ctx.exhaustive and tot["judged"] < done:
        raise core.HarnessError("switch: vacuous (%d cases, %d judged evaluations)" % (done, tot["judged"]))
    ctx.sample({"switch_case": SW_CASES[len(SW_CASES) // 3].source("s"), "selectors": SW_CASES[len(SW_CASES) // 3].selectors()}, limit=14)
    return done, tot


# ---------------------------------------------------------------------------------------------------------
# (c) scope chains
# ---------------------------------------------------------------------------------------------------------
from models import c03_scope as scope

SC_DECL = "long FN(out)[%d]; int FN(jmp);\n" % scope.NS
SC_DRV_OBJ = None
SC_CASES = []


def build_scope_batch(cases):
    u = [SC_DECL]
    tab = [struct.pack("<q", len(cases))]
    for i, c in enumerate(cases):
        u.append(c.source(i))
        tab.append(struct.pack("<%dq" % (1 + 2 * scope.NS), *c.table()))
    u.append("void (*FN(ctab)[])(short, void *) = {%s};" % ", ".join("(void (*)(short, void *))FN(f%d)" % i for i in range(len(cases))))
    u.append("int FN(nctab) = %d;" % len(cases))
    return "\n".join(u) + "\n", "int c03_unused;\n", {"table.bin": b"".join(tab)}


def _scope_run(chibicc, wd, name, cases):
    res, kept, cc_rej, ref_rej = robust_twin(chibicc, wd, name, cases, build_scope_batch, extra_units=[SC_DRV_OBJ])
    st = {}
    if res:
        for m in re.finditer(r"^V (\d+) mode=(\d) site=(-?\d+) want=(-?\d+) got=(\S+)", res["stdout"], re.M):
            st[id(kept[int(m.group(1))])] = ("V", int(m.group(2)), int(m.group(3)), int(m.group(4)), m.group(5))
    for c, r in cc_rej:
        st[id(c)] = ("R", r[0], r[1], (r[2].strip().splitlines() or [""])[0][:160])
    rr = set(id(c) for c in ref_rej)
    return res, [st.get(id(c)) for c in cases], [id(c) in rr for c in cases]


def _scope_worker(args):
    chibicc, wd, name, lo, hi = args
    res, sts, rr = _scope_run(chibicc, wd, name, SC_CASES[lo:hi])
    return (res["code"] if res else 0, res["stdout"] if res else "", res["stderr"][-500:] if res else "", lo, sts, rr)


def _scope_fail_worker(args):
    chibicc, wd, name, cases = args
    return _scope_run(chibicc, wd, name, cases)[1]


def scope_sig(c, st):
    if st[0] == "R":
        return "C03|scope|%s|rejected:%s:%s" % (c.cid(), st[1], st[2])
    mode, k, want, got = st[1], st[2], st[3], st[4]
    if got == "signal":
        return "C03|scope|%s|signal" % c.cid()
    site, slot = k // scope.NSLOT, k % scope.NSLOT
    pd = c.point_deviation(site, slot, want, got)
    if pd:          # the wrong value is explained by a reference INSIDE the declaration that x (correctly) denotes at the site
        return "C03|scope|point-of-declaration|%s" % pd
    where = c.site_name(site) + ("+goto" if mode and c.family == "chain" else "")
    if mode and getattr(c, "decoy", ""):        # a label with a related spelling is defined too: goto x reached the wrong statement
        return "C03|scope|label|goto-x-with-%s-label|%s" % (c.decoy, "skips-more" if int(got) == scope.UNSET else "skips-less" if want == scope.UNSET else "wrong-value")
    if c.family == "stmt":
        where = c.kw + ":" + where
    return "C03|scope|%s|at:%s|binds:%s,want:%s" % (scope.SLOT_NAMES[slot], where, c.decode(slot, int(got)), c.decode(slot, want))


SC_REPLAY = ("$CHIBICC -DPFX=cc_ -c -o cc.o unit.c || exit 1\n"
             "gcc -O0 -w -std=gnu11 -fno-pie -DPFX=ref_ -c -o ref.o unit.c || exit 0\n"
             "gcc -O1 -w -std=gnu11 -fno-pie -no-pie -o drv $VERIF/harness/c03_scope_driver.c cc.o ref.o -Wl,-z,noexecstack || exit 0\n"
             "./drv > out.txt; grep -q '^O ' out.txt && exit 0; grep -q '^V ' out.txt && exit 1\nexit 0")


def run_scope(ctx):
    global SC_DRV_OBJ, SC_CASES
    SC_DRV_OBJ = build_driver(ctx, "c03_scope_driver.c")
    SC_CASES = scope.enum_cases(ctx.tier)
    total = len(SC_CASES)
    per = 400
    wd = ctx.mkdir("scope")
    args = [(ctx.chibicc, os.path.join(wd, "b%d" % i), "c", lo, min(lo + per, total)) for i, lo in enumerate(range(0, total, per))]
    if ctx.seed:
        import random
        random.Random(ctx.seed).shuffle(args)
    tot = dict(evals=0, judged=0, odis=0, nontrivial=0)
    failing, ref_rejected, done = [], 0, 0
    for grp in core.chunks(args, core.NPROC * 2):
        if ctx.out_of_time(reserve=120):
            ctx.incomplete("scope: deadline after %d of %d cases" % (done, total))
            break
        for code, out, err, lo, sts, rr in core.pmap(_scope_worker, grp):
            done += len(sts)
            for k, r in enumerate(rr):
                if r:
                    ref_rejected += 1
                    ctx.sample({"ref_rejected": SC_CASES[lo + k].cid()}, limit=10)
            for k, st in enumerate(sts):
                if st:
                    failing.append((SC_CASES[lo + k], st))
            if not out:
                continue
            if code != 0:
                raise core.HarnessError("scope driver failed: code=%s %s" % (code, err))
            m = re.search(r"^S evals=(\d+) judged=(\d+) odis=(\d+) nontrivial=(\d+)", out, re.M)
            if not m:
                raise core.HarnessError("no summary from scope driver")
            for k, v in zip(("evals", "judged", "odis", "nontrivial"), m.groups()):
                tot[k] += int(v)
            for mm in re.finditer(r"^O (\d+) (.*)", out, re.M):
                ctx.sample({"oracle_disagreement": mm.group(2), "batch_first_case": SC_CASES[lo].cid()}, limit=10)
    if tot["odis"]:
        raise core.HarnessError("scope: model and gcc disagree on %d runs (see evidence samples)" % tot["odis"])
    if ref_rejected:
        raise core.HarnessError("scope: gcc rejected %d generated cases (the generator must only emit valid chains)" % ref_rejected)
    # shrink (drop declarations / the label) while the same kind of failure persists
    failing.sort(key=lambda x: (x[0].depth(), x[0].cid()))
    CAP = 2000
    cur = list(failing[:CAP])
    active = list(range(len(cur)))
    cache = {}
    rnd = 0
    while active and rnd < 12:
        rnd += 1
        cand = dict((i, cur[i][0].shrinks()) for i in active)
        need, seen = [], set()
        for i in active:
            for c in cand[i]:
                if c.cid() not in cache and c.cid() not in seen:
                    seen.add(c.cid()); need.append(c)
        batches = core.chunks(need, 100)
        a2 = [(ctx.chibicc, os.path.join(wd, "r%d_%d" % (rnd, k)), "c", b) for k, b in enumerate(batches)]
        for b, resl in zip(batches, core.pmap(_scope_fail_worker, a2)):
            for c, st in zip(b, resl):
                cache[c.cid()] = st
        nxt = []
        for i in active:
            for c in cand[i]:
                st = cache.get(c.cid())
                if st and st[0] == cur[i][1][0]:
                    cur[i] = (c, st); nxt.append(i)
                    break
        active = nxt
    groups = {}
    for (c, st), (c0, st0) in zip(cur, failing):
        groups.setdefault(scope_sig(c, st), []).append((c, st, c0))
    for sig, lst in sorted(groups.items()):
        c, st, c0 = lst[0]
        u, d, files = build_scope_batch([c])
        if st[0] == "R":
            desc = "valid program rejected (%s status %s: %s): %s" % (st[1], st[2], st[3], c.cid())
            rp = "$CHIBICC -DPFX=cc_ -c -o cc.o unit.c && exit 0; exit 1"
        else:
            desc = "identifier binds to the wrong declaration: %s %s, run jmp=%d, probe %d (%s, %s): want %s got %s" % (
                c.family, c.cid(), st[1], st[2], c.site_name(st[2] // scope.NSLOT) if st[2] >= 0 else "-", scope.SLOT_NAMES[st[2] % scope.NSLOT], st[3], st[4])
            rp = SC_REPLAY
        desc += "  [%d enumerated cases shrink to this one; first: %s]" % (len(lst), c0.cid())
        for _ in lst:
            ctx.violation(sig, desc, files={"unit.c": twin.PRELUDE + u, "table.bin": files["table.bin"]}, replay=rp)
    ctx.cover(scope_cases=done, scope_runs=tot["evals"], scope_judged=tot["judged"], scope_nontrivial=tot["nontrivial"], scope_failing_cases=len(failing),
              scope_chain_cases=sum(1 for c in SC_CASES if c.family == "chain"), scope_stmt_cases=sum(1 for c in SC_CASES if c.family == "stmt"),
              scope_point_cases=sum(1 for c in SC_CASES if c.family == "point"),
              scope_stmt_selfref_cases=sum(1 for c in SC_CASES if c.family == "stmt" and c.selfref()),
              scope_failing_unshrunk=max(0, len(failing) - CAP),
              scope_bounds="chain file>parameter>block>for-init>for-body: ordinary x in none/object/typedef/enumerator, tag x in none/struct/union/enum/"
                           "sfwd/ufwd (`struct x;` incomplete, never completed)/sfwdc/ufwdc (completed later at the same level) per level "
                           "(parameter level: first mention `struct x *p`, completed by a definition in the body), label x in none/block/for-body; "
                           "label NAME space: next to the label x<i> a decoy label spelled x (prefix) / x<i>0 (extension) / yx<i> (suffix) / X<i> (case variant), "
                           "defined before or after x<i>, in every chain with a file-scope ordinary x and at most %d declarations (%d cases); "
                           % (2 if ctx.tier == "quick" else 3, sum(1 for c in SC_CASES if getattr(c, "decoy", "")))
                           + ("at most 3 declarations (labels with at most 2)" if ctx.tier == "quick" else
                              "at most 5 declarations (labels with at most 4) plus all combinations of the definition kinds") +
                           "; 11 probe sites, run with and without goto x.  stmt: if/while/do/for/switch with declarations (tag struct/union/enum, enumerator) "
                           "in the controlling expression and in the non-compound body, function-pointer declarator / function declaration at block and file "
                           "scope with declarations in the parameter list, x file scope x function body, at most "
                           + ("3" if ctx.tier == "quick" else "5") + " declarations; probes before / in condition / in body / in else or increment / after.  "
                           "4 observables per site: ordinary binding, tag sizeof (+ sizeof *q), tag identity (_Generic over the pointers declared next "
                           "to each struct/union declaration), object copy.  point (point of declaration, 6.2.1p7): the chain with self-referential "
                           "declaration kinds = probes INSIDE the declaration: objb `char x[REF+1]` / typedefb / pself `char (*x)[REF+1]` (declarator sees the "
                           "enclosing x), obji / sobji (block-scope static) / objbi `= { sizeof(x) }` (initializer sees the new x), enumrv `enum { x = REF+1 }`, enumr3 "
                           "`enum { a = REF+1, x = REF+2, b = x+3 }` (own value expression: enclosing x; later enumerator: new x), pnext `short x, "
                           "char (*r)[sizeof(x)+1]` (later parameter sees the earlier), structm / unionm `struct x { struct x *n; .. }` (member sees the new "
                           "type), each at every level where C allows it (file: obji, tags; parameter list: pself, pnext, enumrv, enumr3, tags; block and "
                           "inner block: all; for-init: objb, obji, objbi) over every assignment of enclosing declarations, at most "
                           + ("3 declarations" if ctx.tier == "quick" else "5 declarations (4 when both name spaces are used)") +
                           "; stmt family: enumrv / enumr3 / structm / unionm in type names of controlling expressions, non-compound bodies and "
                           "prototype parameter lists, tnext `short x, __typeof__(x) *r` in prototype scope")
    if ctx.exhaustive and not any(c.family == "point" and "enumrv" in c.ordt for c in SC_CASES):
        raise core.HarnessError("scope: the point-of-declaration dimension is empty")
    if ctx.exhaustive and tot["judged"] < done - len(failing):
        raise core.HarnessError("scope: vacuous (%d cases, %d judged runs)" % (done, tot["judged"]))
    ctx.sample({"scope_case": SC_CASES[len(SC_CASES) // 2].cid(), "source": SC_CASES[len(SC_CASES) // 2].source(0)}, limit=16)
    return done, tot


def run(ctx):
    parts = os.environ.get("C03_PARTS", "trees,switch,scope").split(",")
    nsw, swtot = run_switch(ctx) if "switch" in parts else (0, dict(evals=0, nontrivial=0))
    nprog, tot = run_trees(ctx) if "trees" in parts else (0, dict(runs=0, nontrivial=0))
    nsc, sctot = run_scope(ctx) if "scope" in parts else (0, dict(evals=0, nontrivial=0))
    tot = dict(runs=tot["runs"] + swtot["evals"] + sctot["evals"], nontrivial=tot["nontrivial"] + swtot["nontrivial"] + sctot["nontrivial"])
    if nsw + nprog + nsc == 0:
        raise core.HarnessError("nothing enumerated")
    ctx.cover(evaluations=tot["runs"], distinct_nontrivial=tot["nontrivial"],
              rule="a case is one generated function; it is evaluated on every input (tape / selector) of its bounded input space; "
                   "non-trivial = the reference model yields at least two different observable results over that input space "
                   "(trees: >= 2 distinct complete traces; switch: >= 2 distinct results; scope: the name denotes >= 2 different "
                   "declarations of one name space over the probe sites) "
                   "and model and gcc agree")
    ctx.assume("gcc 12 -O0 and the reference models agree on every judged run (enforced; disagreement = harness error)")
    ctx.assume("GNU extensions (statement expressions, a ?: b, case ranges, labels as values) have the semantics documented by gcc")
