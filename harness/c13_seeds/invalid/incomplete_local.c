int f(void) { struct S x; return 0; }
