/* C16 runtime: virtual threads (coroutines inside one OS thread) + stateless DFS over all schedules.
 *
 * The code under test is chibicc's own -S output, rewritten (checks/c16.py) so that every instruction with a memory
 * operand first calls __vp_<kind><size> with the effective address in %r11.  vp_access() decides dynamically whether
 * the access is a scheduling point: it is one iff it overlaps a registered shared range or lies outside the running
 * virtual thread's private stack.  Every instruction is executed natively and indivisibly; the interleaving is
 * sequentially consistent (no store buffers).
 *
 * stdin:  one program per line
 *   P <id> <obj> <init> <mode> <bound> <nthreads> { <nops> { <op> <arg> <exp> } } [S <choices>]
 *     obj,op: indices into the generated tables vp_objs[] / vp_ops[];  mode 0: object located by the table entry,
 *     mode 1: thread 0 is a "parent" body that owns the object in its automatic storage;  bound: max preemptions
 *     (-1 = unbounded);  S: replay exactly this schedule (digits = thread ids) and print the event trace;
 *     V <choices>: replay it twice, demand identical event traces, print only the history line.
 * stdout: PROG/H/END records (see emit_results).   exit 3 = harness error (divergent replay, impossible state).
 *
 * A fault (SIGSEGV/SIGBUS/SIGILL/SIGFPE) or a hang (3 s of CPU time without a scheduling decision) while CODE UNDER TEST
 * is running (a body, a helper, an access stub, or the runtime reading the operand an instrumented instruction is about
 * to access) is a verdict about that code: the history of the schedule is "CRASH-<what>", exploration of the program
 * stops there (as for a livelock), the results are printed followed by "CRASHED <id>" and the process exits with
 * status 4 because its memory can no longer be trusted; the caller runs the remaining programs in a new process.
 * A fault anywhere else kills the process by the signal (= harness error).  The same holds for an instrumented write or
 * read-modify-write access to memory that is neither private to the running thread nor one of the objects of the program ("CRASH-WILD", taken
 * before the instruction executes): everything a body can legitimately write is re-initialised for every run.
 *
 * Guard bytes.  Every atomic object and every expected-value object of a compare-exchange is surrounded by guard
 * bytes (0xA5) that nothing may write: the aggregate the atomic object lives in plus extra guard objects named by
 * the info function (mode 0), and the regions the bodies register with vp_guard()/vp_static() on their private stack
 * or in thread-private static memory.  All live regions are checked when a body calls vp_body_end(), after every
 * operation has returned and at the end of the run; the first modified byte is reported in the history (G=).
 * A body is called through vp_call_body() (c16_rt.S): callee-saved registers and %rsp are kept in static memory,
 * compared after the return (R=) and restored, so a body that destroys its own frame cannot take the runtime down.
 * vp_body_end() also receives how often each side-effecting operand of the operation was evaluated (X=).
 *
 * Expected-value object (C11 7.17.7.4: written only when the comparison fails).  A body names it with vp_expected();
 * the stub of a lock cmpxchg (kind k) hands over the accumulator, so the runtime knows at the instruction whether it
 * succeeds; every later instrumented store of that thread into the object, private or shared, is reported (W=).
 * vp_shared() hands out one expected-value object in SHARED memory (final contents: F2=); an operation whose argument
 * is written "prev" receives the result of the thread's previous operation (pop, then push what was popped).
 */
#define _GNU_SOURCE
#include <stdint.h>
#include <stdio.h>
#include <stdlib.h>
#include <string.h>
#include <time.h>
#include <signal.h>
#include <unistd.h>
#include <sys/time.h>

#define MAXT 3
#define MAXOPS 3
#define HORIZON 10000
#define STACKSZ (64 * 1024)
#define MAXEV 64
#define MAXTRACE (HORIZON + 64)

typedef long (*body_fn)(void *p, long a, long *e);
typedef long (*info_fn)(void *arena, long what);
struct vp_opdesc { const char *name; body_fn fn; };
struct vp_objdesc { const char *name; info_fn info; int has_fin; };
extern struct vp_opdesc vp_ops[];
extern struct vp_objdesc vp_objs[];
extern int vp_nops, vp_nobjs;

struct vp_ctx { void *rsp; long pad; unsigned char fx[512]; } __attribute__((aligned(16)));
void vp_switch(struct vp_ctx *from, struct vp_ctx *to);
void vp_tramp(void);

enum { K_READ = 1, K_WRITE, K_LOCKED, K_UNLOCKED, K_CMPX_R, K_CMPX_W, K_OPAQUE, K_YIELD, K_CALL, K_RET, K_LOCKED_CX };
static const char kindch[] = "?rwlucdxyCRk";   /* k: lock cmpxchg (the stub hands over the accumulator: success is known) */

/* ------------------------------------------------------------------ program */
struct op { int opidx, carry; long arg, exp; };   /* carry: the argument is the result of the thread's previous operation */
static struct {
  char id[200];
  int obj, mode, nthreads, bound;
  long init;
  int nops[MAXT];
  struct op op[MAXT][MAXOPS];
} prog;

/* ------------------------------------------------------------------ machine state */
static unsigned char arena[512] __attribute__((aligned(64)));
static unsigned char stacks[MAXT][STACKSZ] __attribute__((aligned(64)));
static struct vp_ctx ctx[MAXT], mainctx, fx_template;
int vp_cur = -1;                     /* running virtual thread, -1 = scheduler (read by vp_call_body) */
#define cur vp_cur
long vp_save[MAXT][8];               /* vp_call_body: rbx rbp r12 r13 r14 r15 rsp, mismatch mask */
long vp_call_body(body_fn fn, void *p, long a, long *e);
static int started[MAXT], finished[MAXT], waiting_join[MAXT];
static int published;                /* mode 1: object handed to the other threads */
static unsigned char *obj_addr, *agg_addr;
static long obj_size, agg_size;
static void *obj_base;               /* what bodies receive as p */
static int aborted;                  /* horizon reached */

struct ev { unsigned char kind, thread, size, opno; uint64_t pc, addr, val, val2; };
static struct ev trace[MAXTRACE], trace2[MAXTRACE];
static int ntrace;
static char unlocked_flag[16];       /* first unlocked RMW on the registered atomic object in this run */
static long final_val;

/* ------------------------------------------------------------------ guard bytes */
#define FILL 0xA5
#define MAXREG 8
#define PRIVSZ 64
/* tag: 1 expected-value object in [hole, hole+holesz), 2 / 3 guard object declared before / after an expected-value
   object (no hole; ref = address of that object: which side of it the guard lies on is decided by the addresses, the
   order of definition says nothing about the layout), 4 / 5 / 6 the same for an atomic object */
struct region { unsigned char *base, *hole, *ref; long size, holesz; int tag; };
static struct region regs[MAXT][MAXREG], gregs[MAXREG];
static int nregs[MAXT], ngregs;
static unsigned char vp_priv[MAXT][PRIVSZ] __attribute__((aligned(64)));   /* thread-private static memory */
static char guard_flag[16];          /* first modified guard byte of this run: E-before E-after O-before O-after */
static char regs_flag[40];           /* callee-saved registers a body did not preserve */
static char evals_flag[8];           /* first operand not evaluated exactly once: <position><count> */
/* C11 7.17.7.4: the expected-value object is read before the operation and written ONLY when the comparison fails.
   A body names the expected-value object of its compare-exchange with vp_expected(); from the moment a lock cmpxchg of
   that thread on the atomic object has succeeded (accumulator == object, both known before the instruction executes)
   every instrumented store of that thread into the expected-value object is a deviation (W=<kind><size>). */
static unsigned char *exp_addr[MAXT];
static long exp_size[MAXT];
static int cas_ok[MAXT];
static char late_flag[8];
static unsigned long long n_cas_ok_watched;   /* successful compare-exchanges with a registered expected-value object */
/* an expected-value object in SHARED memory (arena), handed out by vp_shared(): final contents reported as F2= */
#define SHARED_OFF 400
static long shared_size;
static long final2;
static long last_ret[MAXT];

/* ------------------------------------------------------------------ explorer state */
static int depth;                    /* scheduling decisions taken in this run */
static int replay_len;               /* decisions [0,replay_len) are forced */
static unsigned char ch[HORIZON + 1], en[HORIZON + 1];
static signed char who[HORIZON + 1];
static int pre[HORIZON + 2];
static int strict_replay;            /* replaying a full schedule: needing a decision beyond it is an error */
static const char *follow;           /* replay mode: schedule given as text, followed without recorded enabled sets */
static int follow_len;
static unsigned long long n_decisions, n_runs;

static long long deadline;            /* CLOCK_MONOTONIC nanoseconds; 0 = none (no floating point: -mgeneral-regs-only) */
static long long now(void) { struct timespec ts; clock_gettime(CLOCK_MONOTONIC, &ts); return ts.tv_sec * 1000000000LL + ts.tv_nsec; }

/* 0 while code under test runs on a virtual thread, 1 while the runtime itself runs */
static volatile int in_runtime = 1;
static volatile int peeking;          /* the runtime reads the operand of the instruction about to execute */

static void die(const char *msg);
static unsigned long long n_guard_checks;   /* guard regions examined (vacuity guard of the check) */
static void check_region(const struct region *r) {
  n_guard_checks++;
  for (long i = 0; i < r->size && !guard_flag[0]; i++) {
    unsigned char *p = r->base + i;
    if (r->hole && p >= r->hole && p < r->hole + r->holesz) continue;
    if (*p == FILL) continue;
    int after = r->hole ? p >= r->hole + r->holesz : r->ref ? p > r->ref : (r->tag == 3 || r->tag == 6);
    snprintf(guard_flag, sizeof guard_flag, "%c-%s", r->tag <= 3 ? 'E' : 'O', after ? "after" : "before");
  }
}

static void check_all_guards(void) {
  for (int t = 0; t < MAXT; t++)
    for (int i = 0; i < nregs[t]; i++) check_region(&regs[t][i]);
  for (int i = 0; i < ngregs; i++) check_region(&gregs[i]);
}

static void die(const char *msg) {
  printf("HARNESS-ERROR %s prog=%s depth=%d\n", msg, prog.id, depth);
  fflush(stdout);
  exit(3);
}

static void push_ev(int kind, int thread, int size, int opno, uint64_t pc, uint64_t addr, uint64_t val, uint64_t val2) {
  if (ntrace >= MAXTRACE) die("trace overflow");
  struct ev *e = &trace[ntrace++];
  memset(e, 0, sizeof *e);
  e->kind = kind; e->thread = thread; e->size = size; e->opno = opno; e->pc = pc; e->addr = addr; e->val = val; e->val2 = val2;
}

static unsigned enabled_mask(void) {
  unsigned m = 0;
  int unfinished_others[MAXT] = {0};
  for (int t = 0; t < prog.nthreads; t++)
    for (int u = 0; u < prog.nthreads; u++)
      if (u != t && !finished[u]) unfinished_others[t] = 1;
  for (int t = 0; t < prog.nthreads; t++) {
    if (finished[t]) continue;
    if (waiting_join[t] && unfinished_others[t]) continue;
    if (prog.mode == 1 && t != 0 && !published) continue;
    m |= 1u << t;
  }
  return m;
}

/* alternatives at a decision in exploration order: the non-preempting one first, then ascending thread id */
static int alternatives(int w, unsigned m, int *alt) {
  int n = 0;
  if (w >= 0 && (m >> w & 1)) alt[n++] = w;
  for (int t = 0; t < MAXT; t++)
    if ((m >> t & 1) && t != w) alt[n++] = t;
  return n;
}

/* One scheduling decision.  cur_enabled: the deciding thread could continue.  Returns the thread to run or -1. */
static int choose(int cur_enabled) {
  unsigned m = enabled_mask();
  int w = cur_enabled ? cur : -1;
  if (cur_enabled && !(m >> cur & 1)) die("running thread not enabled");
  if (m == 0) {
    for (int t = 0; t < prog.nthreads; t++)
      if (!finished[t]) die("no enabled thread (deadlock is impossible in these programs)");
    return -1;
  }
  if (depth >= HORIZON) { aborted = 1; return -2; }
  int d = depth++, c;
  n_decisions++;
  if (d < replay_len) {
    if (en[d] != m || who[d] != w) die("divergent replay: enabled set or running thread differs from the recorded one");
    c = ch[d];
    if (!(m >> c & 1)) die("divergent replay: recorded choice not enabled");
  } else {
    if (follow && d < follow_len) {
      c = follow[d] - '0';
      if (c < 0 || c >= prog.nthreads || !(m >> c & 1)) die("divergent replay: scheduled thread is not enabled");
    } else if (follow || strict_replay) {
      die("schedule to replay is shorter than the execution");
    } else {
      int alt[MAXT];
      alternatives(w, m, alt);
      c = alt[0];
    }
    en[d] = m; who[d] = w; ch[d] = c;
  }
  pre[d + 1] = pre[d] + ((w >= 0 && c != w) ? 1 : 0);
  return c;
}

static void to_scheduler(void) {
  int t = cur;
  cur = -1;
  vp_switch(&ctx[t], &mainctx);
}

static void sched_point(void) {
  int t = cur;
  int c = choose(1);
  if (c == -2) { to_scheduler(); die("aborted thread resumed"); }
  if (c != t) { cur = c; vp_switch(&ctx[t], &ctx[c]); }
}

static void thread_exit(void) {
  int t = cur;
  finished[t] = 1;
  int c = choose(0);
  if (c < 0) { to_scheduler(); die("finished thread resumed"); }
  cur = c;
  vp_switch(&ctx[t], &ctx[c]);
  die("finished thread resumed");
}

static void add_region(struct region *tab, int *n, long tag, void *base, long size, void *hole, long holesz) {
  unsigned char *b = base, *h = hole, *ref = 0;
  if (*n >= MAXREG) die("too many guard regions");
  if (tag != 1 && tag != 4) {           /* whole guard object: hole names the object it guards */
    if (holesz || (h && h >= b && h < b + size)) die("bad guard region");
    ref = h; h = 0;
  }
  if (tag < 1 || tag > 6 || size < 1 || size > 512 || (h && (h < b || holesz < 1 || h + holesz > b + size)) || (!h && holesz))
    die("bad guard region");
  struct region *r = &tab[(*n)++];
  r->base = b; r->size = size; r->hole = h; r->holesz = h ? holesz : 0; r->tag = tag; r->ref = ref;
  peeking = 1;                         /* a fault here means the body handed over a wild address: its fault */
  for (long i = 0; i < size; i++)
    if (!h || b + i < h || b + i >= h + holesz) b[i] = FILL;
  peeking = 0;
}

/* ---- services callable from the bodies: guard regions on the private stack / in thread-private static memory ---- */
void vp_guard(long tag, void *base, long size, void *hole, long holesz) {
  in_runtime = 1;
  if (cur < 0) die("vp_guard outside a virtual thread");
  add_region(regs[cur], &nregs[cur], tag, base, size, hole, holesz);
  in_runtime = 0;
}

void *vp_static(long size) {
  in_runtime = 1;
  if (cur < 0 || size < 1 || size > 8) die("vp_static misuse");
  add_region(regs[cur], &nregs[cur], 1, vp_priv[cur], 16 + size + 16, vp_priv[cur] + 16, size);
  in_runtime = 0;
  return vp_priv[cur] + 16;
}

/* the expected-value object of the compare-exchange(s) this body is about to perform */
void vp_expected(void *addr, long size) {
  in_runtime = 1;
  if (cur < 0 || size < 1 || size > 8) die("vp_expected misuse");
  exp_addr[cur] = addr; exp_size[cur] = size; cas_ok[cur] = 0;
  in_runtime = 0;
}

/* an object of `size` bytes in shared memory (the arena) with guard bytes around it; the same one for every thread */
void *vp_shared(long size) {
  in_runtime = 1;
  if (cur < 0 || size < 1 || size > 8 || (shared_size && shared_size != size)) die("vp_shared misuse");
  if (!shared_size) {
    shared_size = size;
    add_region(gregs, &ngregs, 1, arena + SHARED_OFF - 16, 16 + size + 16, arena + SHARED_OFF, size);
  }
  in_runtime = 0;
  return arena + SHARED_OFF;
}

/* last call of a body: guard bytes intact?  every side-effecting operand evaluated exactly once?  (-1: no such operand) */
void vp_body_end(long na, long ne, long nd) {
  in_runtime = 1;
  if (cur < 0) die("vp_body_end outside a virtual thread");
  check_all_guards();
  long n[3] = { na, ne, nd };
  for (int i = 0; i < 3; i++)
    if (n[i] != -1 && n[i] != 1 && !evals_flag[0])
      snprintf(evals_flag, sizeof evals_flag, "%c%ld", "AED"[i], n[i] < 0 || n[i] > 9 ? 9 : n[i]);
  in_runtime = 0;
}

static uint64_t peek(uint64_t addr, int size) {
  uint64_t v = 0;
  peeking = 1;
  if (size == 1) v = *(volatile uint8_t *)addr;
  else if (size == 2) v = *(volatile uint16_t *)addr;
  else if (size == 4) v = *(volatile uint32_t *)addr;
  else if (size == 8) v = *(volatile uint64_t *)addr;
  peeking = 0;
  return v;
}

static void body_crashed(const char *what);

/* Shared memory a body may touch: the arena, the aggregate of the atomic object and its guard objects, and (mode 1) the
   stack of the parent thread that owns the object.  All of it is re-initialised for every run, so no run can leak
   state into the next one.  A write or read-modify-write anywhere else is a wild access of the code under test: a
   verdict, taken BEFORE the instruction executes. */
static int legit_shared(uint64_t addr, uint64_t n) {
  if (addr >= (uint64_t)arena && addr + n <= (uint64_t)arena + sizeof arena) return 1;
  for (int i = 0; i < ngregs; i++)
    if (addr >= (uint64_t)gregs[i].base && addr + n <= (uint64_t)gregs[i].base + gregs[i].size) return 1;
  if (prog.mode == 1 && addr >= (uint64_t)stacks[0] && addr + n <= (uint64_t)stacks[0] + STACKSZ) return 1;
  return 0;
}

/* vp_access() runs between two instructions of the code under test with its SSE registers live (the stubs save the
   general registers only; this file is built with -mgeneral-regs-only): no libc call that may use them on this path */
static void set_flag(char *dst, const char *word, int size) {
  int n = 0;
  while (*word) dst[n++] = *word++;
  if (size >= 10) dst[n++] = '0' + size / 10;
  dst[n++] = '0' + size % 10;
  dst[n] = 0;
}

/* called from the __vp_* stubs (on the virtual thread's stack) */
void vp_access(uint64_t addr, unsigned ks, uint64_t pc, uint64_t rax) {
  if (cur < 0) return;
  int size = ks & 0xff, kind = ks >> 8;
  uint64_t n = size ? size : 256;
  int on_object = obj_addr && addr < (uint64_t)obj_addr + obj_size && addr + n > (uint64_t)obj_addr;
  int writes = kind == K_WRITE || kind == K_LOCKED || kind == K_LOCKED_CX || kind == K_UNLOCKED || kind == K_CMPX_W;
  if (writes && size && cas_ok[cur] && exp_size[cur] && !late_flag[0] &&
      addr < (uint64_t)exp_addr[cur] + exp_size[cur] && addr + size > (uint64_t)exp_addr[cur])
    set_flag(late_flag, (char[]){ kindch[kind], 0 }, size);
  if (!on_object) {
    uint64_t lo = (uint64_t)stacks[cur], hi = lo + STACKSZ;
    if (addr >= lo && addr < hi) return;                 /* private */
    lo = (uint64_t)vp_priv[cur];
    if (addr >= lo && addr < lo + PRIVSZ) return;         /* private static memory (vp_static) */
  }
  in_runtime = 1;
  /* reads of other memory (constants a compiler may keep in .rodata) are harmless: nothing ever writes there */
  if (writes && !legit_shared(addr, size ? size : 1))
    body_crashed("WILD");
  if (on_object && size && !unlocked_flag[0] && (kind == K_UNLOCKED || kind == K_CMPX_R))
    set_flag(unlocked_flag, kind == K_UNLOCKED ? "rmw" : "cmpxchg", size);
  sched_point();
  uint64_t v = peek(addr, size);
  push_ev(kind, cur, size, 0, pc, addr, v, 0);
  /* nothing runs between this point and the instruction: the lock cmpxchg succeeds iff accumulator == object now */
  if (kind == K_LOCKED_CX && on_object && size && exp_size[cur] &&
      v == (size == 8 ? rax : rax & ((1ull << (8 * size)) - 1))) {
    cas_ok[cur] = 1;
    n_cas_ok_watched++;
  }
  in_runtime = 0;
}

/* ---- services callable from the bodies (mode 1: object in the parent's automatic storage) ---- */
static int cur_opno[MAXT];
static int ret_done[MAXT];

void vp_auto_begin(void *scalar, long size) {
  in_runtime = 1;
  if (cur != 0 || prog.mode != 1) die("vp_auto_begin misuse");
  obj_addr = scalar; obj_size = size; agg_addr = scalar; agg_size = size; obj_base = scalar;
  memcpy(obj_addr, &prog.init, size);
  published = 1;
  sched_point();
  push_ev(K_CALL, cur, 0, cur_opno[cur], 0, 0, 0, 0);
  in_runtime = 0;
}

void vp_auto_end(long r, long e) {
  in_runtime = 1;
  push_ev(K_RET, cur, 0, cur_opno[cur], 0, 0, (uint64_t)r, (uint64_t)e);
  ret_done[cur] = 1;
  waiting_join[cur] = 1;
  if (!(enabled_mask() >> cur & 1)) {
    int t = cur, c = choose(0);
    if (c == -2) { to_scheduler(); die("aborted thread resumed"); }
    if (c < 0) die("join with nobody to wait for");
    cur = c;
    vp_switch(&ctx[t], &ctx[c]);
  }
  waiting_join[cur] = 0;
  final_val = 0;
  memcpy(&final_val, obj_addr, obj_size);
  check_all_guards();                  /* every other thread has finished: the parent's guard regions are still live */
  in_runtime = 0;
}

void vp_thread_main(void) {
  int t = cur;
  started[t] = 1;
  for (int i = 0; i < prog.nops[t]; i++) {
    struct op *o = &prog.op[t][i];
    long e = o->exp;
    int parent = prog.mode == 1 && t == 0;
    cur_opno[t] = i;
    ret_done[t] = 0;
    if (i > 0) { sched_point(); push_ev(K_YIELD, t, 0, i, 0, 0, 0, 0); }
    if (!parent) push_ev(K_CALL, t, 0, i, 0, 0, 0, 0);
    nregs[t] = 0;
    exp_size[t] = 0; cas_ok[t] = 0;
    in_runtime = 0;
    long r = vp_call_body(vp_ops[o->opidx].fn, obj_base, o->carry ? last_ret[t] : o->arg, &e);
    in_runtime = 1;
    last_ret[t] = r;
    exp_size[t] = 0; cas_ok[t] = 0;
    if (cur != t) die("body returned on the wrong thread");
    if (vp_save[t][7] && !regs_flag[0]) {
      static const char *rn[] = { "rbx", "rbp", "r12", "r13", "r14", "r15", "rsp" };
      int n = 0;
      for (int b = 0; b < 7; b++)
        if (vp_save[t][7] >> b & 1) n += snprintf(regs_flag + n, sizeof regs_flag - n, "%s%s", n ? "+" : "", rn[b]);
    }
    nregs[t] = 0;                      /* the body's frame is dead: its regions were checked by vp_body_end() */
    check_all_guards();                /* live regions of the other threads and of the atomic object */
    if (!ret_done[t]) push_ev(K_RET, t, 0, i, 0, 0, (uint64_t)r, (uint64_t)e);
  }
  thread_exit();
}

/* ------------------------------------------------------------------ one execution */
static void ctx_init(int t) {
  /* 1 KiB below the top: an access of unknown length (rep stos zeroing a local) is taken as 256 bytes long, and
     whatever follows the stack in memory (the arena with the atomic object) must not fall into that range */
  uint64_t *sp = (uint64_t *)(stacks[t] + STACKSZ - 1024);
  /* vp_switch pops r15 r14 r13 r12 rbx rbp then returns into vp_tramp with %rsp 16-byte aligned */
  *--sp = (uint64_t)vp_tramp;        /* after the ret %rsp = stack top - 1024, which is 16-byte aligned */
  for (int i = 0; i < 6; i++) *--sp = 0;
  ctx[t].rsp = sp;
  memcpy(ctx[t].fx, fx_template.fx, 512);
}

static void run_once(void) {
  info_fn info = vp_objs[prog.obj].info;
  memset(started, 0, sizeof started); memset(finished, 0, sizeof finished);
  memset(waiting_join, 0, sizeof waiting_join);
  published = 0; aborted = 0; depth = 0; ntrace = 0; pre[0] = 0; unlocked_flag[0] = 0;
  final_val = 0; guard_flag[0] = regs_flag[0] = evals_flag[0] = late_flag[0] = 0;
  memset(exp_size, 0, sizeof exp_size); memset(cas_ok, 0, sizeof cas_ok); memset(last_ret, 0, sizeof last_ret);
  shared_size = 0; final2 = 0;
  memset(nregs, 0, sizeof nregs); ngregs = 0;
  memset(arena, FILL, sizeof arena);
  if (prog.mode == 0) {
    obj_addr = (unsigned char *)info(arena, 0); obj_size = info(arena, 1);
    agg_addr = (unsigned char *)info(arena, 2); agg_size = info(arena, 3);
    obj_base = (void *)info(arena, 5);
    if (obj_size < 1 || obj_size > 8 || obj_addr < agg_addr || obj_addr + obj_size > agg_addr + agg_size) die("bad object geometry");
    add_region(gregs, &ngregs, 4, agg_addr, agg_size, obj_addr, obj_size);
    for (long k = 0, n = info(arena, 6); k < n; k++)       /* guard objects declared next to the atomic object */
      add_region(gregs, &ngregs, info(arena, 12 + 3 * k), (void *)info(arena, 10 + 3 * k), info(arena, 11 + 3 * k), obj_addr, 0);
    memcpy(obj_addr, &prog.init, obj_size);
  } else {
    obj_addr = agg_addr = 0; obj_size = agg_size = 0; obj_base = 0;
  }
  for (int t = 0; t < prog.nthreads; t++) ctx_init(t);
  n_runs++;
  cur = -1;
  int c = choose(0);
  if (c < 0) die("no thread to start");
  cur = c;
  vp_switch(&mainctx, &ctx[c]);
  cur = -1;
  if (aborted) return;
  if (shared_size) memcpy(&final2, arena + SHARED_OFF, shared_size);
  if (prog.mode == 0) {
    if (vp_objs[prog.obj].has_fin) final_val = info(arena, 4);
    else { final_val = 0; memcpy(&final_val, obj_addr, obj_size); }
  }
  check_all_guards();
}

/* ------------------------------------------------------------------ histories */
static int history_text(char *buf, int cap) {
  int n = 0;
  for (int i = 0; i < ntrace && n < cap - 100; i++) {
    struct ev *e = &trace[i];
    if (e->kind == K_CALL) n += snprintf(buf + n, cap - n, "c%d.%d ", e->thread, e->opno);
    else if (e->kind == K_RET) n += snprintf(buf + n, cap - n, "r%d.%d=%ld:%ld ", e->thread, e->opno, (long)e->val, (long)e->val2);
  }
  n += snprintf(buf + n, cap - n, "F=%ld G=%s R=%s X=%s U=%s W=%s", final_val, guard_flag[0] ? guard_flag : "-",
                regs_flag[0] ? regs_flag : "-", evals_flag[0] ? evals_flag : "-", unlocked_flag[0] ? unlocked_flag : "-",
                late_flag[0] ? late_flag : "-");
  if (shared_size) n += snprintf(buf + n, cap - n, " F2=%ld", final2);
  return n;
}

static uint64_t trace_hash(void) {
  uint64_t h = 0xcbf29ce484222325ull;
  const unsigned char *p = (const unsigned char *)trace;
  for (size_t i = 0; i < ntrace * sizeof(struct ev); i++) { h ^= p[i]; h *= 0x100000001b3ull; }
  return h;
}

struct hent { char *text; unsigned long long count; int minpre; char *sched; uint64_t thash; int len; struct hent *next; };
#define HBUCKETS 4096
static struct hent *htab[HBUCKETS];
static int nhist;

static void record_history(const char *text, int npre, int len) {
  uint64_t h = 0xcbf29ce484222325ull;
  for (const char *p = text; *p; p++) { h ^= (unsigned char)*p; h *= 0x100000001b3ull; }
  struct hent **b = &htab[h % HBUCKETS], *e;
  for (e = *b; e; e = e->next)
    if (!strcmp(e->text, text)) break;
  if (!e) {
    e = calloc(1, sizeof *e);
    e->text = strdup(text); e->minpre = 1 << 30; e->next = *b; *b = e; nhist++;
  }
  e->count++;
  if (npre < e->minpre) {
    e->minpre = npre;
    free(e->sched);
    e->sched = malloc(len + 1);
    for (int i = 0; i < len; i++) e->sched[i] = '0' + ch[i];
    e->sched[len] = 0;
    e->thash = trace_hash();
    e->len = len;
  }
}

static void print_trace(void) {
  for (int i = 0; i < ntrace; i++) {
    struct ev *e = &trace[i];
    printf("E %d t%d %c%d op%d pc=%#lx addr=%#lx val=%#lx val2=%#lx\n", i, e->thread, kindch[e->kind], e->size, e->opno,
           (unsigned long)e->pc, (unsigned long)e->addr, (unsigned long)e->val, (unsigned long)e->val2);
  }
}

/* ------------------------------------------------------------------ DFS */
#define MAXPRE 64
static unsigned long long ex_schedules, ex_by_pre[MAXPRE + 1], ex_livelocks, ex_validated, ex_dec0, ex_runs0, ex_guard0, ex_casw0;
static int ex_maxdepth;
static int mode_replay;              /* 0 exploring, 1 replay with trace (S), 2 replay twice (V) */
static const char *replay_text;

static void emit_results(void) {
  printf("PROG %s schedules=%llu decisions=%llu runs=%llu validated=%llu maxdepth=%d livelocks=%llu histories=%d guardchecks=%llu caswatched=%llu by_pre=",
         prog.id, ex_schedules, n_decisions - ex_dec0, n_runs - ex_runs0, ex_validated, ex_maxdepth, ex_livelocks, nhist,
         n_guard_checks - ex_guard0, n_cas_ok_watched - ex_casw0);
  for (int i = 0; i <= MAXPRE; i++) if (ex_by_pre[i]) printf("%d:%llu,", i, ex_by_pre[i]);
  printf("\n");
  for (int b = 0; b < HBUCKETS; b++) {
    for (struct hent *e = htab[b], *nx; e; e = nx) {
      nx = e->next;
      printf("H %llu %d %016lx %s | %s\n", e->count, e->minpre, (unsigned long)e->thash, e->sched, e->text);
      free(e->text); free(e->sched); free(e);
    }
    htab[b] = 0;
  }
  nhist = 0;
  printf("END %s\n", prog.id);
}

/* The code under test faulted or hangs (runs on the alternate signal stack). */
static void body_crashed(const char *what) {
  char text[64];
  snprintf(text, sizeof text, "CRASH-%s", what);
  in_runtime = 1;
  int len = depth, npre = pre[depth];
  if (mode_replay) {
    printf("PROG %s replay\n", prog.id);
    if (mode_replay == 1) print_trace();
    printf("H 1 %d %016lx %s | %s\n", npre, (unsigned long)trace_hash(), replay_text, text);
    printf("END %s\n", prog.id);
  } else {
    ex_schedules++;
    ex_by_pre[npre > MAXPRE ? MAXPRE : npre]++;
    if (len > ex_maxdepth) ex_maxdepth = len;
    record_history(text, npre, len);
    emit_results();
  }
  printf("CRASHED %s\n", prog.id);
  fflush(stdout);
  _exit(4);
}

static void on_fault(int sig, siginfo_t *si, void *uc) {
  (void)si; (void)uc;
  if (cur >= 0 && (!in_runtime || peeking))
    body_crashed(sig == SIGSEGV ? "SEGV" : sig == SIGBUS ? "BUS" : sig == SIGILL ? "ILL" : "FPE");
  signal(sig, SIG_DFL);                /* a fault of the harness itself: die by the signal */
}

static void on_tick(int sig, siginfo_t *si, void *uc) {
  static unsigned long long last_dec, last_runs;
  static int ticks;
  (void)sig; (void)si; (void)uc;
  if (n_decisions != last_dec || n_runs != last_runs || in_runtime || cur < 0) {
    last_dec = n_decisions; last_runs = n_runs; ticks = 0;
    return;
  }
  if (++ticks >= 3) body_crashed("HANG");
}

static void install_handlers(void) {
  static unsigned char altstack[1 << 16] __attribute__((aligned(64)));
  stack_t ss = { .ss_sp = altstack, .ss_size = sizeof altstack, .ss_flags = 0 };
  if (sigaltstack(&ss, 0)) die("sigaltstack");
  struct sigaction sa;
  memset(&sa, 0, sizeof sa);
  sa.sa_sigaction = on_fault;
  sa.sa_flags = SA_SIGINFO | SA_ONSTACK;      /* a fault inside the handler kills the process */
  sigemptyset(&sa.sa_mask);
  sigaction(SIGSEGV, &sa, 0); sigaction(SIGBUS, &sa, 0); sigaction(SIGILL, &sa, 0); sigaction(SIGFPE, &sa, 0);
  sa.sa_sigaction = on_tick;
  sa.sa_flags = SA_SIGINFO | SA_ONSTACK | SA_RESTART;
  sigaction(SIGVTALRM, &sa, 0);
  struct itimerval it = { { 1, 0 }, { 1, 0 } };        /* process CPU time, not wall time: robust on a loaded machine */
  setitimer(ITIMER_VIRTUAL, &it, 0);
}

static void explore(void) {
  long bound = prog.bound < 0 ? (1L << 30) : prog.bound;
  char text[4096];
  ex_schedules = ex_livelocks = ex_validated = 0; ex_dec0 = n_decisions; ex_runs0 = n_runs; ex_guard0 = n_guard_checks; ex_casw0 = n_cas_ok_watched; ex_maxdepth = 0;
  memset(ex_by_pre, 0, sizeof ex_by_pre);
  mode_replay = 0;
  replay_len = 0; strict_replay = 0;
  for (;;) {
    run_once();
    int len = depth, npre = pre[depth];
    if (len > ex_maxdepth) ex_maxdepth = len;
    ex_schedules++;
    ex_by_pre[npre > MAXPRE ? MAXPRE : npre]++;
    if (aborted) {
      /* a run of HORIZON scheduling points: some retry loop never terminates.  That is a verdict for the whole
         program; exploring the (astronomically many) other infinite schedules adds nothing. */
      ex_livelocks++;
      record_history("LIVELOCK", npre, len);
      break;
    } else {
      history_text(text, sizeof text);
      record_history(text, npre, len);
    }
    /* determinism proof: re-execute every 1000th schedule (and the first one) and demand the identical event trace */
    if (ex_schedules % 1000 == 1) {
      int n1 = ntrace, ab = aborted;
      memcpy(trace2, trace, n1 * sizeof(struct ev));
      replay_len = len; strict_replay = 1;
      run_once();
      strict_replay = 0;
      if (depth != len || aborted != ab || ntrace != n1 || memcmp(trace, trace2, n1 * sizeof(struct ev)))
        die("nondeterminism: replaying a schedule produced a different event trace");
      ex_validated++;
    }
    if (deadline && (ex_schedules & 1023) == 0 && now() > deadline) {
      printf("TIMEOUT %s after %llu schedules\n", prog.id, ex_schedules);
      fflush(stdout);
      exit(0);
    }
    /* backtrack: deepest decision with an untried alternative inside the preemption budget */
    int d;
    for (d = len - 1; d >= 0; d--) {
      int alt[MAXT], n = alternatives(who[d], en[d], alt), k;
      for (k = 0; k < n; k++) if (alt[k] == ch[d]) break;
      if (k + 1 >= n) continue;
      int cost = (who[d] >= 0 && alt[k + 1] != who[d]) ? 1 : 0;
      if (pre[d] + cost > bound) continue;
      ch[d] = alt[k + 1];
      break;
    }
    if (d < 0) break;
    replay_len = d + 1;
  }
  emit_results();
}

static void replay_schedule(const char *s, int verify) {
  char text[4096];
  int len = strlen(s);
  if (len > HORIZON) die("schedule too long");
  replay_len = 0; strict_replay = 0;
  follow = s; follow_len = len;
  mode_replay = verify ? 2 : 1; replay_text = s;
  run_once();
  if (depth != len) die("divergent replay: execution ended before the schedule did");
  if (verify) {
    /* determinism proof for one schedule: execute it a second time, the event traces must be identical */
    int n1 = ntrace, ab = aborted;
    memcpy(trace2, trace, n1 * sizeof(struct ev));
    run_once();
    if (depth != len || aborted != ab || ntrace != n1 || memcmp(trace, trace2, n1 * sizeof(struct ev)))
      die("nondeterminism: replaying a schedule produced a different event trace");
  }
  follow = 0;
  history_text(text, sizeof text);
  printf("PROG %s replay\n", prog.id);
  if (!verify) print_trace();
  printf("H 1 %d %016lx %s | %s\n", pre[depth], (unsigned long)trace_hash(), s, aborted ? "LIVELOCK" : text);
  printf("END %s\n", prog.id);
}

int main(int argc, char **argv) {
  static char line[1 << 16];
  if (argc > 1 && atol(argv[1]) > 0) deadline = now() + atol(argv[1]) * 1000000000LL;
  setvbuf(stdout, 0, _IOFBF, 1 << 16);
  __asm__ volatile("fxsave64 %0" : "=m"(fx_template.fx));
  install_handlers();
  while (fgets(line, sizeof line, stdin)) {
    char *save, *tok = strtok_r(line, " \n", &save);
    if (!tok || strcmp(tok, "P")) continue;
#define NEXT() (tok = strtok_r(0, " \n", &save), tok ? tok : (die("short program line"), ""))
    memset(&prog, 0, sizeof prog);
    snprintf(prog.id, sizeof prog.id, "%s", NEXT());
    prog.obj = atoi(NEXT()); prog.init = strtol(NEXT(), 0, 0); prog.mode = atoi(NEXT()); prog.bound = atoi(NEXT());
    prog.nthreads = atoi(NEXT());
    if (prog.obj < 0 || prog.obj >= vp_nobjs || prog.nthreads < 1 || prog.nthreads > MAXT) die("bad program");
    for (int t = 0; t < prog.nthreads; t++) {
      prog.nops[t] = atoi(NEXT());
      if (prog.nops[t] < 1 || prog.nops[t] > MAXOPS) die("bad op count");
      for (int i = 0; i < prog.nops[t]; i++) {
        struct op *o = &prog.op[t][i];
        o->opidx = atoi(NEXT());
        NEXT();
        if (!strcmp(tok, "prev")) { o->carry = 1; o->arg = 0; } else o->arg = strtol(tok, 0, 0);
        o->exp = strtol(NEXT(), 0, 0);
        if (o->opidx < 0 || o->opidx >= vp_nops) die("bad op index");
      }
    }
    tok = strtok_r(0, " \n", &save);
    if (tok && (!strcmp(tok, "S") || !strcmp(tok, "V"))) {
      int verify = tok[0] == 'V';
      tok = strtok_r(0, " \n", &save);
      replay_schedule(tok ? tok : "", verify);
    } else
      explore();
  }
  printf("DONE decisions=%llu runs=%llu\n", n_decisions, n_runs);
  return 0;
}
