int f(int x) { return __builtin_compare_and_swap(x, x, 1); }
