#foo
