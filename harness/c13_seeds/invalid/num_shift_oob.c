int x = 1 << 32;
int y = 1 >> -1;
int f(int a) { return a << 64; }
