#include 123
