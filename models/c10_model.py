"""Reference models for C10 (conditional inclusion, #if arithmetic, #include resolution, re-inclusion).

Three independent pieces, Python stdlib only:

1. CondMachine  - explicit-state model of the conditional-inclusion machine of C11 6.10.1:
                  state = (stack of (ctx, taken, active), X defined?, previous line ended in an empty expansion?).
2. ev()/etext() - #if arithmetic in intmax_t/uintmax_t (6.10.1p4) over expression trees; raises Undef where C11 does
                  not define the result (overflow, bad shift, /0, implementation-defined right shift ...).
3. Cpp          - a tiny textual-inclusion preprocessor over a virtual file system with a search chain
                  (includer's directory for "", then the chain: -I..., system, -idirafter) incl. #include_next
                  and #pragma once.  It knows nothing about include guards: guards are just conditionals.
                  With a VFS (directories, files, symbolic links; POSIX path resolution) a header is identified by
                  the physical file its spelling resolves to, never by a rewritten form of the spelling.
"""
import os
import re

M64 = (1 << 64) - 1
IMAX = (1 << 63) - 1
IMIN = -(1 << 63)


class Undef(Exception):
    """The result is not defined by the property (UB, implementation-defined, constraint violation)."""


# =====================================================================================================
# 1. conditional machine
# =====================================================================================================
THEN, ELIF, ELSE = 0, 1, 2
CONDS = ("0", "1", "defined X", "X", "!X")


def cond_value(c, xdef):
    if c == "0":
        return False
    if c == "1":
        return True
    if c == "defined X":
        return xdef
    if c == "X":            # X is defined as 1, or an unknown identifier (= 0)
        return xdef
    if c == "!X":
        return not xdef
    raise ValueError(c)


def symbols(with_te=True, junk=True):
    """The directive alphabet.  junk=1 marks a trailing token on a directive where C11/the property say it is ignored."""
    js = (0, 1) if junk else (0,)
    s = [("if", c) for c in CONDS]
    s += [("ifdef", j) for j in js] + [("ifndef", j) for j in js]
    s += [("elif", c) for c in CONDS]
    s += [("else", j) for j in js] + [("endif", j) for j in js]
    s += [("define",)] + [("undef", j) for j in js]
    if with_te:
        s += [("te",)]
    return s


# Lines that are valid ONLY where C11 says they are not looked at (6.10.1p6: in a skipped group "directives are
# processed only through the name that determines the directive ... the rest of the directives' preprocessing tokens
# are ignored, as are the other preprocessing tokens in the group"): each would be a hard error if processed.
SKIPPED_ONLY = [("dead", "#error E"), ("dead", '#include "nonexistent.h"'), ("dead", "#nonsense directive"),
                ("dead", "#define X("), ("dead", "#line x"),
                ("if", "1 +"), ("if", "(1 / 0"), ("elif", "1 +"), ("elif", "1 / 0")]


# Lines that have NO effect on the conditional machine wherever they stand (C11 6.10.7 null directive, 6.10.6 #pragma,
# 6.10.3 #define whose replacement list merely looks like a directive, #undef / #line of something unrelated): in an
# active group they are executed and change nothing that is observed, in a skipped group they are passed over.  They
# are rendered WITHOUT a probe line, so the next directive of the sequence follows them directly.
# (kind, text, class name used in signatures)
INERT = [("inert", "#", "null-directive"), ("inert", "# /* c */", "null-directive"), ("inert", "#\t// c", "null-directive"),
         ("inert", "#pragma c10 p", "#pragma"),
         ("inert", "#define Y #else", "#define-with-directive-like-body"),
         ("inert", "#define W # endif", "#define-with-directive-like-body"),
         ("inert", "#define Z 1 \\\n#endif", "#define-with-directive-like-body"),
         ("inert", "#undef V", "#undef-of-another-macro"), ("inert", "#line 77", "#line")]
# A text line whose '#' is not the first token of the line (`P7 # else`): never a directive; the line is its own probe.
HTEXT = [("htext", "else"), ("htext", "endif"), ("htext", "if 1")]


def symbols_inert():
    """Alphabet for the 'lines without effect' enumeration: junk-free core + INERT + HTEXT."""
    return symbols(with_te=False, junk=False) + INERT + HTEXT


def symbols_dead():
    """Alphabet for the 'skipped groups have no effect' enumeration: junk-free core + lines valid only when skipped."""
    return symbols(with_te=False, junk=False) + SKIPPED_ONLY


INIT = ((), False, False)      # (stack, xdef, after_te)


def active(stack):
    return all(f[2] for f in stack)


def enabled(state, sym, maxdepth):
    stack = state[0]
    k = sym[0]
    if k == "dead":
        return not active(stack)
    if k == "if" and sym[1] not in CONDS:
        return len(stack) < maxdepth and not active(stack)          # operand garbage: only where it is not evaluated
    if k == "elif" and sym[1] not in CONDS:
        # evaluated unless the enclosing group is skipped or an earlier group of this conditional was taken
        return bool(stack) and stack[-1][0] != ELSE and (not active(stack[:-1]) or stack[-1][1])
    if k in ("if", "ifdef", "ifndef"):
        return len(stack) < maxdepth
    if k in ("elif", "else"):
        return bool(stack) and stack[-1][0] != ELSE
    if k == "endif":
        return bool(stack)
    return True


def step(state, sym):
    """-> (state', probe_visible): probe_visible tells whether a text line placed right after this line is output.
    For ("te",) the line itself is the text line."""
    stack, xdef, _ = state
    k = sym[0]
    act = active(stack)
    if k == "te":
        return (stack, xdef, act), act
    if k == "htext":
        return (stack, xdef, False), act
    if k == "inert":
        return (stack, xdef, False), False          # no probe line is rendered after it
    if k == "dead":
        return (stack, xdef, False), act
    if k in ("if", "ifdef", "ifndef"):
        if not act:
            # nested conditional inside a skipped group: only its nesting matters; taken is normalised to True
            stack = stack + ((THEN, True, False),)
        else:
            v = cond_value(sym[1], xdef) if k == "if" else (xdef if k == "ifdef" else not xdef)
            stack = stack + ((THEN, v, v),)
    elif k == "elif":
        ctx, taken, a = stack[-1]
        if not active(stack[:-1]):
            stack = stack[:-1] + ((ELIF, True, False),)
        elif taken:
            stack = stack[:-1] + ((ELIF, True, False),)
        else:
            v = cond_value(sym[1], xdef)
            stack = stack[:-1] + ((ELIF, v, v),)
    elif k == "else":
        ctx, taken, a = stack[-1]
        if not active(stack[:-1]):
            stack = stack[:-1] + ((ELSE, True, False),)
        else:
            stack = stack[:-1] + ((ELSE, True, not taken),)
    elif k == "endif":
        stack = stack[:-1]
    elif k == "define":
        if act:
            xdef = True
    elif k == "undef":
        if act:
            xdef = False
    else:
        raise ValueError(sym)
    return (stack, xdef, False), active(stack)


def render(sym, i):
    """Source line(s) for symbol number i of a case (a probe line follows every directive)."""
    k = sym[0]
    if k == "te":
        return "P%d E\n" % i
    if k == "htext":
        return "P%d # %s\n" % (i, sym[1])
    if k == "inert":
        return sym[1] + "\n"
    if k == "dead":
        return "%s\nP%d\n" % (sym[1], i)
    if k == "if":
        d = "#if " + sym[1]
    elif k == "elif":
        d = "#elif " + sym[1]
    elif k == "define":
        d = "#define X 1"
    elif k == "undef":
        d = "#undef X" + (" J%d" % i if sym[1] else "")
    else:
        d = "#" + k + (" X" if k in ("ifdef", "ifndef") else "") + (" J%d" % i if sym[1] else "")
    return "%s\nP%d\n" % (d, i)


def run_sequence(seq):
    """-> (expected tokens, closers needed, list of (state, sym)) for a sequence from INIT."""
    st = INIT
    out = []
    trans = []
    for i, sym in enumerate(seq):
        trans.append((st, sym))
        st, vis = step(st, sym)
        if vis:
            out.append("P%d" % i)
            if sym[0] == "htext":
                out += ["#"] + sym[1].split()
    return out, len(st[0]), trans


def render_case(seq):
    out, nclose, _ = run_sequence(seq)
    txt = "#undef X\n" + "".join(render(s, i) for i, s in enumerate(seq)) + "#endif\n" * nclose
    return txt, out


def model_graph(maxdepth, syms):
    """BFS closure of the model: all states/transitions reachable with nesting <= maxdepth (any trace length)."""
    seen = {INIT}
    todo = [INIT]
    ntrans = 0
    while todo:
        nxt = []
        for st in todo:
            for s in syms:
                if not enabled(st, s, maxdepth):
                    continue
                ntrans += 1
                st2, _ = step(st, s)
                if st2 not in seen:
                    seen.add(st2)
                    nxt.append(st2)
        todo = nxt
    return len(seen), ntrans


def distinguishing_suffix(state):
    """Symbols that expose the remaining state: every open frame gets #else (if still allowed) and #endif, then X is
    probed with #ifdef X ... #endif (a probe line follows every directive when rendered)."""
    suf = []
    for ctx, taken, act in reversed(state[0]):
        if ctx != ELSE:
            suf.append(("else", 0))
        suf.append(("endif", 0))
    return suf + [("ifdef", 0), ("endif", 0)]


def transition_cover(maxdepth, syms, k=1):
    """For every state of the model closure (reached by a shortest trace) every run of k enabled symbols, followed by
    the distinguishing suffix: covers every transition of the model graph at least once."""
    path = {INIT: ()}
    todo = [INIT]
    while todo:
        nxt = []
        for st in todo:
            for s in syms:
                if enabled(st, s, maxdepth):
                    st2, _ = step(st, s)
                    if st2 not in path:
                        path[st2] = path[st] + (s,)
                        nxt.append(st2)
        todo = nxt

    def ext(st, seq, left):
        if left == 0:
            yield tuple(seq) + tuple(distinguishing_suffix(st))
            return
        for s in syms:
            if enabled(st, s, maxdepth):
                st2, _ = step(st, s)
                yield from ext(st2, seq + [s], left - 1)
    for st, p in path.items():
        yield from ext(st, list(p), k)


def pair_cover(maxdepth, syms, first, second):
    """For every state of the model closure over `syms` (shortest trace): every line of `first` followed DIRECTLY by
    every enabled symbol of `second`, then the distinguishing suffix."""
    path = {INIT: ()}
    todo = [INIT]
    while todo:
        nxt = []
        for st in todo:
            for s in syms:
                if enabled(st, s, maxdepth):
                    st2, _ = step(st, s)
                    if st2 not in path:
                        path[st2] = path[st] + (s,)
                        nxt.append(st2)
        todo = nxt
    for st, p in path.items():
        for a in first:
            if not enabled(st, a, maxdepth):
                continue
            st1, _ = step(st, a)
            for b in second:
                if enabled(st1, b, maxdepth):
                    st2, _ = step(st1, b)
                    yield p + (a, b) + tuple(distinguishing_suffix(st2))


def enumerate_sequences(prefix, n, maxdepth, syms, need=None):
    """All well-nested sequences of length <= n extending `prefix` (prefix itself included when len(prefix) >= 1);
    need: only sequences containing at least one symbol of this set."""
    st = INIT
    for s in prefix:
        if not enabled(st, s, maxdepth):
            return
        st, _ = step(st, s)

    def rec(seq, st, has_te):
        if seq and (has_te or not need):
            yield tuple(seq)
        if len(seq) >= n:
            return
        for s in syms:
            if enabled(st, s, maxdepth):
                st2, _ = step(st, s)
                seq.append(s)
                yield from rec(seq, st2, has_te or (need is not None and s in need))
                seq.pop()
    yield from rec(list(prefix), st, need is not None and any(s in need for s in prefix))


# =====================================================================================================
# 2. #if arithmetic (6.10.1p4: every signed type is intmax_t, every unsigned type uintmax_t)
# =====================================================================================================
# trees: ("lit", text, value, uns) | ("un", op, e) | ("bin", op, a, b) | ("cond", c, a, b)

def etext(e):
    k = e[0]
    if k == "lit":
        return e[1]
    if k == "un":
        return "(%s %s)" % (e[1], etext(e[2]))
    if k == "bin":
        return "(%s %s %s)" % (etext(e[2]), e[1], etext(e[3]))
    if k == "cond":
        return "(%s ? %s : %s)" % (etext(e[1]), etext(e[2]), etext(e[3]))
    raise ValueError(e)


def etype(e):
    """Static type (True = unsigned) - needed for unevaluated operands of ?: ."""
    k = e[0]
    if k == "lit":
        return e[3]
    if k == "un":
        return False if e[1] == "!" else etype(e[2])
    if k == "bin":
        op = e[1]
        if op in ("<", ">", "<=", ">=", "==", "!=", "&&", "||"):
            return False
        if op in ("<<", ">>"):
            return etype(e[2])
        return etype(e[2]) or etype(e[3])
    if k == "cond":
        return etype(e[2]) or etype(e[3])
    raise ValueError(e)


def _conv(v, uns):
    return v & M64 if uns else v


def ev(e):
    """-> (value, is_unsigned); value is the mathematical value of the intmax_t/uintmax_t result."""
    k = e[0]
    if k == "lit":
        if e[2] is None:
            raise Undef("literal")
        return e[2], e[3]
    if k == "un":
        op = e[1]
        v, u = ev(e[2])
        if op == "!":
            return int(v == 0), False
        if op == "+":
            return v, u
        if op == "-":
            if u:
                return (-v) & M64, True
            if v == IMIN:
                raise Undef("neg overflow")
            return -v, False
        if op == "~":
            return ((~v) & M64, True) if u else (~v, False)
        raise ValueError(op)
    if k == "cond":
        c, _ = ev(e[1])
        u = etype(e[2]) or etype(e[3])
        v, _u = ev(e[2] if c else e[3])
        return _conv(v, u), u
    op, a, b = e[1], e[2], e[3]
    if op == "&&":
        va, _ = ev(a)
        if not va:
            return 0, False
        vb, _ = ev(b)
        return int(vb != 0), False
    if op == "||":
        va, _ = ev(a)
        if va:
            return 1, False
        vb, _ = ev(b)
        return int(vb != 0), False
    va, ua = ev(a)
    vb, ub = ev(b)
    if op in ("<<", ">>"):
        if (not ub and vb < 0) or vb >= 64:
            raise Undef("shift count")
        if op == "<<":
            if ua:
                return (va << vb) & M64, True
            if va < 0 or (va << vb) > IMAX:
                raise Undef("signed left shift")
            return va << vb, False
        if ua:
            return va >> vb, True
        if va < 0:
            raise Undef("impl-defined right shift")
        return va >> vb, False
    u = ua or ub
    va, vb = _conv(va, u), _conv(vb, u)
    if op in ("<", ">", "<=", ">=", "==", "!="):
        r = {"<": va < vb, ">": va > vb, "<=": va <= vb, ">=": va >= vb, "==": va == vb, "!=": va != vb}[op]
        return int(r), False
    if op in ("/", "%"):
        if vb == 0:
            raise Undef("division by zero")
        if u:
            r = va // vb if op == "/" else va % vb
            return r, True
        if va == IMIN and vb == -1:
            raise Undef("overflow")
        q = abs(va) // abs(vb)
        if (va < 0) != (vb < 0):
            q = -q
        return (q, False) if op == "/" else (va - q * vb, False)
    if op == "+":
        r = va + vb
    elif op == "-":
        r = va - vb
    elif op == "*":
        r = va * vb
    elif op == "&":
        r = va & vb
    elif op == "|":
        r = va | vb
    elif op == "^":
        r = va ^ vb
    else:
        raise ValueError(op)
    if u:
        return r & M64, True
    if r < IMIN or r > IMAX:
        raise Undef("signed overflow")
    return r, False


def lit_for(v, u):
    """A spelling of the value v of type (u ? uintmax_t : intmax_t) built from simple constants."""
    if u:
        return "%dU" % v if v <= IMAX else "0x%xU" % v
    if v == IMIN:
        return "(-9223372036854775807 - 1)"
    return "(-%d)" % -v if v < 0 else "%d" % v


# =====================================================================================================
# 3. textual inclusion over a virtual file system
# =====================================================================================================
class Reject(Exception):
    """The translation unit is invalid (file not found, stray directive ...): no token stream is defined."""


_TOK = re.compile(r"[A-Za-z_][A-Za-z0-9_]*|\d+|==|!=|\S")
_COMMENT = re.compile(r"/\*.*?\*/|//.*$")


def lex(s):
    return _TOK.findall(s)


class VFS:
    """A file system with symbolic links: dirs = set of physical directory paths, files = {physical path: text},
    links = {physical path of the link: target string}.  Paths are resolved the way the kernel does (POSIX 4.13):
    component by component, `..` is the parent of the PHYSICAL directory reached so far, a link's target is resolved
    relative to the directory holding the link.  No textual simplification of a spelling is ever made."""

    def __init__(self, dirs, files, links):
        self.dirs = set(dirs) | {"/"}
        self.files = dict(files)
        self.links = dict(links)

    @staticmethod
    def parent(p):
        return os.path.dirname(p) or "/"

    def lookup(self, start, path, depth=0):
        """-> (physical path of the directory or file named by `path` seen from directory `start`, physical
        directory in which its last component was looked up) or None"""
        if depth > 8:
            return None
        cur = "/" if path.startswith("/") else start
        held = cur
        comps = path.split("/")
        for i, c in enumerate(comps):
            last = i == len(comps) - 1
            if c in ("", "."):
                continue
            if c == "..":
                cur = held = self.parent(cur)
                continue
            p = (cur if cur != "/" else "") + "/" + c
            held = cur
            if p in self.links:
                r = self.lookup(cur, self.links[p], depth + 1)
                if r is None:
                    return None
                p = r[0]
            if last:
                return (p, held) if (p in self.files or p in self.dirs) else None
            if p not in self.dirs:
                return None
            cur = p
        return (cur, held)

    def lookup_file(self, start, path):
        r = self.lookup(start, path)
        return r if r is not None and r[0] in self.files else None


def path_spellings(vfs, base, comps, leaves, maxlen):
    """Every relative spelling c1/c2/.../leaf with <= maxlen components out of `comps` (the first one not empty: that
    would be an absolute path) which names an existing file when looked up from directory `base`.
    -> [(spelling, number of components, physical file)] in a fixed order"""
    import itertools
    out = []
    for n in range(maxlen + 1):
        for seq in itertools.product(comps, repeat=n):
            if seq and seq[0] == "":
                continue
            for leaf in leaves:
                sp = "/".join(seq + (leaf,))
                r = vfs.lookup_file(base, sp)
                if r is not None:
                    out.append((sp, n, r[0]))
    return out


_HEADER_NAME = re.compile(r'^\s*#\s*(include|include_next)\s*("[^"\n]*"|<[^>\n]*>)\s*$')


class Cpp:
    """files: {normalised absolute path: text}; chain: ordered search directories (-I..., system, -idirafter).
    Macros are object-like with at most one replacement token (enough for guards, -D/-U and #include NAME)."""

    def __init__(self, files, chain, macros=None, maxdepth=40, vfs=None, once_by_spelling=False):
        self.files = files
        # #pragma once identifies a file by (False) what the name resolves to | (True) the path string as put together
        # from the directory searched and the spelling in the directive, without any simplification.  Both are
        # conforming (implementation-defined); they differ only for one file reached through two spellings.
        self.once_by_spelling = once_by_spelling
        self.vfs = vfs              # None: `files` is keyed by normalised absolute paths and there are no links
        self.chain = list(chain)
        self.macros = dict(macros or {})
        self.fmacros = {}           # name -> (parameter, body tokens)
        self.once = set()
        self.out = []
        self.maxdepth = maxdepth
        self.depth = 0
        self.included = []          # resolved paths in inclusion order
        self.events = []            # (directive, quote, name, resolved path, chain index, len(out) at that point, includer)
        self.pending = None

    # ---- lookup ---------------------------------------------------------
    def _locate(self, d, name):
        """-> (identity of the file `name` looked up from directory d, directory in which the last component of the
        name was looked up = the directory a quote-form #include inside that file starts in) or None"""
        if self.vfs is not None:
            return self.vfs.lookup_file(d, name)
        p = os.path.normpath(name if name.startswith("/") else d + "/" + name)
        return (p, os.path.dirname(p)) if p in self.files else None

    def _find(self, name, start):
        for i in range(start, len(self.chain)):
            r = self._locate(self.chain[i], name)
            if r is not None:
                return r[0], i, r[1]
        raise Reject("not found: " + name)

    def resolve(self, name, quote, cur_dir, cur_idx, nxt):
        """-> (file, index in the chain or None, directory of the file as named)"""
        if name.startswith("/"):
            r = self._locate("/", name)
            if r is None:
                return os.path.normpath(name), None, os.path.dirname(os.path.normpath(name))
            return r[0], None, r[1]
        if nxt:
            return self._find(name, 0 if cur_idx is None else cur_idx + 1)
        if quote:
            r = self._locate(cur_dir, name)
            if r is not None:
                return r[0], None, r[1]
        return self._find(name, 0)

    # ---- expressions of the restricted #if language ----------------------
    def expand(self, t):
        """Object-like macros with a one-token body: rescan until the name is not a macro (or is painted)."""
        seen = set()
        while t in self.macros and t not in seen:
            seen.add(t)
            t = self.macros[t]
        return t

    def _atom(self, t):
        t = self.expand(t)
        if t == "":
            raise Reject("empty operand in #if")
        if t[0].isdigit():
            return int(t, 0)
        if t[0].isalpha() or t[0] == "_":
            return 0
        raise Undef("cond atom")

    def _cond(self, toks):
        if len(toks) == 3 and toks[1] in ("==", "!="):
            return (self._atom(toks[0]) == self._atom(toks[2])) == (toks[1] == "==")
        neg = False
        while toks and toks[0] == "!":
            neg = not neg
            toks = toks[1:]
        if toks and toks[0] == "defined":
            t = [x for x in toks[1:] if x not in "()"]
            if len(t) != 1:
                raise Undef("cond")
            v = t[0] in self.macros or t[0] in self.fmacros
        elif len(toks) == 1:
            v = self._atom(toks[0]) != 0
        else:
            raise Undef("cond")
        return v != neg

    # ---- processing -----------------------------------------------------
    def run(self, path, preinclude=()):
        for p in preinclude:
            self.process(os.path.normpath(p), None, primary=False)
        self.process(os.path.normpath(path), None, primary=True)
        return self.out

    def process(self, path, idx, primary=False, ldir=None, okey=None):
        """path: identity of the file; ldir: the directory it was found in as named (differs from the directory of
        `path` only when the name's last component is a symbolic link to a file elsewhere); okey: the path string as
        spelled (directory searched + "/" + name in the directive)"""
        okey = okey if (self.once_by_spelling and okey is not None) else path
        if okey in self.once:
            return
        if ldir is None:
            ldir = os.path.dirname(path)
        if path not in self.files:
            raise Reject("no such file " + path)
        self.depth += 1
        if self.depth > self.maxdepth:
            raise Reject("include depth")
        self.included.append(path)
        stack = []      # [ctx, taken, active]
        # translation phases 2 and 3 as far as needed: splice lines, drop comments (never spanning lines here)
        for line in self.files[path].replace("\\\n", "").split("\n"):
            hn = _HEADER_NAME.match(line)
            if hn:      # a header-name is one preprocessing token (6.4.7): `//` inside it does not start a comment
                toks = ["#", hn.group(1)] + lex(hn.group(2))
            else:
                toks = lex(_COMMENT.sub(" ", line))
            if not toks:
                continue
            act = all(f[2] for f in stack)
            if toks[0] != "#":
                if act:
                    i = 0
                    while i < len(toks):
                        t = toks[i]
                        i += 1
                        fn = self.fmacros.get(t)
                        if fn and i < len(toks) and toks[i] == "(":
                            # one-parameter function-like macro, argument without commas; no rescanning needed here
                            depth, j = 0, i
                            while True:
                                depth += {"(": 1, ")": -1}.get(toks[j], 0)
                                if depth == 0:
                                    break
                                j += 1
                            arg = toks[i + 1:j]
                            for b in fn[1]:
                                for x in (arg if b == fn[0] else [b]):
                                    x = self.expand(x)          # rescan: object-like macros only
                                    if x != "":
                                        self.out.extend(lex(x))
                            i = j + 1
                            continue
                        t = self.expand(t)
                        if t != "":
                            self.out.extend(lex(t))
                continue
            d = toks[1] if len(toks) > 1 else ""
            a = toks[2:]
            if d in ("if", "ifdef", "ifndef"):
                if not act:
                    stack.append([THEN, True, False])
                else:
                    v = self._cond(a) if d == "if" else ((a[0] in self.macros or a[0] in self.fmacros) == (d == "ifdef"))
                    stack.append([THEN, v, v])
            elif d == "elif":
                if not stack or stack[-1][0] == ELSE:
                    raise Reject("stray elif")
                f = stack[-1]
                f[0] = ELIF
                if not all(g[2] for g in stack[:-1]) or f[1]:
                    f[1], f[2] = True, False
                else:
                    v = self._cond(a)
                    f[1], f[2] = v, v
            elif d == "else":
                if not stack or stack[-1][0] == ELSE:
                    raise Reject("stray else")
                f = stack[-1]
                f[0] = ELSE
                if not all(g[2] for g in stack[:-1]):
                    f[1], f[2] = True, False
                else:
                    f[1], f[2] = True, not f[1]
            elif d == "endif":
                if not stack:
                    raise Reject("stray endif")
                stack.pop()
            elif not act:
                continue
            elif d == "" or d == "line" or d.isdigit():
                # null directive (6.10.7); #line / the GNU line marker `# 7 "file"` change the PRESUMED line number and
                # file name only (6.10.4): no token, and never the file a later #include selects
                continue
            elif d == "define" and re.match(r"\s*#\s*define\s+\w+\(\w+\)", line):
                self.macros.pop(a[0], None)
                self.fmacros[a[0]] = (a[2], a[4:])
            elif d == "define":
                self.fmacros.pop(a[0], None)
                self.macros[a[0]] = "".join(a[1:]) if len(a) > 1 and a[1] in ('"', "<") else (a[1] if len(a) > 1 else "")
            elif d == "undef":
                self.macros.pop(a[0], None)
                self.fmacros.pop(a[0], None)
            elif d == "pragma":
                if a and a[0] == "once":
                    self.once.add(okey)
            elif d in ("include", "include_next"):
                if a and a[0] in self.macros:
                    a = lex(self.macros[a[0]])
                if a[0] == '"':
                    j = a.index('"', 1)
                    name, quote = "".join(a[1:j]), True
                elif a[0] == "<":
                    j = a.index(">")
                    name, quote = "".join(a[1:j]), False
                else:
                    raise Undef("include form")
                nxt = d == "include_next"
                if nxt and primary:
                    raise Undef("#include_next in the primary file")
                self.pending = (d, quote, name, path)       # the lookup in progress (kept when it raises Reject)
                p, i, pdir = self.resolve(name, quote, ldir, idx, nxt)
                self.events.append((d, quote, name, p, i, len(self.out), path))
                spelled = name if name.startswith("/") else (ldir if i is None else self.chain[i]) + "/" + name
                self.process(p, i, ldir=pdir, okey=spelled)
            else:
                raise Undef("directive " + d)
        if stack:
            raise Reject("unterminated conditional")
        self.depth -= 1
