struct B { int a : 7; unsigned b : 25; long c : 33; char d : 8; _Bool e : 1; int : 0; unsigned long g : 64; } b;
int f(void) { b.a = 1; b.c = 2; b.g = 3; return b.a + b.b + b.c; }
