char *s = "a" L"b" u"c";
