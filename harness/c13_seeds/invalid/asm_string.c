int f(void) { asm(1); return 0; }
