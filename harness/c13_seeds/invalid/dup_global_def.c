int x = 1;
int x = 2;
