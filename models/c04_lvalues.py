"""Generators and reference models of three C04 families (used by checks/c04.py):

 (i) px  pointer arithmetic as lvalue designator: index operand EXPRESSIONS of every integer type x operator forms x element sizes
 (j) bn  stores to a bit-field (or a member in its storage unit) whose right-hand side itself writes to a neighbour
 (k) cl  identity and lifetime of compound literals (each evaluation a fresh object; one object per activation; file scope: static)

Every unit is compiled by the chibicc under test only; harness/c04_drv.h (gcc) judges.  The reference values of (j) are computed
here by a small interpreter over the statement templates (64-bit two's complement values, conversion on every store) and handed to
the driver as tables; gcc -O0 on the same unit is the second oracle (checks/c04.py REF_FAMS).
"""

M64 = (1 << 64) - 1


class Case:
    __slots__ = ("fam", "cid", "cls", "spec")

    def __init__(self, fam, cid, cls, spec):
        self.fam, self.cid, self.cls, self.spec = fam, cid, cls, spec


# ================================================================================================ (i) pointer arithmetic
# element types: name -> (typedef text with %s for the name | None for void, size, class used in the signature)
PX_ELEMS = {
    "char": ("typedef char %s;", 1), "void": (None, 1), "short": ("typedef short %s;", 2),
    "s3": ("typedef struct { char c[3]; } %s;", 3), "int": ("typedef int %s;", 4), "long": ("typedef long %s;", 8),
    "s16": ("typedef struct { long a, b; } %s;", 16), "s24": ("typedef struct { long a[3]; } %s;", 24),
    # thorough only
    "uchar": ("typedef unsigned char %s;", 1), "schar": ("typedef signed char %s;", 1), "float": ("typedef float %s;", 4),
    "double": ("typedef double %s;", 8), "ptr": ("typedef char *%s;", 8), "s6": ("typedef struct { short a[3]; } %s;", 6),
    "s12": ("typedef struct { int a[3]; } %s;", 12), "s5": ("typedef struct { char c[5]; } %s;", 5),
}
PX_ELEMS_QUICK = ["char", "void", "short", "s3", "int", "long", "s16", "s24"]
# operand types: name -> (C type, bits, signed)
PX_TYPES = [("schar", "signed char", 8, 1), ("short", "short", 16, 1), ("int", "int", 32, 1), ("long", "long", 64, 1),
            ("uchar", "unsigned char", 8, 0), ("ushort", "unsigned short", 16, 0), ("uint", "unsigned int", 32, 0), ("ulong", "unsigned long", 64, 0),
            ("bool", "_Bool", 1, 0)]
# operand kinds: name -> group used in the signature
PX_KINDS = {"local": "var", "global": "var", "member": "var", "ptr-member": "var", "bitfield": "var", "deref": "var", "elem": "var",
            "sub": "computed", "add": "computed", "mul": "computed", "div": "computed", "neg": "computed", "not": "computed", "and": "computed",
            "cond": "computed", "comma": "computed", "assign": "computed", "opassign": "computed", "postinc": "computed", "preinc": "computed",
            "postdec": "computed", "predec": "computed", "stmtexpr": "computed", "complit": "computed",
            "call": "call", "cast": "cast", "cast-double": "cast", "literal": "literal"}
PX_BOOL_KINDS = ("local", "global", "member", "ptr-member", "bitfield", "deref", "elem", "cond", "comma", "assign", "stmtexpr", "complit", "call", "cast")
# operator forms; the order is the id passed to the driver (px_forms[] in harness/c04_drv.h must list the same names)
PX_FORMS = ["base", "p+n", "n+p", "p-n", "p[n]", "n[p]", "p+=n", "p-=n", "(a+4)[n]", "&a[4]-n", "(p+n)-p", "(p-n)-p",
            "++p", "p++", "--p", "p--"]
PX_FID = dict((n, i) for i, n in enumerate(PX_FORMS))


def px_operand(kind, tname, i):
    """-> (file-scope helpers, setup statements (re-run before every use), operand expression, (lo, hi) of the value range) or None.
    `v` is a long holding the value the operand must have."""
    cty, bits, sgn = [(c, b, s) for n, c, b, s in PX_TYPES if n == tname][0]
    narrow = bits < 32
    isbool = tname == "bool"
    if isbool and kind not in PX_BOOL_KINDS:
        return None
    lo, hi = (-4, 4) if sgn else (0, 1) if isbool else (0, 4)
    dirt = 0 if bits >= 64 else (5 << bits)
    H = ""
    if kind == "local":
        S, N = "%s i = v;" % cty, "i"
    elif kind == "global":
        H = "static %s gi%d;\n" % (cty, i); S, N = "gi%d = v;" % i, "gi%d" % i
    elif kind == "member":
        S, N = "struct { char pad; %s m; } s; s.m = v;" % cty, "s.m"
    elif kind == "ptr-member":
        H = "struct PM%d { char pad; %s m; };\n" % (i, cty); S, N = "struct PM%d s, *ps = &s; s.m = v;" % i, "ps->m"
    elif kind == "bitfield":
        S, N = "struct { unsigned pad:3; %s b:%d; } s; s.b = v;" % (cty, 1 if isbool else 5 if sgn else 4), "s.b"
    elif kind == "deref":
        S, N = "%s i = v; %s *pi = &i;" % (cty, cty), "(*pi)"
    elif kind == "elem":
        S, N = "%s ia[3]; ia[2] = v;" % cty, "ia[2]"
    elif kind == "sub":
        S, N = "%s i = v + 7; %s j = 7;" % (cty, cty), "(i - j)"
        if not sgn and narrow:
            lo = -4       # promoted to int: the difference may be negative
    elif kind == "add":
        S, N = "%s i = v - 7; %s j = 7;" % (cty, cty), "(i + j)"
        if not sgn and narrow:
            return None          # i = v - 7 is not representable in the narrow unsigned type
    elif kind == "mul":
        if sgn:
            S, N = "%s i = -v; %s j = -1;" % (cty, cty), "(i * j)"
        else:
            S, N = "%s i = v; %s j = 1;" % (cty, cty), "(i * j)"
    elif kind == "div":
        S, N = "%s i = v * 2; %s j = 2;" % (cty, cty), "(i / j)"
    elif kind == "neg":
        if sgn:
            S, N = "%s i = -v;" % cty, "(-i)"
        elif narrow:
            S, N = "%s i = -v;" % cty, "(-i)"; lo, hi = -4, 0
        else:
            return None
    elif kind == "not":
        if sgn:
            S, N = "%s i = ~v;" % cty, "(~i)"
        elif narrow:
            S, N = "%s i = ~v;" % cty, "(~i)"; lo, hi = -4, -1
        else:
            return None
    elif kind == "and":
        S, N = "%s i = v; %s j = -1;" % (cty, cty), "(i & j)"
    elif kind == "cond":
        S, N = "%s i = v; %s j = 9;" % (cty, cty) if not isbool else "_Bool i = v; _Bool j = !v;", "(x ? i : j)"
    elif kind == "comma":
        S, N = "%s i = v;" % cty, "(c04_id(0), i)"
    elif kind == "assign":
        S, N = ("%s i = 0; long w = v + %d;" % (cty, dirt) if not isbool else "_Bool i = !v; long w = v * 256;"), "(i = w)"
    elif kind == "opassign":
        S, N = "%s i = v - 3;" % cty, "(i += 3)"
    elif kind == "postinc":
        S, N = "%s i = v;" % cty, "(i++)"
    elif kind == "preinc":
        S, N = "%s i = v - 1;" % cty, "(++i)"
    elif kind == "postdec":
        S, N = "%s i = v;" % cty, "(i--)"
    elif kind == "predec":
        S, N = "%s i = v + 1;" % cty, "(--i)"
    elif kind == "stmtexpr":
        S, N = "%s i = v;" % cty, "({ i; })"
    elif kind == "complit":
        S, N = "long w = v;", "((%s){w})" % cty
    elif kind == "call":
        H = "static %s fo%d(long v) { return v; }\n" % (cty, i); S, N = "", "fo%d(v)" % i
    elif kind == "cast":
        S, N = ("long w = v + %d;" % dirt if not isbool else "long w = v * 256;"), "((%s)w)" % cty
    elif kind == "cast-double":
        S, N = "double d = v;", "((%s)d)" % cty
    elif kind == "literal":
        if tname not in ("int", "long", "uint", "ulong"):
            return None
        S, N = "", None      # spelled per value
    else:
        raise ValueError(kind)
    return H, S, N, (lo, hi)


def px_literal(tname, v):
    suf = {"int": "", "long": "L", "uint": "U", "ulong": "UL"}[tname]
    return "(-%d%s)" % (-v, suf) if v < 0 else "%d%s" % (v, suf)


def px_cases(tier):
    elems = PX_ELEMS_QUICK if tier == "quick" else list(PX_ELEMS)
    cases = []
    for e in elems:
        sz = PX_ELEMS[e][1]
        cases.append(Case("px", "px/%s/incdec" % e, "ptr-index|size=%d,none" % sz, (e, "incdec", "none")))
        for kind, grp in PX_KINDS.items():
            for tname, cty, bits, sgn in PX_TYPES:
                if px_operand(kind, tname, 0) is None:
                    continue
                cases.append(Case("px", "px/%s/%s/%s" % (e, kind, tname), "ptr-index|size=%d,%s" % (sz, grp), (e, kind, tname)))
    return cases


def px_blocks(e, N, S, forms):
    """the checks of one operand expression N (value v) in every operator form"""
    void = e == "void"
    E = "char" if void else "E"
    PT = "void *" if void else "E *"

    def LV(a, lv):
        return "*(char *)(%s)" % a if void else lv
    out = []

    def blk(fid, sign, A, lv, pre=""):
        # address first (never dereferenced when wrong), then a store through the lvalue, then a load through it
        out.append("{ %s %s %sa_ = %s; if (c04_at(a_, arr, v, %d, sizeof(%s), %d)) { { %s %s %s = mk; } c04_marked(ka, v, %d, sizeof(%s), %d); "
                   "{ %s %s %s t_ = %s; c04_rd(&t_, ka, v, %d, sizeof(%s), %d); } } }"
                   % (S, pre, PT, A, sign, E, fid, S, pre, LV(A, lv), sign, E, fid, S, pre, E, LV(A, lv), sign, E, fid))
    for f in forms:
        fid = PX_FID[f]
        if f == "p+n":
            blk(fid, 1, "p + %s" % N, "*(p + %s)" % N)
        elif f == "n+p":
            blk(fid, 1, "%s + p" % N, "*(%s + p)" % N)
        elif f == "p-n":
            blk(fid, -1, "p - %s" % N, "*(p - %s)" % N)
        elif f == "p[n]" and not void:
            blk(fid, 1, "&p[%s]" % N, "p[%s]" % N)
        elif f == "n[p]" and not void:
            blk(fid, 1, "&%s[p]" % N, "%s[p]" % N)
        elif f == "p+=n":
            blk(fid, 1, "(q += %s)" % N, "*(q += %s)" % N, pre="%sq = p;" % PT)
            out.append("{ %s %sq = p; q += %s; c04_at(q, arr, v, 1, sizeof(%s), %d); }" % (S, PT, N, E, fid))
        elif f == "p-=n":
            blk(fid, -1, "(q -= %s)" % N, "*(q -= %s)" % N, pre="%sq = p;" % PT)
            out.append("{ %s %sq = p; q -= %s; c04_at(q, arr, v, -1, sizeof(%s), %d); }" % (S, PT, N, E, fid))
        elif f == "(a+4)[n]" and not void:
            blk(fid, 1, "&(arr + 4)[%s]" % N, "(arr + 4)[%s]" % N)
        elif f == "&a[4]-n" and not void:
            blk(fid, -1, "&arr[4] - %s" % N, "*(&arr[4] - %s)" % N)
        elif f == "(p+n)-p":
            out.append("{ %s c04_pd((p + %s) - p, v, %d); }" % (S, N, fid))
        elif f == "(p-n)-p":
            out.append("{ %s c04_pd(p - (p - %s), v, %d); }" % (S, N, fid))
    return "\n    ".join(out)


def px_unit_one(i, c):
    e, kind, tname = c.spec
    tdef, esz = PX_ELEMS[e]
    void = e == "void"
    E = "char" if void else "E"
    PT = "void *" if void else "E *"
    head = ("long x%d(long x) { char g0[16]; %s arr[9]; char g1[16]; long m = c04_mark(); c04_reg(g0, 16, 1, 0); long ka = c04_reg(arr, sizeof arr, 1, 1); "
            "c04_reg(g1, 16, 1, 2);\n  %s mk; c04_mk(&mk, sizeof mk); %sp = &arr[4]; c04_at(p, arr, 0, 1, sizeof(%s), 0);\n" % (i, E, E, PT, E))
    tail = "\n  c04_verify(); c04_drop(m); return x + 1; }\n"
    pre = "#define E E%d\n%s\n" % (i, tdef % ("E%d" % i)) if not void else ""
    post = "#undef E\n" if not void else ""
    if kind == "incdec":
        b = []
        for f, expr, va, vq in (("++p", "++q", 1, 1), ("p++", "q++", 0, 1), ("--p", "--q", -1, -1), ("p--", "q--", 0, -1)):
            fid = PX_FID[f]
            b.append("{ long v = c04_id(%d); %sq = p; %sa_ = %s; c04_at(q, arr, %d, 1, sizeof(%s), %d); if (c04_at(a_, arr, v, 1, sizeof(%s), %d)) { q = p; %s = mk; c04_marked(ka, v, 1, sizeof(%s), %d); } }"
                     % (va, PT, PT, expr, vq, E, fid, E, fid, "*(char *)(%s)" % expr if void else "*%s" % expr, E, fid))
        return pre + head + "  " + "\n  ".join(b) + tail + post
    H, S, N, (lo, hi) = px_operand(kind, tname, i)
    forms = PX_FORMS[1:12]
    if kind == "literal":
        body = "\n".join("  { long v = c04_id(%d);\n    %s }" % (v, px_blocks(e, px_literal(tname, v), "", forms)) for v in range(lo, hi + 1))
    else:
        body = "  for (long k = 0; k < %d; k++) { long v = c04_pxv(k, %d);\n    %s }" % (hi - lo + 1, lo, px_blocks(e, N, S, forms))
    return pre + H + head + body + tail + post


def px_row(c):
    return "{5, 6, 0, {%d}}" % PX_ELEMS[c.spec[0]][1]


# ================================================================================================ (j) bit-field RHS writes a neighbour
def conv(kind, w, x):
    """value x (any int) stored into a field: 64-bit two's complement image of the converted value"""
    x &= M64
    if kind == "b":
        return 1 if x else 0
    if w >= 64:
        return x
    m = (1 << w) - 1
    x &= m
    if kind == "s" and (x >> (w - 1)) & 1:
        x |= M64 & ~m
    return x


# layouts: name -> (unit class for the signature, [(field, C type, width | None, kind)])
BN_LAYOUTS = {
    "int4": ("int", [("a", "unsigned", 4, "u"), ("b", "unsigned", 4, "u"), ("c", "unsigned", 8, "u"), ("d", "int", 16, "s")]),
    "long3": ("long", [("a", "long", 20, "s"), ("b", "long", 24, "s"), ("c", "unsigned long", 20, "u")]),
    "char3": ("narrow", [("a", "unsigned char", 3, "u"), ("b", "signed char", 5, "s"), ("c", "unsigned char", 7, "u")]),
    "short3": ("narrow", [("a", "short", 5, "s"), ("b", "unsigned short", 6, "u"), ("c", "short", 5, "s")]),
    "mem": ("with-member", [("m", "signed char", None, "s"), ("f", "int", 8, "s"), ("n", "unsigned char", None, "u")]),
    "bool4": ("int", [("a", "_Bool", 1, "b"), ("b", "unsigned", 7, "u"), ("c", "_Bool", 1, "b"), ("d", "int", 3, "s")]),
    "two-units": ("int", [("a", "unsigned", 20, "u"), ("b", "int", 20, "s"), ("c", "unsigned", 9, "u")]),
    "mixed": ("mixed", [("a", "int", 17, "s"), ("b", "long", 30, "s"), ("c", "unsigned long", 17, "u")]),
}
BN_MEMBITS = {"signed char": 8, "unsigned char": 8}
BN_PATHS = ["ptr", "dot", "local", "arr", "nested"]
BN_GROUPS = ["chain", "rhs-incdec", "rhs-compound", "compound-lhs", "call", "comma", "cond", "operands", "stmtexpr", "lhs-writes", "whole-struct", "union-overlap"]
BN_VW = [(9, 5), (-3, 2), (0x155, -1)]

# statement templates: (group, C text over X Y Z v w q T, program for the interpreter)
# program: nested tuples; see bn_eval
def _A(f, e): return ("asg", f, e)
def _O(f, op, e): return ("opasg", f, op, e)
V, W = ("v",), ("w",)
BN_TEMPLATES = [
    ("chain", "X = Y = v", _A("X", _A("Y", V))),
    ("chain", "X = Y = Z = v", _A("X", _A("Y", _A("Z", V)))),
    ("chain", "X = Y = X + v", _A("X", _A("Y", ("bin", "+", ("get", "X"), V)))),
    ("rhs-incdec", "X = Y++", _A("X", ("post", "Y", 1))),
    ("rhs-incdec", "X = ++Y", _A("X", ("pre", "Y", 1))),
    ("rhs-incdec", "X = Y--", _A("X", ("post", "Y", -1))),
    ("rhs-incdec", "X = --Y", _A("X", ("pre", "Y", -1))),
    ("rhs-compound", "X = (Y += v)", _A("X", _O("Y", "+", V))),
    ("rhs-compound", "X = (Y -= v)", _A("X", _O("Y", "-", V))),
    ("rhs-compound", "X = (Y |= v)", _A("X", _O("Y", "|", V))),
    ("rhs-compound", "X = (Y &= v)", _A("X", _O("Y", "&", V))),
    ("rhs-compound", "X = (Y ^= v)", _A("X", _O("Y", "^", V))),
    ("compound-lhs", "X += (Y = v)", _O("X", "+", _A("Y", V))),
    ("compound-lhs", "X -= (Y = v)", _O("X", "-", _A("Y", V))),
    ("compound-lhs", "X |= (Y = v)", _O("X", "|", _A("Y", V))),
    ("compound-lhs", "X &= (Y = v)", _O("X", "&", _A("Y", V))),
    ("compound-lhs", "X ^= (Y += v)", _O("X", "^", _O("Y", "+", V))),
    ("compound-lhs", "X += Y++", _O("X", "+", ("post", "Y", 1))),
    ("call", "X = h1_I(q, v, w)", _A("X", ("seq", [_A("Y", V)], W))),
    ("call", "X = h2_I(q, v, w)", _A("X", ("seq", [_A("Y", V), _A("Z", W)], ("bin", "+", V, W)))),
    ("call", "X += h1_I(q, v, w)", _O("X", "+", ("seq", [_A("Y", V)], W))),
    ("call", "X |= h2_I(q, v, w)", _O("X", "|", ("seq", [_A("Y", V), _A("Z", W)], ("bin", "+", V, W)))),
    ("comma", "X = (Y = v, w)", _A("X", ("seq", [_A("Y", V)], W))),
    ("comma", "X = (Y = v, Z = w, Y + Z)", _A("X", ("seq", [_A("Y", V), _A("Z", W)], ("bin", "+", ("get", "Y"), ("get", "Z"))))),
    ("cond", "X = x ? (Y = v) : (Z = w)", _A("X", _A("Y", V))),
    ("cond", "X = !x ? (Y = v) : (Z = w)", _A("X", _A("Z", W))),
    ("cond", "X = ((Y = 5) && (Z = w))", _A("X", ("seq", [_A("Y", ("num", 5)), _A("Z", W)], ("num", 1)))),
    ("operands", "X = (Y = v) + (Z = w)", _A("X", ("bin", "+", _A("Y", V), _A("Z", W)))),
    ("operands", "X = -(Y = v)", _A("X", ("neg", _A("Y", V)))),
    ("stmtexpr", "X = ({ Y = v; Z = w; v + w; })", _A("X", ("seq", [_A("Y", V), _A("Z", W)], ("bin", "+", V, W)))),
    ("lhs-writes", "(Y = v, q)->X = w", ("seq", [_A("Y", V)], _A("X", W))),
    ("lhs-writes", "(Y = v, q)->X += w", ("seq", [_A("Y", V)], _O("X", "+", W))),
    ("lhs-writes", "(Y = v, q)->X++", ("seq", [_A("Y", V)], ("post", "X", 1))),
    ("lhs-writes", "--(Y = v, q)->X", ("seq", [_A("Y", V)], ("pre", "X", -1))),
    # the lvalue's address computation increments a neighbour: exactly once, whatever the store does with the address
    ("lhs-writes", "(Y++, q)->X += w", ("seq", [("post", "Y", 1)], _O("X", "+", W))),
    ("lhs-writes", "(Y++, q)->X++", ("seq", [("post", "Y", 1)], ("post", "X", 1))),
    ("lhs-writes", "(++Y, q)->X = w", ("seq", [("pre", "Y", 1)], _A("X", W))),
    ("lhs-writes", "(Y--, q)->X |= (Z = w)", ("seq", [("post", "Y", -1)], _O("X", "|", _A("Z", W)))),
    ("whole-struct", "X = (*q = T, w)", _A("X", ("seq", [("all",)], W))),
    # R is an unsigned long that overlaps the whole struct (anonymous union); A is the image of T read through it
    ("union-overlap", "X = (R = A, w)", _A("X", ("seq", [("all",)], W))),
    ("union-overlap", "X = hr_I(&R, A, w)", _A("X", ("seq", [("all",)], W))),
]
BN_ALT = [6, 3, 2, 1]       # values of the fields of T (whole-struct templates), by field position


def bn_eval(e, st, fld, bind, v, w):
    """interpreter: evaluates e left to right; st: field -> value image; returns the 64-bit image of the value"""
    k = e[0]
    if k == "v":
        return v & M64
    if k == "w":
        return w & M64
    if k == "num":
        return e[1] & M64
    if k == "get":
        return st[bind[e[1]]]
    if k == "asg":
        r = bn_eval(e[2], st, fld, bind, v, w)
        f = bind[e[1]]
        st[f] = conv(fld[f][1], fld[f][0], r)
        return st[f]
    if k == "opasg":
        f = bind[e[1]]
        r = bn_eval(e[3], st, fld, bind, v, w)
        old = st[f]        # the left operand is read after the right operand had its side effects only if they do not touch it
        x = {"+": old + r, "-": old - r, "|": old | r, "&": old & r, "^": old ^ r}[e[2]]
        st[f] = conv(fld[f][1], fld[f][0], x)
        return st[f]
    if k in ("post", "pre"):
        f = bind[e[1]]
        old = st[f]
        st[f] = conv(fld[f][1], fld[f][0], old + e[2])
        return old if k == "post" else st[f]
    if k == "bin":
        a = bn_eval(e[2], st, fld, bind, v, w)
        b = bn_eval(e[3], st, fld, bind, v, w)
        return {"+": a + b, "-": a - b}[e[1]] & M64
    if k == "neg":
        return (-bn_eval(e[1], st, fld, bind, v, w)) & M64
    if k == "seq":
        for s in e[1]:
            bn_eval(s, st, fld, bind, v, w)
        return bn_eval(e[2], st, fld, bind, v, w)
    if k == "all":
        for n, f in enumerate(sorted(fld, key=lambda f: fld[f][2])):
            st[f] = conv(fld[f][1], fld[f][0], BN_ALT[n])
        return 0
    raise ValueError(k)


def bn_cases(tier):
    cases = []
    for lay, (ucls, fields) in BN_LAYOUTS.items():
        names = [f[0] for f in fields]
        for path in BN_PATHS:
            for X in names:
                for Y in names:
                    if X == Y:
                        continue
                    Z = [n for n in names if n not in (X, Y)][0]
                    cases.append(Case("bn", "bn/%s/%s/%s=..%s..%s" % (lay, path, X, Y, Z), "bitfield-rhs-writes|unit=%s" % ucls, (lay, path, X, Y, Z)))
    return cases


def bn_fields(lay):
    fld = {}
    for n, (name, cty, w, kind) in enumerate(BN_LAYOUTS[lay][1]):
        fld[name] = (w if w is not None else BN_MEMBITS[cty], kind, n)
    return fld


def bn_unit_one(i, c):
    lay, path, X, Y, Z = c.spec
    fields = BN_LAYOUTS[lay][1]
    names = [f[0] for f in fields]
    body = " ".join("%s %s%s;" % (cty, name, "" if w is None else ":%d" % w) for name, cty, w, kind in fields)
    fdef = "struct F%d { %s };" % (i, body)
    sdef = "struct S%d { union { struct F%d f; unsigned long raw; }; };" % (i, i)
    odef = "struct O%d { char g0[16]; struct S%d s; char g1[16]; };" % (i, i)
    base = "p->s.f"
    prolog = epilog = ""
    if path == "dot":
        base = "o%d.s.f" % i
    elif path == "arr":
        odef = "struct O%d { char g0[16]; struct S%d s[2]; char g1[16]; };" % (i, i)
        base = "p->s[1].f"
    elif path == "nested":
        sdef = "struct S%d { char lead; struct { long k; union { struct F%d f; unsigned long raw; }; } in; };" % (i, i)
        base = "p->s.in.f"
    elif path == "local":
        prolog = "struct O%d l = *p; struct O%d *po = p; p = &l; " % (i, i)
        epilog = "*po = l; "
        base = "l.s.f"
    helpers = ("static long h1_%d(struct F%d *q, long v, long w) { q->%s = v; return w; }\n"
               "static long h2_%d(struct F%d *q, long v, long w) { q->%s = v; q->%s = w; return v + w; }\n"
               "static long hr_%d(unsigned long *pr, unsigned long a, long w) { *pr = a; return w; }\n" % (i, i, Y, i, i, Y, Z, i))
    L = []
    for n, name in enumerate(names):
        L.append("case %d: r = %s.%s; break; case %d: %s.%s = v; break;" % (n, base, name, 10 + n, base, name))
    for t, (grp, text, prog) in enumerate(BN_TEMPLATES):
        s = text.replace("h1_I", "h1_%d" % i).replace("h2_I", "h2_%d" % i).replace("hr_I", "hr_%d" % i)
        out, prev = "", ""
        for tok in _tokens(s):
            if tok in ("X", "Y", "Z"):
                name = {"X": X, "Y": Y, "Z": Z}[tok]
                out += name if prev == ">" else "%s.%s" % (base, name)      # after `->` the bare member name
            elif tok == "T":
                out += "alt"
            elif tok == "R":
                out += base[:-2] + ".raw"
            elif tok == "A":
                out += "altraw"
            else:
                out += tok
            if tok.strip():
                prev = tok
        L.append("case %d: r = (%s); break;" % (100 + t, out))
    po = "po" if path == "local" else "p"
    L.append("case 90: return (long)%s->g0; case 91: return (long)%s->g1; case 92: return (long)&%s->s; case 93: return sizeof(%s->s); case 94: return sizeof(*%s);" % (po, po, po, po, po))
    alt = "struct F%d alt = {0}; %s" % (i, " ".join("alt.%s = %d;" % (name, BN_ALT[n]) for n, name in enumerate(names)))
    alt += " union { struct F%d f; unsigned long raw; } au; au.raw = 0; au.f = alt; unsigned long altraw = au.raw;" % i
    fn = ("long n%d(struct O%d *p, int op, long v, long w, long x) { long r = 0; %s%s struct F%d *q = &%s; switch (op) {\n%s\n} %sreturn r; }"
          % (i, i, prolog, alt, i, base, "\n".join(L), epilog))
    return "%s\n%s\n%s\nstruct O%d o%d;\n%s%s\n" % (fdef, sdef, odef, i, i, helpers, fn)


def _tokens(s):
    out, cur = [], ""
    for ch in s:
        if ch.isalnum() or ch == "_":
            cur += ch
        else:
            if cur:
                out.append(cur); cur = ""
            out.append(ch)
    if cur:
        out.append(cur)
    return out


def bn_inits(lay):
    fld = bn_fields(lay)
    names = sorted(fld, key=lambda f: fld[f][2])
    i0 = [conv(fld[f][1], fld[f][0], 1 + 3 * n) for n, f in enumerate(names)]
    i1 = [conv(fld[f][1], fld[f][0], 0x5A5A5A5A5A5A5A5A >> (n + 1)) for n, f in enumerate(names)]
    return names, fld, [i0, i1]


def bn_tables(i, c):
    """-> C text of the driver tables of case i and its row"""
    lay, path, X, Y, Z = c.spec
    names, fld, inits = bn_inits(lay)
    bind = {"X": X, "Y": Y, "Z": Z}
    nf = len(names)
    exp = []
    for t, (grp, text, prog) in enumerate(BN_TEMPLATES):
        for init in inits:
            for v, w in BN_VW:
                st = dict(zip(names, init))
                val = bn_eval(prog, st, fld, bind, v, w)
                exp.extend(st[f] for f in names)
                exp.append(val)
    kinds = {"u": 0, "s": 1, "b": 2}
    txt = ("static const u64 bi%d[] = {%s};\nstatic const u64 be%d[] = {%s};\n"
           % (i, ",".join("%#xUL" % x for init in inits for x in init), i, ",".join("%#xUL" % x for x in exp)))
    row = "{%d, {%s}, {%s}, %d, bi%d, be%d}" % (nf, ",".join(str(kinds[fld[f][1]]) for f in names), ",".join(str(fld[f][0]) for f in names), names.index(X), i, i)
    return txt, row


def _bn_text(text, c):
    """template text for descriptions; with a single case (replay) the fields are named"""
    if c is not None:
        lay, path, X, Y, Z = c.spec
        text = "".join({"X": X, "Y": Y, "Z": Z}.get(tok, tok) for tok in _tokens(text))
    return text.replace("h1_I", "f1").replace("h2_I", "f2").replace("hr_I", "fr")


def bn_build(cases, HDR):
    u, pre, rows = [], [], []
    c0 = cases[0] if len(cases) == 1 else None
    for i, c in enumerate(cases):
        u.append(bn_unit_one(i, c))
        t, r = bn_tables(i, c)
        pre.append(t); rows.append(r)
    n = len(cases)
    u.append("void *c04_obj[] = {%s};" % ",".join("&o%d" % i for i in range(n)))
    u.append("void *c04_acc[] = {%s};" % ",".join("(void *)n%d" % i for i in range(n)))
    d = ['#include "%s"' % HDR, "extern void *c04_obj[]; extern void *c04_acc[];"] + pre + [
         "static const int bn_grp[] = {%s};" % ",".join(str(BN_GROUPS.index(g)) for g, _, _ in BN_TEMPLATES),
         "static const char *const bn_txt[] = {%s};" % ",".join('"%s"' % _bn_text(t, c0) for _, t, _ in BN_TEMPLATES),
         "static const long bn_vw[] = {%s};" % ",".join("%d,%d" % vw for vw in BN_VW),
         "static const BnRow rows[] = {%s};" % ",\n".join(rows),
         "_Static_assert(sizeof bn_groups / sizeof *bn_groups == %d, \"template groups\");" % len(BN_GROUPS),
         "int main(void) { install_traps(); int n = sizeof rows / sizeof rows[0];",
         "  for (int i = 0; i < n; i++) { begin_case(i); GUARDED(bn_case((bn_t)c04_acc[i], c04_obj[i], &rows[i], bn_grp, bn_txt, %d, bn_vw, %d, 2)); end_case(); }" % (len(BN_TEMPLATES), len(BN_VW)),
         '  printf("S evals=%ld skipped=%ld\\n", n_evals, n_skipped); return 0; }']
    return "\n".join(u) + "\n", "\n".join(d) + "\n"


# ================================================================================================ (k) compound literals
# type specs: name -> dict(pre: file-scope declarations (with %d for the case index), T: type name, decl: declarator pattern for a
#   named object, PT: pointer declarator pattern that receives the object's address, amp: "&" when the address must be taken,
#   size: sizeof expression, align, inits: form -> (initializer text, [(accessor over p, expected value expression)]),
#   direct: (lvalue suffix applied to the literal, index into the accessor list) for the `direct` spelling)
def _cl_specs():
    S = {}
    S["int"] = dict(pre="", T="int", decl="int %s", PT="int *%s", amp="&", size="sizeof(int)", align=4, direct="",
                    inits={"const": ("{41}", [("*p", "41")]), "nonconst": ("{x + 36}", [("*p", "x + 36")]), "zero": ("{0}", [("*p", "0")]),
                           "constexpr": ("{6 * 7 - 1}", [("*p", "41")])})
    S["long"] = dict(pre="", T="long", decl="long %s", PT="long *%s", amp="&", size="sizeof(long)", align=8, direct="",
                     inits={"const": ("{-41L}", [("*p", "-41")]), "nonconst": ("{-x}", [("*p", "-x")]), "constexpr": ("{sizeof(long) * 5}", [("*p", "40")])})
    S["char"] = dict(pre="", T="char", decl="char %s", PT="char *%s", amp="&", size="1", align=1, direct="",
                     inits={"const": ("{'q'}", [("*p", "'q'")]), "nonconst": ("{x + 60}", [("*p", "x + 60")])})
    S["double"] = dict(pre="", T="double", decl="double %s", PT="double *%s", amp="&", size="sizeof(double)", align=8, direct=None,
                       inits={"const": ("{2.5}", [("(long)(*p * 4)", "10")]), "nonconst": ("{x / 2.0}", [("(long)(*p * 4)", "x * 2")])})
    S["ldouble"] = dict(pre="", T="long double", decl="long double %s", PT="long double *%s", amp="&", size="sizeof(long double)", align=16, direct=None,
                        inits={"const": ("{1.5L}", [("(long)(*p * 2)", "3")]), "nonconst": ("{x / 2.0L}", [("(long)(*p * 2)", "x")])})
    S["ptr"] = dict(pre="static char gs%d[8];\n", T="char *", decl="char *%s", PT="char **%s", amp="&", size="sizeof(char *)", align=8, direct=None,
                    inits={"const": ("{gs%d + 1}", [("(*p - gs%d)", "1")]), "nonconst": ("{gs%d + x}", [("(*p - gs%d)", "x")]),
                           "string": ("{\"abc\"}", [("(*p)[1]", "'b'"), ("(*p)[3]", "0")])})
    S["int[]"] = dict(pre="", T="int[]", decl="int %s[]", PT="int *%s", amp="", size="sizeof(int[2])", align=4, direct="[1]",
                      inits={"const": ("{10, 20}", [("p[0]", "10"), ("p[1]", "20")]), "nonconst": ("{x, 20}", [("p[0]", "x"), ("p[1]", "20")]),
                             "nonconst-last": ("{10, x * 4}", [("p[0]", "10"), ("p[1]", "x * 4")]),
                             "constexpr": ("{sizeof(long) + 2, 4 * 5}", [("p[0]", "10"), ("p[1]", "20")])})
    S["int[4]"] = dict(pre="", T="int[4]", decl="int %s[4]", PT="int *%s", amp="", size="sizeof(int[4])", align=4, direct="[1]",
                       inits={"const": ("{10, 20}", [("p[0]", "10"), ("p[1]", "20"), ("p[2]", "Z"), ("p[3]", "Z")]),
                              "nonconst": ("{10, x}", [("p[0]", "10"), ("p[1]", "x"), ("p[2]", "Z"), ("p[3]", "Z")]),
                              "zero": ("{0}", [("p[0]", "0"), ("p[1]", "Z"), ("p[3]", "Z")])})
    S["char[8]"] = dict(pre="", T="char[8]", decl="char %s[8]", PT="char *%s", amp="", size="8", align=1, direct="[1]",
                        inits={"const": ("{\"abc\"}", [("p[0]", "'a'"), ("p[1]", "'b'"), ("p[2]", "'c'"), ("p[3]", "0"), ("p[7]", "Z")]),
                               "nonconst": ("{x + 92, 'b'}", [("p[0]", "x + 92"), ("p[1]", "'b'"), ("p[2]", "Z"), ("p[7]", "Z")])})
    S["char[]"] = dict(pre="", T="char[]", decl="char %s[]", PT="char *%s", amp="", size="4", align=1, direct="[1]",
                       inits={"const": ("{\"abc\"}", [("p[0]", "'a'"), ("p[1]", "'b'"), ("p[2]", "'c'"), ("p[3]", "0")])})
    S["short[5]"] = dict(pre="", T="short[5]", decl="short %s[5]", PT="short *%s", amp="", size="10", align=2, direct="[3]",
                         inits={"const": ("{[3] = 7}", [("p[0]", "Z"), ("p[2]", "Z"), ("p[3]", "7"), ("p[4]", "Z")]),
                                "nonconst": ("{[3] = x + 2}", [("p[0]", "Z"), ("p[2]", "Z"), ("p[3]", "x + 2"), ("p[4]", "Z")])})
    S["long[2][2]"] = dict(pre="", T="long[2][2]", decl="long %s[2][2]", PT="long (*%s)[2]", amp="", size="32", align=8, direct="[1][1]",
                           inits={"const": ("{{1, 2}, {3, 4}}", [("p[0][0]", "1"), ("p[0][1]", "2"), ("p[1][0]", "3"), ("p[1][1]", "4")]),
                                  "nonconst": ("{{1, 2}, {x, 4}}", [("p[0][0]", "1"), ("p[0][1]", "2"), ("p[1][0]", "x"), ("p[1][1]", "4")])})
    S["struct-P"] = dict(pre="struct P%d { int a, b; };\n", T="struct P%d", decl="struct P%d %s", PT="struct P%d *%s", amp="&", size="sizeof(struct P%d)", align=4, direct=".b",
                         inits={"const": ("{0, 7}", [("p->a", "0"), ("p->b", "7")]), "designated": ("{.b = 7}", [("p->a", "Z"), ("p->b", "7")]),
                                "nonconst": ("{x, 7}", [("p->a", "x"), ("p->b", "7")]), "nonconst-last": ("{0, x + 2}", [("p->a", "0"), ("p->b", "x + 2")]),
                                "zero": ("{0}", [("p->a", "0"), ("p->b", "Z")])})
    S["struct-Q"] = dict(pre="struct Q%d { char c; long l; short s[3]; };\n", T="struct Q%d", decl="struct Q%d %s", PT="struct Q%d *%s", amp="&", size="sizeof(struct Q%d)", align=8, direct=".s[2]",
                         inits={"const": ("{'c', -9, {1, 2, 3}}", [("p->c", "'c'"), ("p->l", "-9"), ("p->s[0]", "1"), ("p->s[2]", "3")]),
                                "nonconst": ("{'c', -x, {1, 2, x}}", [("p->c", "'c'"), ("p->l", "-x"), ("p->s[0]", "1"), ("p->s[2]", "x")])})
    S["struct-B"] = dict(pre="struct B%d { int a:3; unsigned b:5; long c; };\n", T="struct B%d", decl="struct B%d %s", PT="struct B%d *%s", amp="&", size="sizeof(struct B%d)", align=8, direct=".b",
                         inits={"const": ("{-2, 19, 77}", [("p->a", "-2"), ("p->b", "19"), ("p->c", "77")]),
                                "nonconst": ("{-2, x + 14, 77}", [("p->a", "-2"), ("p->b", "x + 14"), ("p->c", "77")])})
    S["union-U"] = dict(pre="union U%d { long w; char c[8]; };\n", T="union U%d", decl="union U%d %s", PT="union U%d *%s", amp="&", size="sizeof(union U%d)", align=8, direct=".w",
                        inits={"const": ("{.w = 258}", [("p->w", "258")]), "nonconst": ("{.w = x}", [("p->w", "x")])})
    S["struct-N"] = dict(pre="struct NP%d { int a, b; }; struct N%d { struct NP%d in; int t[2]; };\n", T="struct N%d", decl="struct N%d %s", PT="struct N%d *%s", amp="&", size="sizeof(struct N%d)", align=4, direct=".in.b",
                         inits={"const": ("{{1, 2}, {3}}", [("p->in.a", "1"), ("p->in.b", "2"), ("p->t[0]", "3"), ("p->t[1]", "Z")]),
                                "nonconst": ("{{1, x}, {3}}", [("p->in.a", "1"), ("p->in.b", "x"), ("p->t[0]", "3"), ("p->t[1]", "Z")])})
    S["struct-S"] = dict(pre="struct SS%d { char *s; int n; };\n", T="struct SS%d", decl="struct SS%d %s", PT="struct SS%d *%s", amp="&", size="sizeof(struct SS%d)", align=8, direct=".n",
                         inits={"const": ("{\"abc\", 3}", [("p->s[2]", "'c'"), ("p->n", "3")]), "nonconst": ("{\"abc\", x - 2}", [("p->s[2]", "'c'"), ("p->n", "x - 2")])})
    return S


CL_SPECS = _cl_specs()
CL_SPELL = ["ptr-init", "assigned", "arg", "named-local", "direct"]
CL_SCEN = ["loop", "goto-loop", "recursion", "two-live", "nested-fn", "cond-arm"]
CL_CONST_FORMS = ("const", "zero", "constexpr", "designated", "string")


def _sub(s, i):
    return s.replace("%d", str(i))


def cl_cases(tier):
    cases = []
    for tn, sp in CL_SPECS.items():
        for form in sp["inits"]:
            icls = "constant-init" if form in CL_CONST_FORMS else "nonconstant-init"
            for scen in CL_SCEN:
                for spell in CL_SPELL:
                    if spell == "direct" and (sp["direct"] is None or scen in ("recursion", "two-live")):
                        continue
                    if spell == "named-local" and scen == "cond-arm":
                        continue
                    kind = "named-local" if spell == "named-local" else "block-literal"
                    cases.append(Case("cl", "cl/%s/%s/%s/%s" % (tn, form, scen, spell), "object-lifetime|%s,%s,%s" % (kind, icls, scen), (tn, form, scen, spell)))
            if form in CL_CONST_FORMS:
                cases.append(Case("cl", "cl/%s/%s/file-scope" % (tn, form), "object-lifetime|file-literal,%s,calls" % icls, (tn, form, "file-scope", "ptr-init")))
    return cases


def cl_unit_one(i, c):
    tn, form, scen, spell = c.spec
    sp = CL_SPECS[tn]
    init, accs = sp["inits"][form]
    init = _sub(init, i)
    accs = [(_sub(a, i), _sub(w, i)) for a, w in accs]
    T, PT, size, amp = _sub(sp["T"], i), _sub(sp["PT"], i), _sub(sp["size"], i), sp["amp"]
    pre = _sub(sp["pre"], i)
    LIT = "(%s)%s" % (T, init)
    ALIT = "%s%s" % (amp, LIT)
    x = 5

    def acc_p(a, p):
        # accessors are written over the identifier p; rename it
        return "".join(p if tok == "p" else tok for tok in _tokens(a))

    def CH(p):
        # "Z": a sub-object without an initializer of its own (must be zero); the deviation class says which kind went wrong
        return " ".join("c04_expect(%s, %s, %d);" % (acc_p(a, p), "0" if w == "Z" else w, 12 if w == "Z" else 10) for a, w in accs)

    if scen == "file-scope":
        # one static object: what a call stored is what the next call reads
        # accessors that are not modifiable lvalues are compared against their initial value on every call
        body = ("%s = %s;\nlong k%d(long x) { static long n; %s = fp%d; %s %s n++; c04_id(x); return x + 1; }\n"
                % (PT % ("fp%d" % i), ALIT, i, PT % "p", i,
                   " ".join("c04_expect(%s, (%s)%s, 11);" % (a, "0" if w == "Z" else w, " + n * 3" if _assignable(a) else "") for a, w in accs),
                   " ".join("%s += 3;" % a for a, w in accs if _assignable(a))))
        return pre + body, "{%d, %d, 0, {0}}" % (x, x + 1)

    def obtain(p, tagexpr):
        """statements that make p point at a freshly evaluated object and check its initial value"""
        if spell == "ptr-init":
            return "%s = %s; %s" % (PT % p, ALIT, CH(p))
        if spell == "assigned":
            return "%s; %s = %s; %s" % (PT % p, p, ALIT, CH(p))
        if spell == "arg":
            return "%s = use%d(%s, x);" % (PT % p, i, ALIT)
        if spell == "named-local":
            return "%s = %s; %s = %s%s; %s" % (_sub(sp["decl"], i) % ("o" + p), init, PT % p, amp, "o" + p, CH(p))
        raise ValueError(spell)

    helpers = ""
    if spell == "arg":
        # a function returning the pointer type: spell the return type through typeof
        helpers = "static typeof(%s) use%d(%s, long x) { %s return p; }\n" % (_ptype(PT), i, PT % "p", CH("p"))

    def live(p, tag):
        return "long t%s = c04_mark(); c04_reg(%s, %s, %d, %s);" % (p, p, size, sp["align"], tag)

    if spell == "direct":
        # the object is modified through the literal's own lvalue; the value of the expression tells whether it started fresh
        suffix = sp["direct"]
        want = [("0" if w == "Z" else w) for a, w in accs if _direct_match(a, suffix)][0]
        ev = "c04_expect((%s)%s += 3, (%s) + 3, 10); c04_expect(++(%s)%s, (%s) + 1, 10);" % (LIT, suffix, want, LIT, suffix, want)
        one = lambda iv: "{ %s c04_id(%s); r++; }" % (ev, iv)
    else:
        one = lambda iv: "{ %s %s c04_id(%s); c04_drop(tp); r++; }" % (obtain("p", iv), live("p", "10 + " + iv), iv)
    head = "long a = x * 3; char b[20]; long m = c04_mark(); c04_reg(b, 20, 1, 1); long r = 0;"
    tail = "c04_verify(); c04_drop(m); return r + (a != x * 3) * 1000000;"
    want = 3
    if scen == "loop":
        body = "for (long i = 0; i < 3; i++) %s" % one("i")
    elif scen == "goto-loop":
        body = "long i = 0; again%d: %s if (++i < 3) goto again%d;" % (i, one("i"), i)
    elif scen == "cond-arm":
        body = "for (long i = 0; i < 3; i++) { long e = (i < 9) ? ({ %s 1; }) : 0; r += e - 1; }" % one("i")
    elif scen == "nested-fn":
        helpers += "static long leaf%d(long i, long x) { long r = 0; %s return r; }\n" % (i, one("i"))
        body = "for (long i = 0; i < 3; i++) r += leaf%d(i, x);" % i
    elif scen == "recursion":
        helpers += ("static long rec%d(long d, long x) { long r = 0; %s %s r = d ? rec%d(d - 1, x) + 1 : c04_id(1); c04_drop(tp); return r; }\n"
                    % (i, obtain("p", "d"), live("p", "20 + d"), i))
        body = "r = rec%d(2, x);" % i
    elif scen == "two-live":
        # two evaluations of the same literal text in one block: two objects; filling the first must not show in the second
        body = ("for (long i = 0; i < 2; i++) { %s %s %s %s c04_id(i); c04_drop(tp); r++; } r++;"
                % (obtain("p", "i"), live("p", "30"), obtain("q", "i"), live("q", "31")))
    else:
        raise ValueError(scen)
    unit = "%s%slong k%d(long x) { %s\n  %s\n  %s }\n" % (pre, helpers, i, head, body, tail)
    return unit, "{%d, %d, 0, {0}}" % (x, want)


def _assignable(a):
    return not a.startswith("(") and "p->s[" not in a


def _direct_match(a, suffix):
    # accessor over p that designates the same sub-object as LIT<suffix>
    norm = a.replace("p->", "p.").replace("*p", "p")
    return norm == "p" + suffix


def _ptype(PT):
    """type name of the pointer declarator pattern PT"""
    return PT.replace("%s", "")
