"""C18 position model and observers (python stdlib only; also copied into replay directories).

Model (independent of chibicc, works on the ORIGINAL bytes of each file):
  * physical line of a token = 1 + number of LF bytes before its first byte (a CR LF pair contains exactly one LF, so both
    line-ending styles are covered; a lone CR is not a line terminator for this property -> such files are not judged);
    nothing else about the bytes matters: not the size of the file, not universal character names or UTF-8 sequences before the token;
  * C11 5.1.1.2 phases 1-3 are replayed only as far as needed to know which bytes are inside comments, which physical
    lines form one logical line (backslash-newline), which logical lines are directives and where preprocessing tokens start;
  * C11 6.10.4: after `#line N ["f"]` (or the GNU form `# N "f"`) the line FOLLOWING the directive has presumed number N and
    the presumed file name is f; the effect ends with the file;  6.10.4p2: the line number of a token counts the new-line
    characters read in phase 1 up to that token, i.e. spliced new-lines count;
  * `__LINE__`/`__FILE__` written as a source token on physical line L: presumed line of L / presumed name there, also inside the
    arguments of a macro invocation;
  * C11 6.10.4p5: the operands of `#line` that do not have one of the two literal forms are macro-replaced first (object-like macros
    defined in any file read so far or predefined on the command line, `__LINE__` = presumed line of the directive, `__FILE__` =
    presumed name there); the result must be `digit-sequence ["s-char-sequence"]`.  A directive has the same effect however its
    operands were spelled.  `# N "f"` (the GNU form) is only modelled with literal operands;
  * every `#include` reads the header afresh (line 1, own name, no #line in effect) no matter how often and from where it was included
    before; `#ifndef G` / `#define G` ... `#endif` and `#pragma once` are modelled as far as include guards need them;
  * a small macro expander (object-like and function-like macros without # / ## / variadics, defined by #define lines of the files):
    a token that comes from a replacement list has the position of the macro name token of its invocation, and if that name token
    itself comes from a replacement list, of that one's invocation, and so on: `__LINE__` in the body of a macro reports the line
    of the macro name of the outermost invocation that is written in a source file (gcc agrees; probes are judged only where it does).

Probe spelling understood by model and observers:  vp<K>(<line>, <file>);  the position a probe reports is that of the first token of
its first argument (`__LINE__`, a macro for it, or the offending token of the diagnostics mode).
"""
import bisect, os, re

BOM = b"\xef\xbb\xbf"


def phys_line(data, off):
    return 1 + data.count(b"\n", 0, off)


def has_lone_cr(data):
    return re.search(rb"\r(?!\n)", data) is not None


_p3 = re.compile(r"/\*|//|\"|'|\n")
_dq = re.compile(r'(?:[^"\\\n]|\\.)*"')
_sq = re.compile(r"(?:[^'\\\n]|\\.)*'")


class Text:
    """Phases 1-2 of one file: `text` is the file with the BOM dropped, CR LF read as LF and backslash-newline removed;
    offset(i) is the offset in the ORIGINAL bytes of text[i] (piecewise linear: one piece per physical line)."""

    def __init__(self, data):
        self.data = data
        pos = 3 if data.startswith(BOM) else 0
        n = len(data)
        parts, self.tidx, self.ooff = [], [], []
        t = 0
        while pos < n:
            e = data.find(b"\n", pos)
            if e < 0:
                e, nxt, term = n, n, False
            else:
                nxt, term = e + 1, True
            ce = e - 1 if term and e > pos and data[e - 1] == 0x0d else e
            spliced = term and ce > pos and data[ce - 1] == 0x5c
            if spliced:
                ce -= 1
            self.tidx.append(t); self.ooff.append(pos)
            parts.append(data[pos:ce].decode("latin-1"))
            t += ce - pos
            if not spliced:
                self.tidx.append(t); self.ooff.append(e)      # the line terminator (at EOF: one past the end)
                parts.append("\n")
                t += 1
            pos = nxt
        self.text = "".join(parts)
        if self.text and not self.text.endswith("\n"):          # the last line ended with a backslash-newline
            self.tidx.append(len(self.text)); self.ooff.append(n)
            self.text += "\n"
        self.lfs = [m.start() for m in re.finditer(rb"\n", data)]
        m = re.search(rb"\\u[0-9a-fA-F]{4}|\\U[0-9a-fA-F]{8}", data)
        self.first_ucn = m.start() if m else None

    def offset(self, i):
        k = bisect.bisect_right(self.tidx, i) - 1
        return self.ooff[k] + (i - self.tidx[k])

    def line(self, i):
        """physical line (1-based) of text[i] = 1 + LF bytes before it in the original file"""
        return 1 + bisect.bisect_left(self.lfs, self.offset(i))


def logical_lines(data):
    """Phases 1-3 light: returns (Text, [logical line]) where a logical line is (string, [index into Text.text of each
    character]); a comment is one space carrying the index of its first character; new-lines inside comments and
    backslash-newlines do not end a logical line."""
    T = Text(data)
    s = T.text
    out = []
    cur, idx = [], []

    def emit(a, b):
        if b > a:
            cur.append(s[a:b]); idx.extend(range(a, b))
    pos, n = 0, len(s)
    while pos < n:
        m = _p3.search(s, pos)
        if not m:
            emit(pos, n); break
        emit(pos, m.start())
        k = m.group()
        if k == "\n":
            out.append(("".join(cur), idx)); cur, idx = [], []
            pos = m.end()
        elif k == "/*":
            j = s.find("*/", m.end())
            cur.append(" "); idx.append(m.start())
            pos = n if j < 0 else j + 2
        elif k == "//":
            j = s.find("\n", m.end())
            cur.append(" "); idx.append(m.start())
            pos = n if j < 0 else j
        else:
            q = (_dq if k == '"' else _sq).match(s, m.end())
            if q:                                   # a complete literal on this line: copied verbatim
                emit(m.start(), q.end()); pos = q.end()
            else:                                   # stray quote: an ordinary character
                emit(m.start(), m.end()); pos = m.end()
    if cur:
        out.append(("".join(cur), idx))
    return T, out


_UCN = r"\\u[0-9a-fA-F]{4}|\\U[0-9a-fA-F]{8}"
_pptok = re.compile(r"(?:u8|u|U|L)?\"(?:[^\"\\\n]|\\.)*\"|(?:u|U|L)?'(?:[^'\\\n]|\\.)+'"
                    r"|(?:[A-Za-z_$\x80-\xff]|" + _UCN + r")(?:[A-Za-z0-9_$\x80-\xff]|" + _UCN + r")*"
                    r"|\.?[0-9](?:[eEpP][+-]|[A-Za-z0-9_.])*|\S")
_probe_name = re.compile(r"^vp(\d+)$")
_line = re.compile(r"^\s*#\s*(?:line\s+)?(\d+)(?:\s+\"([^\"]*)\")?\s*(?:\d+\s*)*$")
_linex = re.compile(r"^\s*#\s*line\b(.*)$")
_ifndef = re.compile(r"^\s*#\s*ifndef\s+([A-Za-z_]\w*)\s*$")
_endif = re.compile(r"^\s*#\s*endif\s*$")
_once = re.compile(r"^\s*#\s*pragma\s+once\s*$")
_cond = re.compile(r"^\s*#\s*(?:if|ifdef|elif|else)\b")
_incl = re.compile(r"^\s*#\s*include\s+\"([^\"]+)\"\s*$")
_define = re.compile(r"^\s*#\s*define\s+([A-Za-z_]\w*)(\(([^)]*)\))?(.*)$")
_dir = re.compile(r"^\s*#")


class ModelError(ValueError):
    pass


class Pre:
    """The part of translation phase 4 that positions depend on: #include "...", #line / # N "f", #define of object-like and
    function-like macros without # / ## / __VA_ARGS__, and their expansion (arguments are fully expanded on their own; the
    replacement is rescanned with the rest of the text; no macro refers to itself).
    Position of a token written in a source file = its own; position of a token that comes from a replacement list = the position
    of the macro name token of that invocation (recursively: of the outermost invocation written in a source file)."""

    def __init__(self, files, predef=None):
        self.files = files
        self.macros = {}
        for k, v in (predef or {}).items():         # command-line macros: name -> replacement text
            self.macros[k] = (None, _pptok.findall(v))
        self.res = []
        self.once = set()
        self.dirlog = []        # one entry per #line directive executed: file, line (physical), n, name|None, macro, nbi, convdep

    def run(self, main):
        self.file(main, 0)
        return self.res

    def file(self, name, depth):
        if depth > 8:
            raise ModelError("include recursion")
        data = self.files[name]
        T, lls = logical_lines(data)
        delta, presfile, directive = 0, name, False
        dmac = nbi = convdep = False        # the directive in force: macro operands / number from __LINE__ / that while a #line was in force
        conds = []                          # open #ifndef groups: True = taken
        pending = []
        if name in self.once:
            return
        for text, idx in lls:
            if not idx:
                continue
            if _dir.match(text):
                self.flush(pending); pending = []
                first, last = T.line(idx[0]), T.line(idx[-1])
                m = _ifndef.match(text)
                if m:
                    conds.append(m.group(1) not in self.macros); continue
                if _endif.match(text):
                    if not conds:
                        raise ModelError("#endif without #ifndef")
                    conds.pop(); continue
                if _cond.match(text):
                    raise ModelError("unmodelled conditional")
                if not all(conds):
                    continue
                if _once.match(text):
                    self.once.add(name); continue
                m = _line.match(text)
                mx = None if m else _linex.match(text)
                if m:
                    delta = int(m.group(1)) - (last + 1)      # the line following the directive is line N
                    if m.group(2) is not None:
                        presfile = m.group(2)
                    self.dirlog.append(dict(file=name, line=first, n=int(m.group(1)), name=m.group(2), macro=False, nbi=False, convdep=False))
                    directive, dmac, nbi, convdep = True, False, False, False
                    continue
                if mx:
                    # C11 6.10.4p5: the operands are macro-replaced; __LINE__/__FILE__ stand for the presumed position of the directive
                    here = dict(file=name, phys=first, pres=first + delta, presfile=presfile, fphys=first, fpres=first + delta,
                                directive=directive, via=None, ucn=False)
                    ops = [t for t, _ in self.expand([(t, here) for t in _pptok.findall(mx.group(1))])]
                    frombi = [t == "__LINE__" for t in ops]
                    ops = [str(first + delta) if t == "__LINE__" else '"%s"' % presfile if t == "__FILE__" else t for t in ops]
                    if not (1 <= len(ops) <= 2 and re.match(r"^[0-9]+$", ops[0]) and (len(ops) == 1 or re.match(r'^"[^"\\]*"$', ops[1]))):
                        raise ModelError("#line operands do not expand to a line number and a file name: %r" % (ops,))
                    self.dirlog.append(dict(file=name, line=first, n=int(ops[0]), name=ops[1][1:-1] if len(ops) == 2 else None, macro=True,
                                            nbi=frombi[0], convdep=frombi[0] and directive, presfile_before=presfile))
                    nbi, convdep = frombi[0], frombi[0] and directive
                    delta = int(ops[0]) - (last + 1)
                    if len(ops) == 2:
                        presfile = ops[1][1:-1]
                    directive, dmac = True, True
                    continue
                m = _incl.match(text)
                if m:
                    self.file(m.group(1), depth + 1)
                    continue
                m = _define.match(text)
                if m:
                    body = _pptok.findall(m.group(4))
                    if "#" in body or "##" in body or "__VA_ARGS__" in body:
                        raise ModelError("unmodelled replacement list")
                    params = None
                    if m.group(2) is not None:
                        params = [x.strip() for x in m.group(3).split(",")] if m.group(3).strip() else []
                    self.macros[m.group(1)] = (params, body)
                continue
            if not all(conds):
                continue
            first = T.line(idx[0])
            cache = {}
            for m in _pptok.finditer(text):
                off = T.offset(idx[m.start()])
                p = 1 + bisect.bisect_left(T.lfs, off)
                u = T.first_ucn is not None and T.first_ucn < off
                info = cache.get((p, u))
                if info is None:       # shared by the tokens of one physical line; never modified (users copy)
                    info = cache[(p, u)] = dict(file=name, phys=p, pres=p + delta, presfile=presfile, fphys=first, fpres=first + delta,
                                                directive=directive, via=None, ucn=u, dmac=dmac, nbi=nbi, convdep=convdep)
                pending.append((m.group(), info))
        self.flush(pending)
        if conds:
            raise ModelError("unterminated #ifndef in " + name)

    def expand(self, toks, depth=0):
        if depth > 40:
            raise ModelError("macro recursion")
        out = []
        stack = toks[::-1]
        guard = 0
        while stack:
            guard += 1
            if guard > 200000:
                raise ModelError("runaway expansion")
            t = stack.pop()
            mac = self.macros.get(t[0])
            if mac is None:
                out.append(t); continue
            params, body = mac
            org = t[1]
            if org["via"] is None:
                org = dict(org); org["via"] = t[0]
            if params is None:
                stack.extend((x, org) for x in reversed(body))
                continue
            if not stack or stack[-1][0] != "(":
                out.append(t); continue
            stack.pop()
            args, curarg, level = [], [], 0
            while True:
                if not stack:
                    raise ModelError("unterminated invocation of " + t[0])
                a = stack.pop()
                if a[0] == "(":
                    level += 1
                elif a[0] == ")":
                    if level == 0:
                        break
                    level -= 1
                elif a[0] == "," and level == 0:
                    args.append(curarg); curarg = []
                    continue
                curarg.append(a)
            args.append(curarg)
            if not params and args == [[]]:
                args = []
            if len(args) != len(params):
                raise ModelError("arity of " + t[0])
            eargs = [self.expand(a, depth + 1) for a in args]
            rep = []
            for x in body:
                if x in params:
                    rep.extend(eargs[params.index(x)])
                else:
                    rep.append((x, org))
            stack.extend(reversed(rep))
        return out

    def flush(self, pending):
        if not pending:
            return
        toks = self.expand(pending)
        n = len(toks)
        for i, (t, info) in enumerate(toks):
            m = _probe_name.match(t)
            if not m or i + 2 >= n or toks[i + 1][0] != "(":
                continue
            # the position a probe reports is that of the first token of its first argument (__LINE__, or the offending token)
            arg = toks[i + 2][1]
            d = dict(arg)
            lo = hi = 0
            if info["file"] == arg["file"] and info["via"] == arg["via"]:
                lo = min(0, info["phys"] - arg["phys"])
                for j in range(i + 2, n):
                    if toks[j][0] == ";":
                        e = toks[j][1]
                        if e["file"] == arg["file"] and e["via"] == arg["via"]:
                            hi = max(0, e["phys"] - arg["phys"])
                        break
            d["lo"], d["hi"] = lo, hi          # physical lines of the whole probe statement, relative to `phys`
            self.res.append((int(m.group(1)), d))


def expected(files, main="t.c"):
    """files: {name: bytes} all in one directory.  Returns the probes in translation order: [(pid, info)], following
    #include "..." recursively (each inclusion reads the header afresh: line 1, own name; macros stay defined).
    info: file/phys = physical position, presfile/pres = presumed position (#line), fphys/fpres = first physical line of the
    logical line, directive = a #line precedes in this file, via = outermost macro the token came from (None: written in
    the file), ucn = a universal character name precedes in this file, lo/hi = extent of the statement."""
    return Pre(files).run(main)


def expected_ex(files, main="t.c", predef=None):
    """As expected(), with command-line macros {name: replacement text}; returns (probes, log of the #line directives executed).
    Additional info keys: dmac = the #line in force had operands that needed macro replacement, nbi = its number came from __LINE__,
    convdep = ... while another #line was in force (the value then depends on what that one made of its operand)."""
    p = Pre(files, predef)
    res = p.run(main)
    return res, p.dirlog


# --------------------------------------------------------------------------------------------------------------
# observers
def norm(path, base=None):
    """File names are compared as files, not as spellings: ./h.h == h.h; an absolute name inside `base` (the directory the
    compiler ran in) is the same file as the relative one."""
    p = os.path.normpath(path)
    if base and os.path.isabs(p):
        b = os.path.normpath(base)
        if p.startswith(b + "/"):
            p = p[len(b) + 1:]
    return p


def c_string_value(tok):
    """Spelling of a simple narrow string literal -> value (only the escapes a file name can need)."""
    if not (tok.startswith('"') and tok.endswith('"')):
        return None
    return re.sub(r"\\(.)", r"\1", tok[1:-1])


def observe_E(tokens):
    """tokens: re-lexed -E output.  Returns [(pid, line:int|None, file:str|None)] in output order."""
    res = []
    for i, t in enumerate(tokens):
        m = re.match(r"^vp(\d+)$", t)
        if not m or tokens[i + 1:i + 2] != ["("]:
            continue
        a = tokens[i + 2:i + 7]
        if len(a) == 5 and a[1] == "," and a[3] == ")" and re.match(r"^\d+$", a[0]):
            res.append((int(m.group(1)), int(a[0]), c_string_value(a[2])))
        else:
            res.append((int(m.group(1)), None, None))
    return res


def observe_diag(err):
    """First diagnostic of a compiler run -> (file, line, following text up to the end of the diagnostic's echo) or None.
    Only the location is read: `<file>:<line>:` optionally followed by a column; wording is ignored."""
    lines = err.splitlines()
    for i, l in enumerate(lines):
        m = re.match(r"^(.+?):(\d+):(?:\d+:)?(.*)$", l)
        if m:
            return m.group(1), int(m.group(2)), m.group(3) + "\n" + "\n".join(lines[i + 1:i + 4])
    return None


def observe_S(asm):
    """Returns (filetable {number: name}, mentions {pid: (fileno, line)} taken from the nearest preceding .loc of the
    first instruction mentioning symbol vp<pid>, strays: list of (pid_before|0, pid_after|0, fileno, line) for every
    .loc record, so that the caller can check that records between two mentions belong to one of the two statements)."""
    table, mentions, records = {}, {}, []
    cur = None
    lastpid = 0
    pending = []
    for l in asm.splitlines():
        s = l.strip()
        m = re.match(r"^\.file\s+(\d+)\s+\"(.*)\"", s)
        if m:
            table[int(m.group(1))] = m.group(2)
            continue
        m = re.match(r"^\.loc\s+(\d+)\s+(\d+)", s)
        if m:
            cur = (int(m.group(1)), int(m.group(2)))
            pending.append(cur)
            continue
        if s.startswith(".") or s.endswith(":") or not s:
            continue
        m = re.search(r"\bvp(\d+)\b", s)
        if m:
            pid = int(m.group(1))
            if pid not in mentions:
                mentions[pid] = cur
            for r in pending:
                records.append((lastpid, pid, r[0], r[1]))
            pending = []
            lastpid = pid
    for r in pending:
        records.append((lastpid, 0, r[0], r[1]))
    return table, mentions, records


def line_class(obs, info):
    """Name the observed line number relative to the named candidates (class, not value)."""
    if obs is None:
        return "unreadable"
    cands = [("expected", info["pres"])]
    if info["directive"]:
        cands += [("physical-line", info["phys"]), ("expected+1", info["pres"] + 1)]
    if info["fphys"] != info["phys"]:
        cands += [("first-physical-line", info["fpres"])]
        if info["directive"]:
            cands += [("first-physical-line+1", info["fpres"] + 1), ("unadjusted-first-physical-line", info["fphys"])]
    for d in (1, -1, 2, -2):
        cands.append(("expected%+d" % d, info["pres"] + d))
    for name, v in cands:
        if obs == v:
            return name
    return "other-line"


def _observations(mode, text):
    """[(pid, (file, line))] in output order; mode E: -E output, X: lines `pid line file` printed by the executed program"""
    out = []
    if mode == "E":
        import pplex
        for p, l, f in observe_E(pplex.lex(text)):
            out.append((p, (norm(f, os.getcwd()) if f is not None else None, l)))
    else:
        for ln in text.splitlines():
            w = ln.split(" ", 2)
            if len(w) == 3 and w[0].isdigit():
                out.append((int(w[0]), (norm(w[2], os.getcwd()), int(w[1]))))
    return out


if __name__ == "__main__":
    # replay helper:  python3 c18_position.py E|D|S|X <observed file> <pid>[@<occurrence>] <spec>   ; exit 1 iff the observation is
    # not one of the acceptable (file, line) pairs given as  file:line[,file:line]  (without @: the last occurrence of the probe)
    #   TE|TX <observed file> <observed file of the literal twin> <pid>@<occurrence> line|file : exit 1 iff the two observations differ
    #   QE|QX <observed file> <pid> line|file : exit 1 iff the occurrences of the probe (repeated inclusion) do not all agree
    import sys
    if sys.argv[1] in ("TE", "TX"):
        pid, occ = (int(x) for x in sys.argv[4].split("@"))
        sel = 1 if sys.argv[5] == "line" else 0
        got = []
        for path in sys.argv[2:4]:
            o = [v for q, v in _observations(sys.argv[1][1], open(path, errors="replace").read()) if q == pid]
            got.append(o[occ - 1][sel] if len(o) >= occ else None)
        print("macro operands:", got[0], " literal operands:", got[1])
        sys.exit(0 if got[0] == got[1] else 1)
    if sys.argv[1] in ("QE", "QX"):
        pid = int(sys.argv[3])
        sel = 1 if sys.argv[4] == "line" else 0
        o = [v[sel] for q, v in _observations(sys.argv[1][1], open(sys.argv[2], errors="replace").read()) if q == pid]
        print("occurrences of vp%d:" % pid, o)
        sys.exit(0 if len(set(o)) <= 1 else 1)
    mode, path, spec = sys.argv[1], sys.argv[2], sys.argv[4]
    occ = None
    if "@" in sys.argv[3]:
        sys.argv[3], occ = sys.argv[3].split("@")[0], int(sys.argv[3].split("@")[1])
    pid = int(sys.argv[3].split("-")[-1])
    ok = set()
    for part in spec.split(","):
        f, l = part.rsplit(":", 1)
        ok.add((norm(f), int(l)))
    text = open(path, errors="replace").read()
    got = None
    if mode in ("E", "X"):
        o = [v for q, v in _observations(mode, text) if q == pid]
        if o and (occ is None or len(o) >= occ):
            got = o[-1] if occ is None else o[occ - 1]
    elif mode == "D":
        d = observe_diag(text)
        if d:
            got = (norm(d[0], os.getcwd()), d[1])
    elif mode == "S":
        table, mentions, records = observe_S(text)
        r = mentions.get(pid)
        if r:
            got = (norm(table.get(r[0], "?"), os.getcwd()), r[1])
    elif mode == "R":      # every .loc record between the instructions of probes a and b (argument "a-b") is acceptable
        a = int(sys.argv[3].split("-")[0])
        table, mentions, records = observe_S(text)
        bad = [(norm(table.get(f, "?"), os.getcwd()), l) for x, y, f, l in records
               if (x, y) == (a, pid) and (norm(table.get(f, "?"), os.getcwd()), l) not in ok]
        print("records between vp%d and vp%d that belong to neither statement:" % (a, pid), bad)
        sys.exit(1 if bad else 0)
    print("observed", got, "acceptable", sorted(ok))
    sys.exit(0 if got in ok else 1)
