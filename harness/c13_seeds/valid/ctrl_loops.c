int f(int n) {
  int s = 0;
  for (int i = 0; i < n; i++) { if (i % 2) continue; else s += i; }
  while (n > 0) n--;
  do s++; while (s < 3);
  for (;;) break;
  return s;
}
