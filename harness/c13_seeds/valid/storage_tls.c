_Thread_local int t;
static _Thread_local int u = 2;
int f(void) { static int n = 1; static char *s = "k"; return n++ + t + u + s[0]; }
