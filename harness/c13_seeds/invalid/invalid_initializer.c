int a;
long d = (long)&a * 2;
