int f(void) { return (1 + 2; }
