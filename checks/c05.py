"""C05 initializers (C11 6.7.9): every member gets the prescribed value, the rest is zero, static image == automatic image.

E2 twin check, exhaustive inside stated bounds.
 * Type universe ("base" family): shapes of depth <= 2 (arrays [1] [2] [3] [] / structs of 1-3 members incl. bit-fields,
   anonymous struct/union members, trailing flexible array / unions of 2) whose scalar slots are filled from a fixed
   rotation of 17 scalar types (integers, _Bool, floating, object and function pointers).
 * Families added by the strengthening pass (evidence key family_counts):
   - packed: __attribute__((packed)) structs with a pointer member at EVERY offset mod 8 (char[k] prefix, k = 0..7), two
     pointers in a row, pointers behind unaligned long / long double, arrays of packed structs of size 9/10/11 (pointer of
     element i at i*size + k), packed structs nested in ordinary structs and unions, packed structs of three
     scalars/bit-fields over the scalar rotation.  (The coverage guard recomputes the pointer offsets of these types and
     fails the run when a residue mod 8 is missing.)
   - alignas: _Alignas(2..32) on members of structs, unions and packed structs (gaps inside the object).
   - addr: pointer elements/members reached by brace elision (char *t[2][2], struct {char *names[2]; int n;}, arrays of
     structs of pointers, flexible arrays of pointers) and char[2][3] inside structs/arrays.
   - In packed/alignas/addr types and for scalar pointers, one pointer atom per spelling takes EVERY address-constant
     form of models/c05_init.PTR_ATOMS (52 forms: &g, arr+i, &arr[i], &s.m, s.arr, &(&s)->m, &m[i][j], m[i]+j, *m+j,
     m[i], casts, "string", "string"+1, &"string"[2], f, &f, *f, **f, &*f, (T)f), at the top level, after designators
     and at every brace-elision level; elsewhere pointer atoms rotate over the first eight forms of each list.
   - unnamed-bitfield: structs/unions of 1-3 members with one unnamed bit-field (int :3, int :0, unsigned char :5) at
     every position (6.7.9p9: takes no initializer); wide-bitfield: bit-fields of width 33, 40, 64.
   - float: floating leaves are dumped BYTEWISE (the 4 bytes of a float, the 8 bytes of a double, the 10 significant
     bytes of an x87 long double) and compared with the exactly computed, correctly rounded representation.  One
     arithmetic atom per spelling takes EVERY constant of models/c05_init.NUM_ATOMS (36 constants: 0.1 / 0.1f / 0.1L,
     1.0L/3, 1.0f/3, 1.0/3, casts, long double constants just above / below a rounding midpoint of float and of
     double, exact ties, 2^24+1 / 2^53+1 / 2^64-1 / 2^63-1 as floating AND as integer constants, -0.0, 2.9 / -2.9f /
     255.9 (truncation), subnormals, FLT_MAX) - on every arithmetic scalar type (floating constants for integer
     leaves wherever C11 defines the conversion, integer constants for floating leaves) and on the leaves of float /
     double / long double arrays, structs, unions, packed structs, arrays of structs, flexible array members and
     bit-fields, static and automatic, positional, designated and at brace-elision levels.  (A guard recomputes
     which constants round differently when taken through double or float first and fails the run when none does.)
   - string: one string literal per spelling takes every variant of string_variants(): an embedded null character at
     the first / middle / last position and at the first two positions, escape sequences and extended characters
     (\\n \\377 \\x7f \\\\ \\" \\0 \\t, e-acute, euro sign, U+1F600: multibyte in "" and u8"", one element in u"" U"" L"", a
     surrogate pair in u""; three variants starting at different pieces so that every piece occurs), at the
     lengths exact fit / exact fit with terminator / shorter, for arrays of char, signed char, unsigned char,
     char16_t, char32_t, wchar_t of bound 4, 6 and unknown bound (thorough: 2, 3, 5 too), plain, braced, designated, as
     members, as rows of 2-D arrays, in unions, as flexible array member.  Every element up to sizeof is dumped.
 * Families added by the third pass:
   - bytes: byte VALUE SEQUENCES in arrays of char / signed char / unsigned char / _Bool: EVERY pair (b1, b2) of
     M.BYTES1 x M.BYTES2 (b1: 0 1 7 8 9 10 13 27 31 32 34 39 63 64 92 127 128 255 - what an emitter of the static image
     may write as an escape sequence; b2: '0' '7' '8' '9' 'a' 'f' 'A' 'x' '"' backslash newline 0 1 255 - what could
     continue or end such an escape) as ADJACENT elements [letter, b1, b2, letter], given as one string literal with
     three-digit octal escapes, as adjacent string literals split after b1 with the shortest octal and the shortest
     hexadecimal escape ("v(bs)1" "23": phase 5 before phase 6), as a brace list of integer constants and (members) as
     brace-elided integer constants; arrays of unknown bound (a literal adds its terminator), of bound 4 (exact fit)
     and 6 (zero padded), as struct members with a member behind them, (thorough) as rows, union member, flexible array
     member, nested and packed struct member; _Bool arrays: brace lists over {0,1,2,255} x {0,1,'0',255}.  Static and
     automatic, every element dumped.  Failing cases carry the classes of b1 and b2 in their signature.
   - struct-expr: initializers that are EXPRESSIONS of struct/union type (6.7.9p13): a type I nested as first and as
     later member 1, 2 and 3 struct levels deep, in arrays, in array members, through unions (expression of the inner
     struct, of every intermediate struct, of a union type); every spelling inside the bounds that contains at least
     one such expression - positional, designated, at EVERY brace-elision level, several per list, mixed with scalars.
     The expression is a variable y<n> of exactly the member's type (all struct types get tags), zeroed bytewise and
     set up by assignments.  Automatic storage only (no constant expression has struct type).  Initializers for a part
     of a subobject that such an expression initialized are not judged (6.7.9p19 footnote / DR 413; gcc drops the
     expression's value), except a designator that changes the member of a union so initialized (the later initializer
     applies whatever becomes of the rest).
   - union-bitfield: unions whose first or designated member is a bit-field (static image: written through the union
     path), alone, in structs, in arrays, with every arithmetic constant on the bit-field.  Only the VALUE of the
     bit-field is judged: the other bits of its storage unit are unspecified (6.2.6.1p7; gcc leaves stack bytes there
     in automatic objects), so chibicc writing the unmasked value into the static image is not a deviation.
 * For every type: EVERY initializer spelling the 6.7.9 grammar allows with <= A expression/string atoms, <= D designated
   items (paths up to 3 designators, GNU ranges), positional continuation after every designator, every brace-elision
   level, braced and string forms, overriding, short lists, trailing commas, braces around scalars.  Constraint
   violations (excess elements, ...) are never generated (the reference model is the validity filter).
 * Each case is `static T s = INIT;` and `T a = INIT;` in one function which dumps both leaf by leaf.  The generated
   unit includes no header (glibc's <sys/cdefs.h> would define __attribute__ away for chibicc).
 * Deterministic stack: the driver fills the 32 KiB below its stack pointer - the callee's whole frame - before EVERY
   call of a case function, and calls every case twice, with fill bytes 0xA5 and 0x5A.  "Unmentioned bytes of an
   automatic object are zero" therefore never depends on which functions ran before: the batch run and the single-case
   replay artefact (same driver) observe the same thing, and a byte that equals one pattern differs from the other.
 * Pointer leaves are dumped as (object, offset) codes; the address of (the inside of) a string literal is identified by
   the bytes it points to.
 * Classification of failing cases: a case whose own feature signature matches a known finding is counted under it;
   the others are grouped by (kind, deviation), up to six representatives with pairwise different feature sets per
   group are shrunk in parallel to local minima, and each minimum's signature explains the group's cases whose
   features contain the minimum's.  Wall-clock timeouts of single compiles are retried before they count.
 * Oracles: (1) static dump == automatic dump; (2) both == models/c05_init.py, judged only when gcc -O0 agrees with
   the model on every leaf of the case (otherwise oracle_disagreements, skipped).
"""
import os, re, itertools, hashlib
from vlib import core, twin
from models import c05_init as M

LEVEL = "exploration"
BUDGET = {"quick": 2400, "thorough": 7200}      # quick: 35-40 s on an idle machine; the deadline only matters on an overloaded one (load 900+: 20 min)

BATCH = 400

# ---- type universe -----------------------------------------------------------
SLOT, BF = ('slot',), ('bfslot',)
LP = ['int', 'char', 'long', 'pint', 'double', 'uchar', 'short', 'bool', 'float', 'pchar', 'ulong', 'pfn', 'ldouble',
      'ushort', 'pvoid', 'uint', 'schar']
BFP = [('uint', 5), ('int', 7), ('bool', 1), ('uchar', 3), ('ulong', 31), ('ushort', 9)]   # >32-bit-wide bit-fields: C04 (store mask does not assemble)


def arr(e, n): return ('arr', e, n)
def st(*ms): return ('st', tuple(ms))          # members: shape or ('anon', shape)
def un(*ms): return ('un', tuple(ms))
def anon(s): return ('anon', s)
def cha(key, n): return ('arr', ('sc', key), n)


MEMBER_NAMES = ["ab", "a", "abc", "b", "ba", "c", "cab", "ca", "d", "da"] + list("efghijklmnopqrstuvwxyz")


def instantiate(shape, rot):
    """Fill slots in preorder from the rotations, name members from MEMBER_NAMES (unique in the whole type)."""
    cnt = {'s': 0, 'b': 0, 'n': 0, 'w': 0}

    def go(s):
        k = s[0]
        if k == 'slot':
            cnt['s'] += 1
            return ('sc', LP[(cnt['s'] - 1 + rot) % len(LP)])
        if k == 'bfslot':
            cnt['b'] += 1
            key, w = BFP[(cnt['b'] - 1 + rot) % len(BFP)]
            return ('bf', key, w)
        if k == 'bfwslot':
            cnt['w'] += 1
            key, w = BFWP[(cnt['w'] - 1 + rot) % len(BFWP)]
            return ('bf', key, w)
        if k in ('sc', 'bf'):
            return s
        if k == 'arr':
            return ('arr', go(s[1]), s[2])
        ms = []
        for m in s[1]:
            if m[0] == 'anon':
                ms.append((None, go(m[1])))
            else:
                # member names of one type are prefixes / extensions of each other in both declaration orders (a designator
                # names exactly one member: `.a` is not `.ab`)
                name = MEMBER_NAMES[cnt['n']]
                cnt['n'] += 1
                ms.append((name, go(m)))
        return (k, tuple(ms)) + tuple(s[2:3])
    return go(shape)


def shapes_d1():
    out = []
    for n in (1, 2, 3, None):
        out.append(arr(SLOT, n))
    for k in (1, 2, 3):
        for ms in itertools.product((SLOT, BF), repeat=k):
            out.append(st(*ms))
    out.append(un(SLOT, SLOT))
    out.append(un(SLOT, BF))
    return out


def shapes_d1_flex():
    out = []
    for k in (1, 2):
        for ms in itertools.product((SLOT, BF), repeat=k):
            out.append(st(*(ms + (arr(SLOT, None),))))
    out.append(st(SLOT, cha('char', None)))
    return out


def shapes_chararr():
    return [cha(k, n) for k in ('char', 'uchar', 'schar', 'ushort', 'uint', 'int') for n in (1, 2, 3, None)]


MEMB = [SLOT, BF, arr(SLOT, 2), cha('char', 3), st(SLOT, SLOT), st(BF, SLOT), un(SLOT, SLOT),
        anon(st(SLOT, SLOT)), anon(un(SLOT, SLOT)), anon(st(BF, BF))]
MEMB_SMALL = [SLOT, BF, arr(SLOT, 2), st(SLOT, SLOT), anon(un(SLOT, SLOT)), anon(st(SLOT, SLOT))]
UMEMB = [SLOT, arr(SLOT, 2), st(SLOT, SLOT), anon(st(SLOT, SLOT)), cha('char', 3), BF]


def composite(m):
    return m not in (SLOT, BF)


def shapes_d2(tier):
    out = []
    for e in [x for x in shapes_d1() if not (x[0] == 'arr' and x[2] is None)] + [cha('char', 3), cha('int', 2), cha('ushort', 2)]:
        for n in ((1, 2, 3, None) if tier == "thorough" else (2, None)):
            out.append(arr(e, n))
    for k in (1, 2):
        for ms in itertools.product(MEMB, repeat=k):
            if any(composite(m) for m in ms):
                out.append(st(*ms))
    for ms in itertools.product(MEMB_SMALL, repeat=3):
        nc = sum(1 for m in ms if composite(m))
        if nc >= 1 and (tier == "thorough" or nc == 1):
            out.append(st(*ms))
    for a in UMEMB:
        for b in UMEMB:
            if composite(a) or composite(b):
                out.append(un(a, b))
    return out


def shapes_d2_flex(tier):
    out = []
    heads = [(m,) for m in MEMB if composite(m)]
    if tier == "thorough":
        heads += [ms for ms in itertools.product(MEMB_SMALL, repeat=2)]
    for h in heads:
        for f in (arr(SLOT, None), arr(st(SLOT, SLOT), None), cha('char', None)):
            out.append(st(*(h + (f,))))
    for h in [(SLOT,), (SLOT, BF)]:
        out.append(st(*(h + (arr(st(SLOT, SLOT), None),))))
        out.append(st(*(h + (arr(arr(SLOT, 2), None),))))
    return out


# ---- families added by the strengthening pass ----------------------------------
# BFW: bit-fields wider than 32 bits (the 64-bit store mask is a separate code path in codegen.c and parse.c)
BFWP = [('long', 64), ('ulong', 33), ('long', 40), ('ulong', 64), ('long', 33)]
PT = [('sc', 'pchar'), ('sc', 'pint'), ('sc', 'pvoid'), ('sc', 'pfn')]
CH, SH, LO, LD = ('sc', 'char'), ('sc', 'short'), ('sc', 'long'), ('sc', 'ldouble')


def stx(ms, attrs, k='st'):
    return (k, tuple(ms), tuple(sorted(attrs)))


def pk(*ms):
    return stx(ms, [('packed',)])


def shapes_packed(tier):
    """__attribute__((packed)) structs: a pointer member at every offset mod 8 (char[k] prefix, k = 0..7), two pointers
    in a row, pointers after unaligned wider scalars, arrays of packed structs (element sizes 9, 10, 11: the pointer of
    element i sits at i*size + k), packed structs nested in ordinary structs/unions."""
    q = tier == "quick"
    out = []
    for k in range(8):
        for pi, P in enumerate(PT):
            if q and pi != k % 4:
                continue
            out.append(pk(P, CH) if k == 0 else pk(cha('char', k), P))
    for k in ((1, 3, 6) if q else range(1, 8)):
        out.append(pk(cha('char', k), PT[k % 4], PT[(k + 1) % 4]))
    out.append(pk(CH, LO, PT[0]))                       # pointer at 9
    out.append(pk(SH, LD, PT[1], CH))                   # pointer at 18
    out.append(pk(PT[3], CH, PT[2]))                    # 0 and 9
    out.append(arr(pk(CH, PT[0]), 2))                   # size 9: 1, 10
    out.append(arr(pk(PT[1], cha('char', 3)), 3))       # size 11: 0, 11, 22
    out.append(arr(pk(SH, PT[3]), None))                # size 10: 2, 12, ..
    out.append(st(CH, pk(CH, PT[2]), PT[0]))            # nested: 2, 16
    out.append(st(pk(cha('char', 3), PT[1]), ('sc', 'int')))
    out.append(un(cha('char', 3), pk(CH, PT[0])))
    if not q:
        out.append(arr(pk(CH, PT[2]), 3))
        out.append(arr(pk(cha('char', 5), PT[3]), 2))
        out.append(st(SH, arr(pk(CH, PT[1]), 2)))
        out.append(pk(pk(CH, PT[0]), pk(SH, PT[1])))
        out.append(pk(CH, arr(PT[0], 2)))
        out.append(pk(cha('char', 3), arr(PT[3], 2), CH))
    return out


def shapes_packed_scalars():
    """packed structs of three scalars / bit-fields from the rotation (every scalar type at an unnatural offset)."""
    return [pk(SLOT, SLOT, SLOT), pk(SLOT, BF, SLOT), pk(cha('char', 3), SLOT, SLOT)]


def shapes_alignas():
    """_Alignas on members (layout with gaps; the static image and the zero fill must cover them), also inside packed
    structs, where it is the only thing that aligns a member (gcc accepts _Alignas only when it does not reduce the
    alignment of the member's type, so a pointer gets 8 or 16; a pointer behind an _Alignas(2) short sits at 4, 12)."""
    A = lambda i, n: ('al', i, n)
    return [
        stx((CH, PT[0]), [A(1, 16)]),
        stx((CH, CH, PT[1]), [A(1, 4)]),
        stx((CH, ('sc', 'int'), CH), [A(1, 8), A(2, 4)]),
        stx((('sc', 'int'), cha('char', 3), SH), [A(1, 4), A(2, 8)]),
        stx((cha('char', 3), BF, SLOT), [A(0, 8)]),
        stx((CH, LD, PT[3]), [A(1, 32)]),
        stx((CH, PT[2]), [A(0, 2), A(1, 16)], k='un'),
        stx((CH, PT[0], CH), [('packed',), A(1, 8)]),                     # 8; size 17 -> 24
        stx((CH, PT[2], CH, PT[3]), [('packed',), A(1, 8)]),              # 8 and 17
        stx((cha('char', 3), PT[1], SH), [('packed',), A(1, 16)]),
        stx((CH, SH, PT[3]), [('packed',), A(1, 2)]),                     # short at 2, pointer at 4
        arr(stx((PT[0], CH, SH), [('packed',), A(2, 2)]), 2),             # size 12: pointers at 0 and 12
    ]


def shapes_unnamed_bf(tier):
    """Structs/unions of 1-3 scalar/bit-field members with ONE unnamed bit-field (`int :3;` / `int :0;`) at every
    position: unnamed members take no initializer (6.7.9p9)."""
    q = tier == "quick"
    out = []
    for k in ((2, 3) if q else (1, 2, 3)):
        for ms in itertools.product((SLOT, BF), repeat=k):
            if q and k == 3 and ms.count(BF) not in (0, 1):
                continue
            for pos in range(k + 1):
                for key, w in ((('int', 3),) if q and pos != 1 else (('int', 3), ('int', 0), ('uchar', 5))):
                    out.append(stx(ms, [('ubf', pos, key, w)]))
    for pos in (0, 1, 2):
        out.append(stx((SLOT, SLOT), [('ubf', pos, 'int', 3)], k='un'))
    out.append(stx((SLOT, st(SLOT, SLOT)), [('ubf', 0, 'int', 7), ('ubf', 1, 'int', 0)]))
    out.append(st(SLOT, stx((SLOT, SLOT), [('ubf', 0, 'int', 3)])))
    out.append(arr(stx((SLOT, SLOT), [('ubf', 1, 'int', 3)]), 2))
    out.append(stx((SLOT, arr(SLOT, None)), [('ubf', 1, 'int', 3)]))
    return out


def shapes_wide_bf():
    W = ('bfwslot',)
    return [st(W), st(W, SLOT), st(SLOT, W), st(BF, W), st(W, W), un(SLOT, W), st(W, BF, SLOT)]


def shapes_addr(tier):
    """Pointer members/elements reached by brace elision and through nested arrays (every address-constant form, among
    them string literals: a string literal that meets an array of POINTERS initializes its first element, 6.7.9p14
    applies to character arrays only), and character arrays nested three deep."""
    PC = PT[0]
    out = [arr(PC, 2), arr(arr(PC, 2), 2), st(arr(PC, 2), ('sc', 'int')), arr(st(PC, PC), 2), st(('sc', 'int'), arr(PC, None)),
           st(cha('char', 3), PC), st(st(PC, CH), arr(PT[2], 2)), un(arr(PC, 2), ('sc', 'int')), arr(PT[1], None),
           st(arr(cha('char', 3), 2), ('sc', 'int'))]
    if tier != "quick":
        out += [arr(arr(cha('char', 3), 2), 2), arr(st(arr(PT[2], 2)), 2), arr(PT[2], 3), arr(arr(PT[1], 2), None), st(arr(arr(PC, 2), 2)), st(arr(st(PC), 2), PT[3]),
                st(arr(cha('uint', 2), 2), PC), arr(st(cha('char', 2), PC), 2)]
    return out


FL, DB, IN = ('sc', 'float'), ('sc', 'double'), ('sc', 'int')


def shapes_float(tier):
    """Floating family: float / double / long double leaves (and integer leaves that take floating constants) as
    elements and members - the struct/union forms of a plain declaration, a packed struct (long double at offset 1), an
    array of structs, a flexible array member, bit-fields.  The scalars themselves are in the base universe."""
    out = [arr(LD, 2), arr(FL, None), arr(DB, 3), st(CH, arr(LD, 2), FL), st(FL, DB, LD), un(IN, LD), pk(CH, LD, FL),
           arr(st(FL, LD), 2), st(IN, arr(LD, None)), st(LO, ('sc', 'ulong'), ('sc', 'uchar')), st(('bf', 'int', 7), FL, ('bf', 'ulong', 40))]
    if tier != "quick":
        out += [arr(FL, 3), arr(DB, None), arr(LD, None), arr(arr(LD, 2), 2), st(st(FL, LD), DB), un(FL, DB), un(LD, CH), pk(SH, DB, CH, FL),
                arr(un(FL, LD), 2), st(IN, arr(st(FL, DB), None)), st(anon(un(FL, IN)), LD), arr(('sc', 'ulong'), 2), arr(('sc', 'bool'), 2),
                stx((CH, LD), [('al', 1, 32)]), st(('sc', 'short'), ('sc', 'uint'), ('sc', 'schar'))]
    return out


def shapes_string(tier):
    """String family: character arrays of every element type that a string literal can initialize (char, signed char,
    unsigned char; char16_t, char32_t, wchar_t as unsigned short, unsigned int, int) with bounds 4, 6 (thorough: 2, 3, 5)
    and unknown bound, plain, as struct/union members, as rows of 2-D arrays, as a flexible array member."""
    q = tier == "quick"
    keys = ('char', 'uchar', 'schar', 'ushort', 'uint', 'int')
    out = []
    for n in ((4, None) if q else (4, None, 6, 2, 3, 5)):
        for k in keys:
            out.append(cha(k, n))
    out += [cha('char', 6), cha('ushort', 6)] if q else []
    out += [st(IN, cha('char', 4), cha('ushort', 4)), arr(cha('char', 4), 2), arr(cha('int', 3), None), st(IN, cha('char', None)),
            un(cha('char', 4), IN), st(cha('uint', 3), CH), arr(st(cha('uchar', 3), CH), 2)]
    if not q:
        out += [arr(cha('ushort', 4), 2), arr(cha('uint', 3), None), arr(cha('schar', 5), 2), st(IN, cha('ushort', None)), st(IN, cha('int', None)),
                st(st(cha('char', 4)), IN), un(IN, cha('int', 3)), pk(CH, cha('ushort', 4), CH), arr(arr(cha('char', 3), 2), 2),
                st(anon(st(cha('char', 4), CH)), cha('uint', 2))]
    return out


def packed_ptr_offsets(t, base=0, acc=None):
    """Byte offsets of the pointer leaves of a type whose structs are all packed without _Alignas (trivial layout);
    None when the layout is not trivial.  Used for the coverage guard 'a pointer at every offset mod 8'."""
    acc = [] if acc is None else acc

    def size(t):
        k = t[0]
        if k == 'sc':
            return 16 if t[1] == 'ldouble' else M.SC[t[1]][1] // 8 if t[1] != 'bool' else 1
        if k == 'arr':
            e = size(t[1])
            return None if e is None or t[2] is None else e * t[2]
        if k == 'bf' or M.attrs(t) != (('packed',),):
            return None
        ss = [size(mt) for _, mt in t[1]]
        if None in ss:
            return None
        return sum(ss) if k == 'st' else max(ss)
    k = t[0]
    if k == 'sc':
        if M.SC[t[1]][0] == 'ptr':
            acc.append(base)
    elif k == 'arr':
        e = size(t[1])
        if e is not None:
            for i in range(t[2] or 2):
                packed_ptr_offsets(t[1], base + i * e, acc)
    elif k in ('st', 'un') and M.attrs(t) == (('packed',),):
        off = base
        for _, mt in t[1]:
            sz = size(mt)
            if sz is None:
                break
            packed_ptr_offsets(mt, off, acc)
            if k == 'st':
                off += sz
    return acc


def shapes_bytes(tier):
    """Byte family: arrays of the three character types and _Bool, of unknown bound (a string literal adds the
    terminator), bound 4 (exact fit) and 6 (zero padded), as struct members with a member behind them (what spills over
    the array shows there), as union member, as rows, as flexible array member."""
    q = tier == "quick"
    BO = ('sc', 'bool')
    out = [cha(k, None) for k in ('char', 'schar', 'uchar')] + [cha('char', 6), cha('uchar', 4), arr(BO, None), arr(BO, 3),
           st(IN, cha('char', 4), CH), st(cha('schar', 6), IN), st(CH, arr(BO, 2), CH)]
    if not q:
        out += [cha('schar', 4), cha('char', 4), cha('uchar', 6), cha('schar', 6), cha('char', 2), cha('uchar', 3),
                st(IN, cha('uchar', 4), CH), st(cha('char', 6), IN), arr(cha('char', 4), 2), arr(cha('uchar', 6), None),
                un(cha('uchar', 4), IN), st(IN, cha('char', None)), st(st(cha('schar', 4), CH), IN), pk(CH, cha('char', 5), SH)]
    return out


def I_(a, b, ka='int', kb='int'):
    return ('st', ((a, ('sc', ka)), (b, ('sc', kb))))


def shapes_struct_expr(tier):
    """Struct-expression family: a struct/union type I (two ints; char + long; bit-fields; an array member; a union)
    nested as FIRST and as LATER member 1, 2 and 3 struct levels deep, in arrays, in arrays inside structs, through
    unions - so that an expression of type I (or of an intermediate type) meets every brace-elision depth."""
    q = tier == "quick"
    N = lambda name, t: (name, t)
    S = lambda *ms: ('st', tuple(ms))
    U = lambda *ms: ('un', tuple(ms))
    i_, c_, l_ = ('sc', 'int'), ('sc', 'char'), ('sc', 'long')
    I = I_('a', 'b')
    J = S(N('i', I), N('e', i_))                         # I one level down
    K = S(N('j', J), N('f', i_))                         # I two levels down
    out = [S(N('i', I), N('c', i_), N('d', i_)),         # depth 1: struct W w = { yI, 5, 6 }
           S(N('j', J), N('c', i_)),                     # depth 2: { yI, 7, 8 } / { yJ, 8 }
           S(N('k', K), N('c', i_)),                     # depth 3
           S(N('c', i_), N('j', J)),                     # a later member
           ('arr', I, 2), ('arr', J, 2), ('arr', S(N('i', I), N('c', i_), N('d', i_)), None),
           S(N('v', ('arr', I, 2)), N('c', i_)),         # through an array member
           S(N('u', U(N('i', I), N('l', l_))), N('c', i_)),          # through a union
           S(N('u', U(N('j', J), N('l', l_))), N('c', i_)),          # union, then struct
           U(N('j', J), N('l', l_)),
           S(N('j', S(N('u', U(N('g', c_), N('h', i_))), N('e', i_))), N('c', i_)),   # an expression of UNION type
           S(N('j', S(N('i', ('st', (('a', ('sc', 'char')), ('b', ('sc', 'long'))))), N('e', c_))), N('c', ('sc', 'short')))]
    if not q:
        B = ('st', (('a', ('bf', 'uint', 5)), ('b', ('bf', 'int', 7)), ('g', ('sc', 'uchar'))))
        A = ('st', (('a', ('arr', ('sc', 'short'), 2)), ('b', ('sc', 'double'))))
        out += [S(N('j', S(N('i', B), N('e', i_))), N('c', i_)), S(N('j', S(N('i', A), N('e', i_))), N('c', i_)),
                ('arr', ('arr', I, 2), 2), ('arr', K, None), S(N('c', c_), N('k', K), N('d', l_)),
                S(N('v', ('arr', J, 2)), N('c', i_)), U(N('k', K), N('l', l_)),
                S(N('j', S(N('i', I), N('e', ('arr', i_, 2)))), N('c', i_))]
    return out


def shapes_union_bf(tier):
    """Unions whose FIRST or designated member is a bit-field (static storage: the byte image gets it through the
    union path, not the struct path), alone, in structs between other members, in arrays."""
    b = lambda k, w: ('bf', k, w)
    UC, UI = ('sc', 'uchar'), ('sc', 'uint')
    out = [un(b('uint', 3), UC), un(b('int', 3), UI), un(UC, b('uchar', 3)), un(b('ulong', 33), UI), un(b('bool', 1), UI),
           st(CH, un(b('uint', 5), UC), CH), arr(un(b('ushort', 9), UC), 2), un(b('uint', 3), b('int', 12))]
    if tier != "quick":
        out += [un(b('long', 40), UC), un(b('ulong', 64), UC), un(b('short', 5), UI), st(un(b('uint', 3), UC), un(b('int', 7), UC)),
                arr(st(CH, un(b('uchar', 2), UC)), 2), un(st(b('uint', 3), b('uint', 5)), UI)]
    return out


FAMILIES = ("base", "packed", "alignas", "unnamed-bitfield", "wide-bitfield", "addr", "float", "string", "bytes", "struct-expr",
            "union-bitfield")


def universe(tier):
    """[(type, static_only, bounds, family, ptrbounds, kinds)] in a deterministic simplest-first order; bounds = ((atoms,
    designated items), ..): a spelling is enumerated when it fits one of the pairs.  ptrbounds, kinds: see gen_cases_for."""
    q = tier == "quick"
    B1 = ((3, 2),) if q else ((4, 2), (3, 3))
    B2 = ((2, 1),) if q else ((2, 2), (3, 1))
    PB = ((2, 0), (1, 1)) if q else ((3, 0), (2, 1))        # every address-constant form inside these
    out = []
    seen = set()

    def add(t, so, b, fam="base", ptrb=(), kinds='p'):
        key = (t, so) if kinds in ('p', 'n', 's') else (t, so, fam)      # the later families enumerate something else for a type
        if key not in seen:
            seen.add(key)
            out.append((t, so, b, fam, ptrb, kinds))
    for k in LP:
        # scalars: every address-constant form for the pointers, every arithmetic constant of M.NUM_ATOMS for the others
        add(('sc', k), False, ((1, 0),), "base", ((1, 0),), 'p' if M.SC[k][0] == 'ptr' else 'n')
    rots1 = (0, 7) if q else tuple(range(0, 17, 2))
    for r in rots1:
        for s in shapes_d1():
            add(instantiate(s, r), False, B1)
        for s in shapes_d1_flex():
            add(instantiate(s, r), True, B1)
    for s in shapes_chararr():
        add(instantiate(s, 0), False, B1)
    for s in shapes_d2(tier):
        add(instantiate(s, 0), False, B2)
    for s in shapes_d2_flex(tier):
        add(instantiate(s, 0), True, B2)
    # families of the strengthening pass
    BS = ((2, 0), (1, 1)) if q else ((2, 1),)
    for s in shapes_packed(tier):
        add(instantiate(s, 0), False, BS, "packed", PB)
    for r in ((0, 5) if q else range(0, 17, 2)):
        for s in shapes_packed_scalars():
            add(instantiate(s, r), False, B2, "packed")
    for s in shapes_alignas():
        add(instantiate(s, 3), False, BS, "alignas", PB)
    for s in shapes_unnamed_bf(tier):
        t = instantiate(s, 0)
        add(t, has_flex(t), ((3, 1),) if q else (B1 if t[0] != 'arr' else B2), "unnamed-bitfield")
    for r in ((0, 3) if q else range(5)):
        for s in shapes_wide_bf():
            add(instantiate(s, r), False, B1, "wide-bitfield")
    for s in shapes_addr(tier):
        t = instantiate(s, 0)
        add(t, has_flex(t), BS, "addr", ((3, 0), (1, 1)) if q else ((4, 0), (2, 1)))
    # floating / string families: the ordinary spellings inside BS, and inside XB one atom per spelling takes every
    # arithmetic constant of M.NUM_ATOMS / every string variant of string_variants()
    XB = ((2, 0), (1, 1)) if q else ((3, 0), (2, 1))
    for s in shapes_float(tier):
        t = instantiate(s, 0)
        add(t, has_flex(t), BS, "float", XB, 'n')
    for s in shapes_string(tier):
        t = instantiate(s, 0)
        add(t, has_flex(t), BS, "string", XB, 's')
    # third pass: byte-pair family (own generator), struct-valued expressions (automatic objects only; every spelling
    # inside the bounds that contains at least one such expression), unions with an initialized bit-field
    for s in shapes_bytes(tier):
        t = instantiate(s, 0)
        add(t, has_flex(t), (), "bytes", (), 'b')
    for t in shapes_struct_expr(tier):
        add(t, False, (), "struct-expr", ((3, 0), (2, 1)) if q or is_flex_arr(t) else ((3, 1),) if t[0] == 'arr' else ((4, 0), (3, 1)), 'x')
    for s in shapes_union_bf(tier):
        t = instantiate(s, 0)
        add(t, False, B1 if t[0] == 'un' else B2, "union-bitfield", XB, 'n')
    return out


# ---- initializer enumeration ---------------------------------------------------
# Immutable trees: ('a', style) | ('s', elem, len, u8) | ('l', items, tc); items = ((desig|None, tree), ...)
# lim = (designated items left, fancy spellings left, ranges left, kinds of explicit atoms still allowed: a string over
#        'p' address constants / 'n' arithmetic constants / 's' string variants, '' once the one explicit atom is used)

def is_flex_arr(t):
    return t[0] == 'arr' and t[2] is None


def designators(root):
    """All designator lists of length <= 3 that are valid at the top of a braced list for `root`, with their target
    path.  Ranges count separately.  Elements of flexible array members are not designated (only the member)."""
    out = []

    def go(t, desig, nrange, top):
        if len(desig) >= 3:
            return
        if t[0] in ('st', 'un'):
            def names(tt, acc):
                for n, mt in tt[1]:
                    if n is None:
                        names(mt, acc)
                    else:
                        acc.append((n, mt))
            acc = []
            names(t, acc)
            for n, mt in acc:
                d = desig + (('f', n),)
                out.append((d, nrange))
                go(mt, d, nrange, False)
        elif t[0] == 'arr':
            if t[2] is None and not top:
                return
            n = t[2] if t[2] is not None else 3
            for i in range(n):
                d = desig + (('i', i),)
                out.append((d, nrange))
                go(t[1], d, nrange, False)
            if nrange == 0:
                for a in range(n):
                    for b in range(a + 1, n):
                        d = desig + (('r', a, b),)
                        out.append((d, 1))
                        go(t[1], d, 1, False)
    go(root, (), 0, True)
    return out


def string_atoms(t, fancy):
    """String-literal initializers for char array type t: exact fit without NUL, exact with NUL, shorter, empty."""
    key, n = t[1][1], t[2]
    lens = sorted(set([2, 0] if n is None else [x for x in (n, n - 1, n - 2, 0) if x >= 0]))
    out = []
    for L in lens:
        out.append((('s', key, L, False), 0))
    if fancy:
        L = lens[-1]
        out.append((('l', ((None, ('s', key, L, False)),), False), 1))
        if key in ('char', 'uchar', 'schar') and L > 0:
            out.append((('s', key, L, True), 1))
    return out


def string_variants(t, P, braced):
    """String literals with an embedded null character (first / middle / last position, first two positions) and with
    escape sequences / extended characters, for char array type t ('s' in P: the string family): every variant of
    M.STRVARS at the lengths exact fit without terminator (n), exact fit with terminator (n-1), shorter (n-2); for an
    unknown bound lengths 3 and 5; the encoding prefix follows the element type ("" and u8 for the three character
    types, u, U, L).  braced: also each of them in braces."""
    if 's' not in P:
        return []
    key, n = t[1][1], t[2]
    lens = [5, 3] if n is None else [x for x in (n, n - 1, n - 2) if x >= 1]
    out = []
    for L in lens:
        seen = set()
        for var in M.STRVARS:
            if var in ('esc3', 'esc7') and L != lens[0]:
                continue
            for u8 in ((False, True) if key in ('char', 'uchar', 'schar') and var in ('nulm', 'esc') and L == lens[0] else (False,)):
                try:
                    body = M.str_content(0, L, 'u8' if u8 else M.CHARLIKE[key], var)[0]
                except M.Invalid:
                    continue
                if (body, u8) in seen:          # nul0 == nulm == null for L == 1, ...
                    continue
                seen.add((body, u8))
                out.append(('s', key, L, u8, var))
    if braced:
        out += [('l', ((None, x),), False) for x in out]
    return out


def ptr_atoms(t, P):
    """Explicit atoms for a scalar leaf (P = kinds of explicit atoms still available in this spelling, '' = none):
    'p': every address-constant form of the model's table for a pointer leaf (address-constant families);
    'n': every arithmetic constant of M.NUM_ATOMS whose conversion to the leaf type C11 defines (floating family)."""
    if not P or t[0] not in ('sc', 'bf'):
        return []
    kind = M.SC[t[1]][0]
    if 'p' in P and t[0] == 'sc' and kind == 'ptr':
        return [('a', ('pa', j)) for j in range(len(M.PTR_ATOMS[t[1]]))]
    if 'n' in P and kind != 'ptr':
        return [('a', ('na', j)) for j in _num_atoms_for(t)]
    return []


_NAF = {}


def _num_atoms_for(t):
    if t not in _NAF:
        _NAF[t] = M.num_atoms_for(t)
    return _NAF[t]


_XOK = {}


def x_ok(t):
    """Can a variable of struct/union type t be declared on its own (tagged type: no anonymous members, no attributes,
    no flexible array member) and set up by assignments of integer constants (no pointer leaves)?"""
    if t not in _XOK:
        try:
            M.decl_tagged(t, "", {})
            M.assign_x({}, t, M.State())
            _XOK[t] = True
        except M.Invalid:
            _XOK[t] = False
    return _XOK[t]


def gen_byte_cases(t):
    """Byte family: the first character array of t (t itself, a struct member, the first member of a union, the rows of
    a 2-D array) holds [letter, b1, b2, letter] for EVERY pair (b1, b2) of M.BYTES1 x M.BYTES2 as adjacent elements,
    given (1) as one string literal with three-digit octal escapes, (2) (3) as adjacent string literals split after b1,
    with the shortest octal / hexadecimal escapes (`"v\\1" "23"`), (4) as a brace list of integer constants, (5) for
    members: as brace-elided integer constants.  _Bool arrays: brace lists over {0, 1, 2, 255} x {0, 1, '0', 255}
    (elements 0/1).  The other members take plain atoms."""
    def find(t):
        # -> (wrap function tree -> top-level tree, array type) for the first character array
        if t[0] == 'arr' and t[1][0] == 'sc':
            return (lambda a, flat: a), t
        if t[0] == 'arr':
            w, at = find(t[1])
            return (lambda a, flat: ('l', tuple((None, w(a, False)) for _ in range(t[2] or 2)), False)), at
        if t[0] == 'un':
            w, at = find(t[1][0][1])
            return (lambda a, flat: ('l', ((None, w(a, False)),), False)), at
        def has_arr(x):
            return x[0] == 'arr' or (x[0] in ('st', 'un') and any(has_arr(mt) for _, mt in x[1]))
        idx = [i for i, (n, mt) in enumerate(t[1]) if has_arr(mt)][0]
        w, at = find(t[1][idx][1])

        def wrap(a, flat):
            items = []
            for i, (n, mt) in enumerate(t[1]):
                if i == idx:
                    sub = w(a, False)
                    if flat and sub[0] == 'l' and mt[0] == 'arr' and mt[2] is not None:
                        items += list(sub[1])           # brace elision: the constants directly in the struct's list
                    else:
                        items.append((None, sub))
                elif mt[0] in ('sc', 'bf'):
                    items.append((None, ('a', 'plain')))
                else:
                    break
            return ('l', tuple(items), False)
        return wrap, at
    wrap, at = find(t)
    key, n = at[1][1], at[2]
    L = 4 if n is None or n >= 4 else n
    if key == 'bool':
        pairs = [(b1, b2) for b1 in (0, 1, 2, 255) for b2 in (0, 1, 48, 255)]
    else:
        pairs = [(b1, b2) for b1 in M.BYTES1 for b2 in M.BYTES2]
    for b1, b2 in pairs:
        seen = set()
        if key in M.CHARLIKE:
            for form in M.BYTE_FORMS:
                body = M.str_content(0, L, '', ('bp', b1, b2, form))[0]
                if body in seen:
                    continue
                seen.add(body)
                yield wrap(('s', key, L, False, ('bp', b1, b2, form)), False), False
        seq = [('iv', b1, 'b1'), ('iv', b2, 'b2')] + [('iv', 109)] * (L - 2) if L < 4 else [('iv', 107), ('iv', b1, 'b1'), ('iv', b2, 'b2')] + [('iv', 109)] * (L - 3)
        lst = ('l', tuple((None, ('a', st)) for st in seq), False)
        yield wrap(lst, False), False
        if t[0] == 'st':
            yield wrap(lst, True), False


def gen_direct(t, b, lim, cross=False):
    """Initializers that initialize a (sub)object of type t as a whole: yields (tree, atoms used, lim left)."""
    k = t[0]
    D, F, R, P = lim
    if b <= 0:
        return
    if k in ('sc', 'bf'):
        yield ('a', 'plain'), 1, lim
        if cross:
            yield ('a', 'cross'), 1, lim
        if F > 0:
            yield ('l', ((None, ('a', 'plain')),), False), 1, (D, F - 1, R, P)
        for tree in ptr_atoms(t, P):
            yield tree, 1, (D, F, R, '')
        return
    if k in ('st', 'un') and P in ('x', 'X') and x_ok(t):
        yield ('x', t), 1, (D, F, R, 'X')          # an expression of exactly this struct/union type
    if k == 'arr' and t[1][0] == 'sc' and t[1][1] in M.CHARLIKE:
        for tree, f in string_atoms(t, F > 0):
            yield tree, 1, (D, F - f, R, P)
        for tree in string_variants(t, P, True):
            yield tree, 1, (D, F, R, '')
    for items, used, lim2 in gen_items(t, b, lim, cross):
        yield ('l', items, False), used, lim2


def gen_items(root, budget, lim, cross=False):
    desigs = [(d, M.resolve(root, list(d))[-1], nr) for d, nr in designators(root)]

    def rec(items, cursor, b, lim):
        if items:
            yield tuple(items), budget - b, lim
        if b == 0:
            return
        D, F, R, P = lim
        targets = []
        if cursor is not None:
            targets.append((None, cursor, lim))
        if D > 0:
            for d, path, nr in desigs:
                if nr and R == 0:
                    continue
                targets.append((d, path, (D - 1, F, R - nr, P)))
        for d, path, lim2 in targets:
            p = list(path)
            t = M.ty_at(root, p)
            level = 0
            while True:
                if level == 0:
                    cands = gen_direct(t, b, lim2, cross)
                elif t[0] in ('sc', 'bf'):
                    cands = [(('a', 'plain'), 1, lim2)] + [(tr, 1, lim2[:3] + ('',)) for tr in ptr_atoms(t, lim2[3])]
                elif t[0] == 'arr' and t[1][0] == 'sc' and t[1][1] in M.CHARLIKE:
                    cands = [(tree, 1, lim2) for tree, f in string_atoms(t, False)] + [
                        (tree, 1, lim2[:3] + ('',)) for tree in string_variants(t, lim2[3], False)]
                elif t[0] in ('st', 'un') and lim2[3] in ('x', 'X') and x_ok(t):
                    cands = [(('x', t), 1, lim2[:3] + ('X',))]      # a struct expression reached by brace elision
                else:
                    cands = []
                nxt = M.advance(root, p)
                for tree, used, lim3 in cands:
                    yield from rec(items + [(d, tree)], nxt, b - used, lim3)
                if t[0] in ('sc', 'bf'):
                    break
                if t[0] == 'arr' and t[2] is None:
                    break
                t = M.sub_ty(t, 0)
                p.append(0)
                level += 1
    yield from rec([], [0], budget, lim)


def natoms(tree):
    if tree[0] != 'l':
        return 1
    return sum(natoms(x) for _, x in tree[1])


def ndesig(tree):
    if tree[0] != 'l':
        return 0
    return sum((1 if d else 0) + ndesig(x) for d, x in tree[1])


def gen_cases_for(t, bounds, ptrbounds=(), kinds='p'):
    """All top-level initializers for type t within `bounds`.  yields (tree, trailing-comma variant flag).
    ptrbounds: further (atoms, designated items) pairs inside which ONE atom per spelling additionally takes every
    explicit form of the enabled kinds: 'p' a pointer atom takes every address-constant form of M.PTR_ATOMS (style
    ('pa', j)); 'n' an arithmetic atom takes every constant of M.NUM_ATOMS (style ('na', j)); 's' a string literal
    takes every variant of string_variants().  Only spellings that contain such an atom are new."""
    for bi, (atoms, dmax) in enumerate(bounds):
        for tree, used, lim in gen_direct(t, atoms, (dmax, 1, 1, ''), cross=(t[0] == 'sc')):
            if bi and any(used <= a and dmax - lim[0] <= d for a, d in bounds[:bi]):
                continue
            yield tree, False
            if tree[0] == 'l' and used <= 1 and not has_tc(tree):
                yield tree, True
    if kinds == 'b':
        yield from gen_byte_cases(t)
        return
    for bi, (atoms, dmax) in enumerate(ptrbounds):
        for tree, used, lim in gen_direct(t, atoms, (dmax, 1, 1, kinds), cross=False):
            if (lim[3] and lim[3] != 'X') or (bi and any(used <= a and dmax - lim[0] <= d for a, d in ptrbounds[:bi])):
                continue
            yield tree, False


def has_tc(tree):
    if tree[0] != 'l':
        return False
    return tree[2] or any(has_tc(s) for _, s in tree[1])


# ---- case -----------------------------------------------------------------------
class Case:
    __slots__ = ('ty', 'static_only', 'ini', 'text', 'leaves', 'flags', 'undefined', 'lenleaf', 'tree', 'tc', 'auto_only', 'xatoms')


def make_case(t, static_only, tree, tc):
    """Thaw, evaluate with the model; returns Case or raises M.Invalid."""
    ini = M.thaw(tree, tc)
    root, stt = M.evaluate(t, ini)
    c = Case()
    c.ty, c.static_only, c.ini, c.tree, c.tc = t, static_only, ini, tree, tc
    c.text = M.render(ini)
    c.leaves = M.leaves(root, t, "")
    c.flags = stt.flags
    c.undefined = stt.undefined
    c.lenleaf = len(root.kids) if is_flex_arr(t) else None
    # a struct-valued expression is no constant expression (6.6): such a case has the automatic object only
    c.xatoms = M.x_atoms(ini)
    c.auto_only = bool(c.xatoms)
    if c.auto_only and static_only:
        raise M.Invalid("struct expression in a static-only case")
    if tc:
        c.flags.add('trailing-comma')
    return c


def dump_expr(var, acc, lt):
    e = var + acc
    kind = M.SC[lt[1]][0]
    if kind == 'flt':
        # bytewise: the 4 / 8 / 10 significant bytes of the object (long double: two slots, bytes 0..7 and 8..9)
        off, n = {'float': (0, 4), 'double': (0, 8)}.get(lt[1]) or ((0, 8) if lt[2] == 'lo' else (8, 2))
        return "c05_fb(&%s, %d, %d)" % (e, off, n)
    if kind == 'ptr':
        return "FN(pdec)((void *)%s)" % e
    if kind == 'bool' and lt[0] == 'bf':
        return "(long)(%s != 0)" % e      # reading a _Bool bit-field is C04's subject; only zero/non-zero is observed here
    return "(long)%s" % e


def case_vars(c):
    return ("s",) if c.static_only else ("a",) if c.auto_only else ("s", "a")


def case_function(i, c):
    """C text of one case (function FN(c<i>))."""
    L = ["void FN(c%d)(long *o) {" % i]
    if c.auto_only:
        # struct-valued expressions: every struct/union type gets a tag; the variables y<n> of the member types are
        # set up by a byte-wise zero fill and member-wise ASSIGNMENTS (no initializer involved)
        tags = {}
        L.append("  typedef %s;" % M.decl_tagged(c.ty, "tt_", tags))
        for x in c.xatoms:
            L.append("  %s; for (unsigned i_ = 0; i_ < sizeof %s; i_++) ((char *)&%s)[i_] = 0;" % (M.decl_tagged(x['ty'], x['text'], tags), x['text'], x['text']))
            L.append("  " + " ".join("%s%s = %d;" % (x['text'], acc, v) for acc, lt, v in x['setup']))
        L.append("  %s = %s;" % (M.decl_tagged(c.ty, "a", tags), c.text))
    else:
        L.append("  static %s = %s;" % (M.decl(c.ty, "s"), c.text))
        if not c.static_only:
            L.append("  %s = %s;" % (M.decl(c.ty, "a"), c.text))
    for var in case_vars(c):
        for acc, lt, v in c.leaves:
            L.append("  *o++ = %s;" % dump_expr(var, acc, lt))
        if c.lenleaf is not None:
            L.append("  *o++ = sizeof(%s) / sizeof(%s[0]);" % (var, var))
    L.append("}")
    return "\n".join(L)


def expected(c):
    e = [v for _, _, v in c.leaves]
    if c.lenleaf is not None:
        e.append(c.lenleaf)
    return e


# No system header is included in the unit: glibc's <sys/cdefs.h> defines __attribute__ away for compilers that do not
# claim to be GCC, which would silently un-pack every packed struct of the chibicc twin.
UNIT_HEAD = """int FN(gi); int FN(ga)[4]; struct GS { int k; int m; int n[2]; } FN(gs); char FN(gc)[8]; int FN(gm)[2][3];
int FN(fn0)(void) { return 0; } int FN(fn1)(void) { return 1; }
long FN(pdec)(void *); long c05_fb(void *, int, int);
"""


def build_unit(cases):
    return UNIT_HEAD + "\n".join(case_function(i, c) for i, c in enumerate(cases)) + "\n"


def build_driver(cases):
    nb = len(M.BASES)
    d = ["#include <stdio.h>", "#include <stdlib.h>", "struct GS { int k; int m; int n[2]; };",
         "extern char __executable_start[], _end[];"]
    for p in ("cc_", "ref_"):
        d.append("extern int %sgi, %sga[4]; extern struct GS %sgs; extern char %sgc[8]; int %sfn0(void), %sfn1(void); extern int %sgm[2][3];" % ((p,) * 7))
    # pointer leaves are dumped as (object, offset) codes; a pointer into the program image that is none of the known
    # objects is taken as the address of (the inside of) a string literal and identified by the bytes it points to
    d.append("static long pdec(char *p, char **b, long *sz) { if (!p) return 0; for (int i = 0; i < %d; i++) if (p >= b[i] && p < b[i] + sz[i]) return 1000000L * (i + 1) + (p - b[i]);"
             " if (p >= __executable_start && p < _end - 8) { long h = 0; for (int i = 0; i < 8 && p[i]; i++) h = (h * 31 + (unsigned char)p[i]) %% 900001; return 9000000 + h; }"
             " return -1; }" % nb)
    d.append("static long sizes[%d] = {%s};" % (nb, ", ".join(str(x) for x in M.BASE_SIZES)))
    for p in ("cc_", "ref_"):
        d.append("long %spdec(void *p) { char *b[%d] = {(char*)&%sgi, (char*)%sga, (char*)&%sgs, %sgc, (char*)%sfn0, (char*)%sfn1, (char*)%sgm}; return pdec(p, b, sizes); }" % ((p, nb) + (p,) * 7))
    E = []
    rows = []
    for i, c in enumerate(cases):
        d.append("void cc_c%d(long *), ref_c%d(long *);" % (i, i))
        e = expected(c)
        rows.append("{cc_c%d, ref_c%d, %d, %d, %d}" % (i, i, len(e), len(E), len(case_vars(c))))
        E += e
    d.append("/* bytes off .. off+n-1 of a floating object, little endian (n <= 8) */\n"
             "long c05_fb(void *p, int off, int n) { unsigned long v = 0; for (int i = n - 1; i >= 0; i--) v = v << 8 | ((unsigned char *)p)[off + i]; return (long)v; }")
    d.append("static const long E[] = {%s};" % ",".join("%dL" % v if abs(v) < (1 << 62) else "(long)0x%xUL" % (v & ((1 << 64) - 1)) for v in E))
    d.append("static const struct { void (*cc)(long *); void (*ref)(long *); int n, off, k; } C[] = {%s};" % ",\n".join(rows))
    d.append(r"""
/* Fills the DIRTY_N bytes below main's stack pointer - exactly the memory the next callee's frame (return address,
   saved %rbp, locals) will occupy - with one byte value.  Every case function is called once after a fill with 0xA5 and
   once after a fill with 0x5A, so what an automatic object's unmentioned bytes show never depends on which functions
   ran before (batch run and single-case replay see the same stack), and a byte that happens to equal one pattern
   differs from the other. */
#define DIRTY_N 32768
#define DIRTY(pat) __asm__ volatile("lea -%c1(%%rsp), %%rdi\n\tmov %1, %%ecx\n\tmovzbl %b0, %%eax\n\trep stosb" \
                                    : : "q"((unsigned char)(pat)), "i"(DIRTY_N) : "rdi", "rcx", "rax", "memory", "cc")
int main(int argc, char **argv) {
  static long oc[4096], orf[4096];
  static const unsigned char pats[2] = {0xA5, 0x5A};
  int nc = sizeof(C) / sizeof(C[0]);
  setvbuf(stdout, 0, _IOLBF, 0);
  for (int i = argc > 1 ? atoi(argv[1]) : 0; i < nc; i++) {
    printf("@ %d\n", i);
    for (int pass = 0; pass < 2; pass++) {
      for (int j = 0; j < 2 * C[i].n; j++) oc[j] = orf[j] = 0x5a5a5a5a5a5aL;
      DIRTY(pats[pass]);
      C[i].ref(orf);
      DIRTY(pats[pass]);
      C[i].cc(oc);
      int dis = 0;
      for (int k = 0; k < C[i].k; k++)
        for (int j = 0; j < C[i].n; j++)
          if (orf[k * C[i].n + j] != E[C[i].off + j]) { printf("D %d %d %d %ld %ld\n", i, k, j, E[C[i].off + j], orf[k * C[i].n + j]); dis = 1; }
      if (dis) continue;
      for (int k = 0; k < C[i].k; k++)
        for (int j = 0; j < C[i].n; j++)
          if (oc[k * C[i].n + j] != E[C[i].off + j]) printf("V %d %d %d %ld %ld\n", i, k, j, E[C[i].off + j], oc[k * C[i].n + j]);
    }
  }
  printf("END\n");
  return 0;
}
""")
    return "\n".join(d) + "\n"


class _C:
    chibicc = None


def run_cases(chibicc, wd, name, cases):
    """Compile+run a list of cases.  Returns dict:
       ccfail: [(idx, status, stderr)]  cases chibicc does not compile (gcc accepts them)
       refrej: [idx]                    cases gcc rejects
       dis:    {idx: [lines]}           model/gcc disagreement
       viol:   {idx: [(k, j, exp, got)]}
       crash:  [idx]                    chibicc- or gcc-compiled case function crashed at run time
       ccfail_batch: [([idx..], status, stderr)]  minimal sets of cases that chibicc compiles one by one but not together
                                        (a compiler that damages its own heap on one case and notices on a later one)"""
    res = {"ccfail": [], "refrej": [], "dis": {}, "viol": {}, "crash": [], "ran": 0, "ccfail_batch": []}
    os.makedirs(wd, exist_ok=True)
    ctx = _C()
    ctx.chibicc = chibicc
    live = list(range(len(cases)))
    for attempt in range(10):
        sub = [cases[i] for i in live]
        r = twin.twin_run(ctx, wd, name, build_unit(sub), build_driver(sub), run_timeout=300)
        if r["status"] == "cc-fail":
            if r["code"] == "timeout" and attempt < 2:
                continue            # a loaded machine, not a verdict: compile the same batch again
            bad = find_ccfail(chibicc, wd, sub)
            if not bad and len(sub) > 8:
                # no single case fails, the batch does (e.g. a compiler that damages its heap on one case and notices
                # on a later one): run the batch in four parts, recursively
                size = (len(live) + 3) // 4
                for k in range(0, len(live), size):
                    part = live[k:k + size]
                    r2 = run_cases(chibicc, os.path.join(wd, "p%d" % (k // size)), name, [cases[i] for i in part])
                    res["ccfail"] += [(part[i], stt, err) for i, stt, err in r2["ccfail"]]
                    res["refrej"] += [part[i] for i in r2["refrej"]]
                    res["crash"] += [part[i] for i in r2["crash"]]
                    res["dis"].update({part[i]: v for i, v in r2["dis"].items()})
                    res["viol"].update({part[i]: v for i, v in r2["viol"].items()})
                    res["ccfail_batch"] += [([part[i] for i in idxs], stt, err) for idxs, stt, err in r2["ccfail_batch"]]
                    res["ran"] += r2["ran"]
                return res
            if not bad:
                # at most 8 cases: narrow them to a minimal set that fails together, report that set (when gcc accepts
                # it) and go on with the others
                grp, stt, err = min_failing_subbatch(chibicc, wd, sub)
                if grp is None:
                    raise core.HarnessError("chibicc fails on a batch once, but not again, and on none of its cases alone: %s" % r["stderr"][-500:])
                if gcc_accepts_all(wd, [sub[j] for j in grp]):
                    res["ccfail_batch"].append(([live[j] for j in grp], stt, err))
                else:
                    res["refrej"] += [live[j] for j in grp]
                gs = set(grp)
                live = [x for j, x in enumerate(live) if j not in gs]
                if not live:
                    return res
                continue
            badset = set(j for j, _, _ in bad)
            # only a finding when gcc accepts the single case (checked in one go first)
            allok = gcc_accepts_all(wd, [sub[j] for j, _, _ in bad])
            for j, stt, err in bad:
                if allok or gcc_accepts(wd, sub[j]):
                    res["ccfail"].append((live[j], stt, err))
                else:
                    res["refrej"].append(live[j])
            live = [x for j, x in enumerate(live) if j not in badset]
            if not live:
                return res
            continue
        if r["status"] == "harness":
            if r["stage"] != "gcc-unit":
                raise core.HarnessError("driver build failed: %s" % r["stderr"][-1500:])
            bad = [j for j in range(len(sub)) if not gcc_accepts(wd, sub[j])]
            if not bad:
                raise core.HarnessError("gcc rejects a batch but none of its cases: %s" % r["stderr"][-1500:])
            res["refrej"] += [live[j] for j in bad]
            live = [x for j, x in enumerate(live) if j not in set(bad)]
            if not live:
                return res
            continue
        out = r["stdout"]
        code = r["code"]
        start = 0
        exe = os.path.join(wd, name + ".exe")
        chunks = [out]
        guard = 0
        while "END" not in chunks[-1].split("\n")[-2:] and guard < 50:
            guard += 1
            last = [int(x[2:]) for x in chunks[-1].split("\n") if x.startswith("@ ")]
            if not last:
                raise core.HarnessError("driver produced nothing: code=%s %s" % (code, r["stderr"][-300:]))
            res["crash"].append(live[last[-1]])
            stt, o2, e2 = core.run_limited([exe, str(last[-1] + 1)], cwd=wd, timeout=300)
            chunks.append(o2)
        crashed = set(res["crash"])
        for o in chunks:
            for line in o.split("\n"):
                if line.startswith("V "):
                    _, i, k, j, e, g = line.split()
                    if live[int(i)] in crashed:
                        continue
                    rec = (int(k), int(j), int(e), int(g))
                    if rec not in res["viol"].setdefault(live[int(i)], []):      # the two stack-pattern passes repeat static leaves
                        res["viol"][live[int(i)]].append(rec)
                elif line.startswith("D "):
                    f = line.split()
                    res["dis"].setdefault(live[int(f[1])], []).append(line)
        res["ran"] = len(live)
        return res
    raise core.HarnessError("batch did not stabilise")


def single_unit(c):
    return twin.PRELUDE + build_unit([c])


def find_ccfail(chibicc, wd, cases):
    """Single-case compiles of a batch that chibicc did not compile: [(index, status, stderr)].  A wall-clock timeout
    is re-tried with a ten times longer limit before it is believed (a 2 ms job that times out is a loaded machine)."""
    bad = []
    p = os.path.join(wd, "one.c")
    for j, c in enumerate(cases):
        with open(p, "w") as f:
            f.write(single_unit(c))
        for tmo in (60, 600):
            stt, out, err = core.run_limited([chibicc, "-cc1", "-DPFX=cc_", "-cc1-input", p, "-cc1-output", os.path.join(wd, "one.s"), p],
                                             cwd=wd, timeout=tmo)
            if stt != "timeout":
                break
        if stt != 0:
            bad.append((j, stt, err))
            continue
        for tmo in (60, 600):
            stt, out, err = core.run_limited(["as", "-o", os.path.join(wd, "one.o"), os.path.join(wd, "one.s")], cwd=wd, timeout=tmo)
            if stt != "timeout":
                break
        if stt == "timeout":
            raise core.HarnessError("`as` does not finish on a single case within 600 s")
        if stt != 0:
            bad.append((j, "as", err))
    return bad


def cc_compiles(chibicc, wd, cases):
    """Compile the cases as ONE unit named unit.c in a directory of its own (the replay artefact uses the same names, so
    the compiler sees the same strings): 0 when cc1 and as succeed, else (status, stderr)."""
    d = os.path.join(wd, "mb")
    os.makedirs(d, exist_ok=True)
    with open(os.path.join(d, "unit.c"), "w") as f:
        f.write(twin.PRELUDE + build_unit(cases))
    for tmo in (120, 1200):
        stt, out, err = core.run_limited([chibicc, "-cc1", "-DPFX=cc_", "-cc1-input", "unit.c", "-cc1-output", "cc.s", "unit.c"], cwd=d, timeout=tmo)
        if stt != "timeout":
            break
    if stt != 0:
        return stt, err
    stt, out, err = core.run_limited(["as", "-o", "cc.o", "cc.s"], cwd=d, timeout=600)
    if stt == "timeout":
        raise core.HarnessError("`as` does not finish on a batch within 600 s")
    return ("as", err) if stt != 0 else 0


def min_failing_subbatch(chibicc, wd, cases, maxruns=200):
    """ddmin over a batch that chibicc does not compile although it compiles each case alone: -> (indices of a locally
    minimal failing subset, status, stderr), (None, ..) when the whole batch does not fail again."""
    cur = list(range(len(cases)))
    r = cc_compiles(chibicc, wd, cases)
    if r == 0:
        return None, None, None
    last = r
    n, runs = 2, 0
    while len(cur) >= 2 and runs < maxruns:
        size = (len(cur) + n - 1) // n
        parts = [cur[i:i + size] for i in range(0, len(cur), size)]
        hit = None
        for part in parts:                                  # a part alone
            if len(part) < len(cur):
                runs += 1
                r = cc_compiles(chibicc, wd, [cases[j] for j in part])
                if r != 0:
                    hit, last, n = part, r, 2
                    break
        if hit is None and n > 2:
            for part in parts:                              # the complement of a part
                rest = [j for j in cur if j not in set(part)]
                runs += 1
                r = cc_compiles(chibicc, wd, [cases[j] for j in rest])
                if r != 0:
                    hit, last, n = rest, r, max(n - 1, 2)
                    break
        if hit is not None:
            cur = hit
            continue
        if n >= len(cur):
            break
        n = min(len(cur), 2 * n)
    return cur, last[0], last[1]


def gcc_accepts_all(wd, cs):
    p = os.path.join(wd, "allg.c")
    with open(p, "w") as f:
        f.write(twin.PRELUDE + build_unit(cs))
    stt, out, err = core.run_limited(["gcc", "-std=gnu11", "-w", "-fsyntax-only", "-DPFX=ref_", p], cwd=wd, timeout=120)
    return stt == 0


def gcc_accepts(wd, c):
    p = os.path.join(wd, "oneg.c")
    with open(p, "w") as f:
        f.write(single_unit(c))
    stt, out, err = core.run_limited(["gcc", "-std=gnu11", "-w", "-fsyntax-only", "-DPFX=ref_", p], cwd=wd, timeout=60)
    return stt == 0


# ---- classification ----------------------------------------------------------------
def type_features(t):
    f = set()

    def go(t, depth, in_su):
        k = t[0]
        if k == 'bf':
            f.add('bitfield')
            if t[2] > 32:
                f.add('wide-bitfield')
        elif k == 'sc':
            kind = M.SC[t[1]][0]
            if kind == 'ptr':
                f.add('ptr')
            elif kind == 'flt':
                f.add('flt')
            elif kind == 'bool':
                f.add('bool')
            elif t[1] != 'int':
                f.add('nonint')
        elif k == 'arr':
            if t[2] is None:
                f.add('flexarr' if depth else 'unknown-bound')
            f.add('array')
            go(t[1], depth + 1, False)
        else:
            f.add('struct' if k == 'st' else 'union')
            for a in M.attrs(t):
                f.add({'packed': 'packed', 'al': 'alignas', 'ubf': 'unnamed-bitfield'}[a[0]])
            for n, mt in t[1]:
                if n is None:
                    f.add('anon-' + ('struct' if mt[0] == 'st' else 'union'))
                go(mt, depth + 1, True)
    go(t, 0, False)
    return f


DEVPRIO = ["array-length-differs", "unmentioned-member-nonzero", "wrong-value", "initialized-member-is-zero"]


def deviation(c, v):
    """Deviation class of a failing case from its V lines [(k, j, exp, got)]: which storage class is wrong and the
    highest-priority kind of wrong leaf."""
    ks = sorted(set(k for k, _, _, _ in v))
    where = "static+auto" if ks == [0, 1] else ("static" if ks == [0] else "auto")
    if c.static_only:
        where = "static"
    if c.auto_only:
        where = "auto"
    n = len(c.leaves)
    kinds = set()
    for k, j, e, g in v:
        if c.lenleaf is not None and j == n:
            kinds.add(DEVPRIO[0])
        elif g == 0:
            kinds.add(DEVPRIO[3])
        elif e == 0:
            kinds.add(DEVPRIO[1])
        else:
            kinds.add(DEVPRIO[2])
    return where + ":" + [x for x in DEVPRIO if x in kinds][0]


def outcomes(r, cases):
    """run_cases result -> {index: (kind, deviation)} for the failing cases."""
    failed = {}
    for i, stt, err in r["ccfail"]:
        failed[i] = ('ccfail', status_class(stt))
    for i in r["crash"]:
        failed[i] = ('crash', 'runtime')
    for i, v in r["viol"].items():
        if i not in failed:
            failed[i] = ('viol', deviation(cases[i], v))
    return failed


def features(t, flags):
    return frozenset(type_features(t) - {'nonint'}) | frozenset(flags)


def presig(c, dev):
    return "%s|%s|%s" % ("+".join(sorted(type_features(c.ty))), "+".join(sorted(c.flags)) or "plain", dev)


def final_sig(c, dev):
    tf = type_features(c.ty) - {'nonint'}
    return "C05|%s|%s|%s" % ("+".join(sorted(tf)) or "scalar", "+".join(sorted(c.flags)) or "plain", dev)


# ---- shrinking ----------------------------------------------------------------------
def type_reductions(t):
    """Smaller types, one step each (simplest first)."""
    k = t[0]
    if k == 'sc':
        if t[1] != 'int':
            yield ('sc', 'int')
        return
    if k == 'bf':
        yield ('sc', 'int')
        if (t[1], t[2]) != ('uint', 5):
            yield ('bf', 'uint', 5)
        if t[2] > 32 and (t[1], t[2]) != ('long', 64):
            yield ('bf', 'long', 64)
        return
    if k == 'arr':
        yield t[1]
        if t[2] is not None and t[2] > 1:
            yield ('arr', t[1], t[2] - 1)
        if t[2] is None:
            yield ('arr', t[1], 3)
        for e in type_reductions(t[1]):
            yield ('arr', e, t[2])
        return
    ms = t[1]
    at = M.attrs(t)

    def mk(ms2, drop=None, flat=False):
        """Same struct/union with other members; attribute indices follow a removed member; they are given up (packed
        is kept) when an anonymous member is flattened."""
        at2 = []
        for a in at:
            if a[0] == 'packed':
                at2.append(a)
            elif flat:
                continue
            elif drop is None:
                at2.append(a)
            elif a[0] == 'al' and a[1] == drop:
                continue
            else:
                at2.append((a[0], a[1] - 1) + a[2:] if a[1] > drop else a)
        return (k, ms2, tuple(sorted(at2))) if at2 else (k, ms2)
    for a in at:
        rest = tuple(x for x in at if x != a)
        yield (k, ms, rest) if rest else (k, ms)
        if a[0] == 'ubf' and (a[2], a[3]) != ('int', 3):
            yield (k, ms, tuple(sorted(rest + (('ubf', a[1], 'int', 3),))))
    for i, (n, mt) in enumerate(ms):
        if n is not None:
            yield mt if mt[0] in ('arr', 'st', 'un') else ('st', ((n, mt),))
    if len(ms) > 1:
        for i in range(len(ms)):
            yield mk(ms[:i] + ms[i + 1:], drop=i)
    for i, (n, mt) in enumerate(ms):
        if n is None:
            yield mk(ms[:i] + mt[1] + ms[i + 1:], flat=True) if mt[0] == k else mk(ms[:i] + (("z", mt),) + ms[i + 1:])
        for r in type_reductions(mt):
            if n is None and r[0] not in ('st', 'un'):
                continue
            yield mk(ms[:i] + ((n, r),) + ms[i + 1:])


def tree_reductions(x):
    if x[0] == 'x':
        return
    if x[0] == 'a':
        if x[1] != 'plain':
            yield ('a', 'plain')
        return
    if x[0] == 's':
        if x[4:]:
            yield x[:4]
        if x[2] > 1:
            yield ('s', x[1], x[2] - 1, x[3]) + x[4:]
        if x[3]:
            yield ('s', x[1], x[2], False) + x[4:]
        return
    items = x[1]
    if len(items) == 1 and items[0][0] is None:
        yield items[0][1]
    if len(items) > 1:
        for i in range(len(items)):
            yield ('l', items[:i] + items[i + 1:], x[2])
    for i, (d, s) in enumerate(items):
        if d:
            yield ('l', items[:i] + ((None, s),) + items[i + 1:], x[2])
            if len(d) > 1:
                yield ('l', items[:i] + ((d[:-1], s),) + items[i + 1:], x[2])
                yield ('l', items[:i] + ((d[1:], s),) + items[i + 1:], x[2])
            for j, comp in enumerate(d):
                if comp[0] == 'r':
                    yield ('l', items[:i] + ((d[:j] + (('i', comp[1]),) + d[j + 1:], s),) + items[i + 1:], x[2])
        for r in tree_reductions(s):
            yield ('l', items[:i] + ((d, r),) + items[i + 1:], x[2])


def size_of_case(t, tree):
    return len(repr(t)) + len(repr(tree))


def test_single(chibicc, wd, c):
    """-> ('viol', dev) | ('ccfail', status) | None"""
    r = run_cases(chibicc, wd, "s", [c])
    if r["ccfail"]:
        return ('ccfail', status_class(r["ccfail"][0][1]))
    if r["crash"]:
        return ('crash', 'runtime')
    if 0 in r["viol"]:
        return ('viol', deviation(c, r["viol"][0]))
    return None


def status_class(stt):
    if isinstance(stt, int) and stt < 0:
        import signal
        try:
            return "cc1-" + signal.Signals(-stt).name
        except ValueError:
            return "cc1-signal"
    if stt == "timeout":
        return "cc1-hang"
    if stt == "as":
        return "assembler-rejects-output"
    return "cc1-rejects"


def shrink(args):
    """Greedy, deterministic: in each round all one-step reductions of the current case are compiled in ONE batch; the
    smallest one that still fails the same way becomes the current case."""
    chibicc, wd, t, static_only, tree, tc, want = args
    os.makedirs(wd, exist_ok=True)
    cur = (t, tree, tc)
    rounds = 0
    while rounds < 40:
        rounds += 1
        cands = []
        if cur[2]:
            cands.append((cur[0], cur[1], False))
        for t2 in type_reductions(cur[0]):
            cands.append((t2, cur[1], cur[2]))
        for tr in tree_reductions(cur[1]):
            cands.append((cur[0], tr, cur[2]))
        cands = [x for x in cands if size_of_case(x[0], x[1]) < size_of_case(cur[0], cur[1]) or (cur[2] and not x[2])]
        cands.sort(key=lambda x: (size_of_case(x[0], x[1]), repr(x)))
        cs, keep = [], []
        seen = set()
        for x in cands:
            if x in seen:
                continue
            seen.add(x)
            try:
                c = make_case(x[0], has_flex(x[0]), x[1], x[2])
            except (M.Invalid, IndexError, KeyError, TypeError):
                continue
            if c.undefined:
                continue
            cs.append(c)
            keep.append(x)
        if not cs:
            break
        r = run_cases(chibicc, os.path.join(wd, "r%d" % rounds), "s", cs)
        out = outcomes(r, cs)
        bad = set(r["refrej"]) | set(r["dis"])
        nxt = None
        for i, x in enumerate(keep):
            if i not in bad and out.get(i) == want:
                nxt = x
                break
        if nxt is None:
            break
        cur = nxt
    return cur, rounds


def x_path(t, target, acc=""):
    """Accessor of the first subobject of type `target` inside t (for descriptions)."""
    if t == target:
        return acc
    if t[0] == 'arr':
        return x_path(t[1], target, acc + "[0]")
    if t[0] in ('st', 'un'):
        for n, mt in t[1]:
            r = x_path(mt, target, acc + ("." + n if n else ""))
            if r is not None:
                return r
    return None


def has_flex(t):
    if t[0] in ('st', 'un') and t[1]:
        last = t[1][-1][1]
        return last[0] == 'arr' and last[2] is None
    return False


# ---- worker ---------------------------------------------------------------------------
def work_types(args):
    """Enumerate and run every case of a group of types.  Returns a summary (picklable)."""
    chibicc, wd, gidx, group, deadline = args
    import time
    os.makedirs(wd, exist_ok=True)
    summ = {"cases": 0, "judged": 0, "nontrivial": set(), "undefined": 0, "refrej": 0, "dis": 0, "leaves": 0,
            "fails": [], "flagcount": {}, "incomplete": False, "samples": [], "invalid": 0, "dis_samples": [], "case_samples": [],
            "famcount": {}, "batchfails": []}
    batch = []
    bno = [0]

    def flush():
        if not batch:
            return
        r = run_cases(chibicc, os.path.join(wd, "b%d" % bno[0]), "b", [c for c, _ in batch])
        bno[0] += 1
        summ["refrej"] += len(r["refrej"])
        for i in r["refrej"][:3]:
            if len(summ["dis_samples"]) < 6:
                summ["dis_samples"].append(("gcc rejects", M.decl(batch[i][0].ty, "x"), batch[i][0].text))
        summ["dis"] += len(r["dis"])
        for i in list(r["dis"])[:2]:
            if len(summ["dis_samples"]) < 3:
                summ["dis_samples"].append((batch[i][0].text, M.decl(batch[i][0].ty, "x"), r["dis"][i][:3]))
        rej = set(r["refrej"]) | set(r["dis"])
        for idxs, stt, err in r["ccfail_batch"]:
            rej |= set(idxs)            # not judged one by one: reported together
            summ["batchfails"].append((status_class(stt), [(batch[i][0].ty, batch[i][0].static_only, batch[i][0].tree, batch[i][0].tc) for i in idxs],
                                       (err or "")[-300:]))
        failed = outcomes(r, [c for c, _ in batch])
        for i, (c, key) in enumerate(batch):
            if i in rej:
                continue
            summ["judged"] += 1
            if len(summ["case_samples"]) < 2 and len(c.leaves) > 2 and summ["judged"] % 97 == 5:
                summ["case_samples"].append({"declaration": M.decl(c.ty, "x"), "initializer": c.text, "flags": sorted(c.flags),
                                             "leaves": len(c.leaves), "static_only": c.static_only})
            summ["leaves"] += len(c.leaves) * len(case_vars(c))
            if len(c.flags - {'trailing-comma'}) > 0 or len(c.leaves) > 1:
                summ["nontrivial"].add(hashlib.sha1((repr(c.ty) + c.text).encode()).digest()[:8])
            if i in failed:
                summ["fails"].append((failed[i], c.ty, c.static_only, c.tree, c.tc, c.text, sorted(c.flags)))
        del batch[:]

    for t, so, bounds, fam, ptrb, kinds in group:
        if time.time() > deadline:
            summ["incomplete"] = True
            break
        for tree, tc in gen_cases_for(t, bounds, ptrb, kinds):
            try:
                c = make_case(t, so, tree, tc)
            except M.Invalid as e:
                summ["invalid"] += 1
                if len(summ["samples"]) < 3:
                    summ["samples"].append(("INVALID", str(e), M.decl(t, "x"), repr(tree)))
                continue
            summ["cases"] += 1
            if c.undefined:
                summ["undefined"] += 1
                continue
            for fl in c.flags:
                summ["flagcount"][fl] = summ["flagcount"].get(fl, 0) + 1
            summ["famcount"][fam] = summ["famcount"].get(fam, 0) + 1
            batch.append((c, None))
            if len(batch) >= BATCH:
                flush()
                if time.time() > deadline:
                    summ["incomplete"] = True
                    break
        if summ["incomplete"]:
            break
    flush()
    summ["nontrivial"] = len(summ["nontrivial"])
    return summ


def count_types(args):
    group = args
    n = 0
    for t, so, bounds, fam, ptrb, kinds in group:
        for _ in gen_cases_for(t, bounds, ptrb, kinds):
            n += 1
    return n


REPLAY_BATCH = r"""# compiles the unit (several valid cases, each of which compiles alone) with the chibicc under test
gcc -std=gnu11 -w -fsyntax-only -DPFX=ref_ unit.c || exit 0
$CHIBICC -cc1 -DPFX=cc_ -cc1-input unit.c -cc1-output cc.s unit.c || exit 1
as -o cc.o cc.s 2>/dev/null || exit 1
exit 0
"""


def plain_desc(text):
    """Description lines go through `echo` of /bin/sh in the tools (which interprets backslash sequences) and through
    grep in a C locale: keep them free of backslashes and non-ASCII characters.  The replay unit has the exact text."""
    if "\\" in text:
        text = text.replace("\\", "(bs)") + "  [(bs) = backslash]"
    return text.encode("ascii", "backslashreplace").decode().replace("\\", "(bs)")


REPLAY = r"""# rebuilds the single case with the chibicc under test and gcc, runs the dump driver
gcc -std=gnu11 -w -fsyntax-only -DPFX=ref_ unit.c || exit 0
$CHIBICC -cc1 -DPFX=cc_ -cc1-input unit.c -cc1-output cc.s unit.c || exit 1
as -o cc.o cc.s 2>/dev/null || exit 1
gcc -O0 -fwrapv -fno-strict-aliasing -w -std=gnu11 -fno-builtin -fno-pie -fcommon -DPFX=ref_ -c -o ref.o unit.c || exit 0
gcc -O1 -w -std=gnu11 -fno-pie -no-pie -o drv driver.c cc.o ref.o -Wl,-z,noexecstack || exit 0
./drv > out.txt; rc=$?
grep -q '^D ' out.txt && exit 0
grep -q '^V ' out.txt && exit 1
grep -q '^END' out.txt || exit 1
exit 0
"""


def run(ctx):
    import time
    uni = universe(ctx.tier)
    only = os.environ.get("C05_FAMILIES")        # debugging aid: run some families only (the vacuity guards will object)
    if only:
        uni = [u for u in uni if u[3] in only.split(",")]
    pk_off = set()
    for t, so, b, fam, ptrb, kinds in uni:
        if fam == "packed" and not so:
            pk_off |= set(o % 8 for o in packed_ptr_offsets(t))
    # vacuity guard of the floating family: the constants must be able to tell a conversion that goes through double
    # (or float) first from a direct one, for long double and for float leaves, and in both directions of the tie
    witness = {}
    for leaf, via in (('ldouble', 'double'), ('float', 'double'), ('double', 'float'), ('ldouble', 'float')):
        w = []
        for j, (txt, src, exact) in enumerate(M.NUM_ATOMS):
            if exact == 'negzero':
                continue
            v = M.num_atom(j)[1].frac
            try:
                if M.fbits(v, leaf) != M.fbits(M.fvalue(v, via), leaf):
                    w.append(txt)
            except M.Invalid:
                w.append(txt)
        witness["%s-leaf-via-%s" % (leaf, via)] = len(w)
        if len(w) < 3:
            raise core.HarnessError("vacuous: only %d arithmetic constants tell a %s leaf initialised through %s apart" % (len(w), leaf, via))
    # groups of types; deterministic, VERIF_SEED permutes only the order in which groups are scheduled
    groups = core.chunks(uni, 6 if ctx.tier == "quick" else 4)
    # groups of the third-pass families first (small; a deadline cut on an overloaded machine must not drop them)
    order = sorted(range(len(groups)), key=lambda g: 0 if groups[g][0][3] in ("bytes", "struct-expr", "union-bitfield") else 1)
    if ctx.seed:
        import random
        random.Random(ctx.seed).shuffle(order)
    reserve = 60 if ctx.tier == "quick" else 180
    deadline = ctx.deadline - reserve
    args = [(ctx.chibicc, os.path.join(ctx.work, "g%d" % g), g, groups[g], deadline) for g in order]
    # large groups first would need the counts; the pool balances dynamically instead
    t_enum = time.time()
    results = core.pmap(work_types, args)
    t_enum = time.time() - t_enum
    t_cls = time.time()
    tot = {"cases": 0, "judged": 0, "nontrivial": 0, "undefined": 0, "refrej": 0, "dis": 0, "leaves": 0, "invalid": 0}
    flagcount = {}
    famcount = {}
    fails = []
    incomplete = 0
    batchfails = []
    for s in results:
        batchfails += s["batchfails"]
        for k in tot:
            tot[k] += s[k]
        for k, v in s["flagcount"].items():
            flagcount[k] = flagcount.get(k, 0) + v
        for k, v in s["famcount"].items():
            famcount[k] = famcount.get(k, 0) + v
        fails += s["fails"]
        incomplete += 1 if s["incomplete"] else 0
        for x in s["samples"] + s["dis_samples"]:
            ctx.sample({"note": x}, limit=10)
        for x in s["case_samples"]:
            ctx.sample(x, limit=6)
    if tot["invalid"]:
        raise core.HarnessError("generator produced %d initializers the model calls invalid (see evidence samples)" % tot["invalid"])
    if incomplete:
        ctx.incomplete("deadline reached in %d of %d type groups" % (incomplete, len(groups)))

    # classify.  Failing cases are grouped by (kind, deviation); inside a group the smallest not yet explained case is
    # shrunk to a local minimum; its signature explains every case of the group whose feature set (type features +
    # initializer-form features) contains the minimum's feature set; repeat with what is left.
    fails.sort(key=lambda f: (size_of_case(f[1], f[3]), repr(f[1]), repr(f[3])))
    groups_ = {}
    for f in fails:
        groups_.setdefault(f[0], []).append(f)
    nclasses = 0
    pending = {k: list(v) for k, v in groups_.items()}
    # A failing case whose OWN feature signature already matches a known finding is counted under that finding without
    # being shrunk (its minimum would carry the same features or belong to a smaller failing case that is in the list
    # itself); only cases no finding accounts for are shrunk to a root-cause signature.
    known_cache = {}
    nprefiltered = 0
    for k in sorted(pending):
        keep = []
        for f in pending[k]:
            tf = type_features(f[1]) - {'nonint'}
            sg = "C05|%s|%s|%s" % ("+".join(sorted(tf)) or "scalar", "+".join(f[6]) or "plain", k[1])
            if sg not in known_cache:
                known_cache[sg] = any(core.fnmatch.fnmatchcase(sg, pat) for pat in ctx.findings)
            if known_cache[sg]:
                ctx.violation(sg, "", None, None)
                nprefiltered += 1
            else:
                keep.append(f)
        if keep:
            pending[k] = keep
        else:
            del pending[k]
    rnd = 0
    NREP = 6        # representatives shrunk per group and round: the smallest unexplained case, then the next ones whose
    #                 feature set contains none of the feature sets already chosen (a different root cause is likely)
    while pending and rnd < 40 and not ctx.out_of_time(reserve=20):
        rnd += 1
        jobs = []
        for k in sorted(pending):
            chosen = []
            for f in pending[k]:
                ff = features(f[1], f[6])
                if any(prev <= ff for prev in chosen):
                    continue
                chosen.append(ff)
                jobs.append((k, f))
                if len(chosen) >= NREP:
                    break
        reps = [(ctx.chibicc, os.path.join(ctx.work, "shr%d_%d" % (rnd, i)), f[1], f[2], f[3], f[4], k)
                for i, (k, f) in enumerate(jobs)]
        if os.environ.get("C05_DEBUG"):
            print("round %d: pending %s jobs %d" % (rnd, {k: len(v) for k, v in pending.items()}, len(jobs)))
        for (k, f0), (cur, nr) in zip(jobs, core.pmap(shrink, reps)):
            if k not in pending or not any(f is f0 for f in pending[k]):
                continue            # explained by a representative processed earlier in this round
            t2, tr2, tc2 = cur
            c = make_case(t2, has_flex(t2), tr2, tc2)
            fmin = features(c.ty, c.flags)
            expl = [f for f in pending[k] if fmin <= features(f[1], f[6])]
            if not any(f is f0 for f in expl):
                expl.append(f0)
            gone = set(id(f) for f in expl)
            pending[k] = [f for f in pending[k] if id(f) not in gone]
            if not pending[k]:
                del pending[k]
            kind, dev = k
            sig = final_sig(c, dev)
            nclasses += 1
            decl_s = "static %s = %s;" % (M.decl(c.ty, "s"), c.text)
            if c.auto_only:
                decl_s = "[automatic] %s = %s; with %s" % (M.decl(c.ty, "s"), c.text, ", ".join(
                    "%s = a variable of the type of s%s" % (x['text'], x_path(c.ty, x['ty'])) for x in c.xatoms))
            exp = ", ".join("s%s=%d" % (a or "", v) for a, _, v in c.leaves[:8])
            if kind == 'viol':
                desc = "%s -> %s (C11 6.7.9: %s); %d enumerated cases attributed, e.g. %s = %s" % (
                    decl_s, dev, exp, len(expl), M.decl(expl[-1][1], "s"), expl[-1][5][:100])
            else:
                desc = "valid declaration `%s` -> %s; %d enumerated cases attributed" % (decl_s, dev, len(expl))
            files = {"unit.c": single_unit(c), "driver.c": build_driver([c])}
            desc = plain_desc(desc)
            for _ in range(len(expl)):
                ctx.violation(sig, desc, files=files, replay=REPLAY)
    # cases left when the shrink rounds are used up keep their own (unshrunk) feature sets as signature
    for k in sorted(pending):
        for f in pending[k]:
            sig = "C05|unshrunk:%s|%s|%s:%s" % ("+".join(sorted(type_features(f[1]) - {'nonint'})), "+".join(f[6]) or "plain", k[0], k[1])
            if sig in ctx.violations or any(core.fnmatch.fnmatchcase(sig, pat) for pat in ctx.findings):
                ctx.violation(sig, "", None, None)
                continue
            c = make_case(f[1], f[2], f[3], f[4])
            ctx.violation(sig, plain_desc("failing case not shrunk (round limit): static %s = %s -> %s" % (M.decl(c.ty, "s"), c.text, k[1])),
                          files={"unit.c": single_unit(c), "driver.c": build_driver([c])}, replay=REPLAY)

    # sets of valid cases that chibicc compiles one by one but not as one unit
    nbf_flaky = 0
    for bi, (cls, group, err) in enumerate(sorted(batchfails, key=lambda b: (len(b[1]), repr(b[1])))):
        cs = [make_case(*g) for g in group]
        r = cc_compiles(ctx.chibicc, ctx.mkdir("bf%d" % bi), cs)
        if r == 0:
            nbf_flaky += 1          # does not fail again in a fresh directory: counted, not reported
            continue
        ctx.violation("C05|several-valid-cases-in-one-unit|plain|%s-only-in-combination" % status_class(r[0]),
                      plain_desc("chibicc compiles each of these %d declarations alone but not in one unit (%s): %s" % (
                          len(cs), (r[1] or "").strip()[-120:], "; ".join("static %s = %s" % (M.decl(c.ty, "s"), c.text) for c in cs[:4]))),
                      files={"unit.c": twin.PRELUDE + build_unit(cs)}, replay=REPLAY_BATCH)
    ctx.cover(batch_only_compile_failures=len(batchfails), batch_only_compile_failures_not_reproducible=nbf_flaky)

    import sys
    print("[C05] phases: enumerate+run %.1f s, classify+shrink %.1f s (%d rounds)" % (t_enum, time.time() - t_cls, rnd), file=sys.stderr)
    ctx.cover(shrink_rounds=rnd)
    ctx.cover(evaluations=tot["judged"], cases_generated=tot["cases"], types=len(uni), leaves_compared=tot["leaves"],
              distinct_nontrivial=tot["nontrivial"], skipped_undefined=tot["undefined"], ref_rejected=tot["refrej"],
              oracle_disagreements=tot["dis"], failing_cases=len(fails), failure_classes=nclasses,
              failing_cases_known_by_own_signature=nprefiltered,
              form_counts=flagcount, family_counts=famcount,
              packed_pointer_offsets_mod8=sorted(pk_off), address_constant_forms=sum(len(v) for v in M.PTR_ATOMS.values()),
              arithmetic_constants=len(M.NUM_ATOMS), constants_rounding_differently_through_double=witness,
              byte_pairs=len(M.BYTES1) * len(M.BYTES2), byte_alphabet_b1=list(M.BYTES1), byte_alphabet_b2=list(M.BYTES2),
              byte_forms=list(M.BYTE_FORMS) + ['brace list of integer constants', 'brace-elided integer constants (members)'],
              string_variants=list(M.STRVARS), floating_dump="bytewise: float 4, double 8, long double 10 bytes",
              stack_fill="every call of a case function is preceded by a fill of the 32 KiB below the caller's stack pointer; "
                         "each case runs once with fill byte 0xA5 and once with 0x5A (batch run and replay artefact alike)",
              rule="one case = (type, initializer spelling) compiled as a static and an automatic object and dumped leaf by "
                   "leaf; judged when gcc -O0 accepts it and agrees with the 6.7.9 model on every leaf; non-trivial = more "
                   "than one leaf or at least one of designator/elision/override/string/range/braced-scalar used; "
                   "distinct = distinct (type, initializer text)",
              bounds="tier %s: %d scalar types; depth-1 shapes (arrays [1][2][3][] of a scalar, structs of 1-3 scalar/bit-field "
                     "members, same with trailing flexible array, unions of 2, character arrays of 6 element types) x %s scalar "
                     "rotations with (atoms, designated items) <= %s; depth-2 shapes (arrays of depth-1 shapes, structs of 1-3 members "
                     "from {scalar, bit-field, T[2], char[3], struct, struct with bit-field, union, anonymous struct, anonymous union}, "
                     "unions of 2, flexible arrays of scalars/structs/arrays) with (atoms, designated items) <= %s; designator path "
                     "<= 3, <= 1 range and <= 1 braced scalar/braced string per case, trailing-comma variant of every spelling with "
                     "<= 1 atom, indices < 3 in designators of unknown-bound arrays.  Added families (evidence key family_counts): "
                     "packed = __attribute__((packed)) structs with a pointer member at every offset mod 8 (char[k] prefix, k=0..7; "
                     "two pointers in a row; after unaligned long/long double; arrays of packed structs of size 9/10/11; nested "
                     "in ordinary structs/unions) and packed structs of 3 scalars/bit-fields over the scalar rotation; alignas = "
                     "_Alignas(2..32) on members of ordinary, union and packed structs; in packed/alignas/addr families and for "
                     "scalar pointers one pointer atom per spelling takes EVERY address-constant form of models/c05_init.PTR_ATOMS "
                     "(&g, arr+i, &arr[i], &s.m, s.arr, &(&s)->m, &m[i][j], m[i]+j, *m+j, m[i], casts, string literal, "
                     "string literal+1, &string[2], function designators f, &f, *f, **f, &*f, cast), also at brace-elision "
                     "levels; addr = pointer arrays/members reached by elision (char *t[2][2], struct {char *n[2]; int k;}, ..) "
                     "and char[2][3] inside structs/arrays; unnamed-bitfield = structs/unions of 1-3 members with one unnamed "
                     "bit-field (:3, :0, unsigned char :5) at every position; wide-bitfield = bit-fields of width 33, 40, 64; "
                     "float = floating leaves dumped bytewise (4/8/10 bytes); one arithmetic atom per spelling (<= (2,0)/(1,1) "
                     "quick, (3,0)/(2,1) thorough; scalars: (1,0)) takes every constant of models/c05_init.NUM_ATOMS (0.1, 0.1f, "
                     "0.1L, 1.0L/3, casts, midpoints of float and double +- 2^-60..2^-63, exact ties, 2^24+1, 2^53+1, 2^64-1, "
                     "2^63-1 as floating and integer constants, -0.0, truncating values, subnormals, FLT_MAX) on every "
                     "arithmetic scalar type and on float/double/long double arrays, structs, unions, packed structs, arrays "
                     "of structs, flexible arrays, bit-fields; string = one string literal per spelling (same bounds) takes "
                     "every variant {NUL at first/middle/last position, at positions 0 and 1, escapes \\n \\377 \\x7f "
                     "\\\\ \\\" \\0 \\t + e-acute + euro sign + U+1F600, three variants} x {exact fit, exact with terminator, shorter; 3 and 5 for an unknown "
                     "bound} x {\"\", u8 (char types), u, U, L} for char/signed char/unsigned char/char16_t/char32_t/wchar_t "
                     "arrays of bound 4, 6, unknown (thorough also 2, 3, 5), plain, braced, designated, as members, 2-D rows, in "
                     "unions, as flexible array member.  Third pass: bytes = every pair (b1, b2) of byte_alphabet_b1 x "
                     "byte_alphabet_b2 as adjacent elements of char/signed char/unsigned char arrays (bound unknown, 4, 6; "
                     "members; thorough: rows, union, flexible, nested, packed), as one literal with 3-digit octal escapes, as "
                     "adjacent literals split after b1 with shortest octal / hex escapes, as brace list and brace-elided list of "
                     "integer constants; _Bool arrays over {0,1,2,255} x {0,1,'0',255}; struct-expr = expressions of "
                     "struct/union type (variables of the member's type) for a struct nested 1-3 levels deep as first or later "
                     "member, in arrays, array members and unions: every spelling with (atoms, designated items) <= (3,0)/(2,1) "
                     "quick, (4,0)/(3,1) thorough that contains such an expression, at every brace-elision level, automatic "
                     "storage only; union-bitfield = unions whose first or designated member is a bit-field (value only; "
                     "the other bits of the storage unit are unspecified)" % (
                         ctx.tier, len(LP), "2" if ctx.tier == "quick" else "9",
                         "(3,2)" if ctx.tier == "quick" else "(4,2) or (3,3)", "(2,1)" if ctx.tier == "quick" else "(2,2) or (3,1)"))
    if only:
        ctx.incomplete("C05_FAMILIES=%s: only these families were run (debugging)" % only)
        return
    if tot["judged"] == 0 or len(flagcount) < 6:
        raise core.HarnessError("vacuous: judged=%d forms=%s" % (tot["judged"], sorted(flagcount)))
    if not incomplete:
        need = ('byte-pair', 'string-oct3', 'string-cat-oct', 'string-cat-hex', 'b1:ctl', 'b1:nul', 'b2:odigit', 'b2:hexletter', 'b2:quote',
                'struct-expr', 'struct-expr-in-elided-struct', 'struct-expr-in-elided-array', 'string-nul', 'string-escape', 'num:float', 'num:double', 'num:ldouble', 'num:integer', 'to:float', 'to:double',
                'to:ldouble', 'to:integer')
        if any(not flagcount.get(k) for k in need):
            raise core.HarnessError("vacuous: forms %s never judged" % [k for k in need if not flagcount.get(k)])
    if pk_off != set(range(8)):
        raise core.HarnessError("vacuous: packed family has pointers at offsets mod 8 %s only" % sorted(pk_off))
    if not incomplete and (min(famcount.get(k, 0) for k in FAMILIES) == 0 or not flagcount.get('strlit-address')
                           or not flagcount.get('subarray-address')):
        raise core.HarnessError("vacuous: family counts %s, forms %s" % (famcount, sorted(flagcount)))
    if tot["dis"] + tot["refrej"] > 0.02 * tot["cases"]:
        raise core.HarnessError("model/gcc disagree or gcc rejects on %d+%d of %d cases: generator or model is wrong" %
                                (tot["dis"], tot["refrej"], tot["cases"]))
    ctx.assume("gcc 12 -O0 and the 6.7.9 model agree on every judged case (disagreements are skipped and counted)")
    ctx.assume("floating constants and conversions are correctly rounded, ties to even (Annex F / IEC 60559; what gcc and the "
               "x86-64 hardware do); C11 6.3.1.5 and 6.4.4.2 alone would also allow the other neighbour")
    ctx.assume("re-activating a union member after another member was initialized is treated as not defined by the property")
    ctx.assume("layout of int/char arrays and struct{int;int;int[2]} used as address-constant targets is the same for both compilers")
