struct S { int x[3]; int y; } s = {.x[0 ... 3] = 1};
