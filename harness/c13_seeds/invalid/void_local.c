int f(void) { void x; return 0; }
