// C17 level 1: explicit-state BFS over all reachable states of the real hashmap.c
// for a key universe built to collide.  Compiled in a scratch dir that holds a copy of
// the tree's hashmap.c and a "#pragma once" shim for chibicc.h.
//
// usage: c17_bfs <ncluster> <nnear> <nfill> <maxstates> <filler_mode> [maxlive [home]]
//   filler_mode 0: fillers follow a stack discipline, 1: any filler may be deleted/re-inserted
//   maxlive > 0: a put of an absent key is enabled only while fewer than maxlive keys are live (churn over many keys)
//   home >= 0: the cluster keys are homed at that bucket of a 16-bucket table (15 = wrap-around of the probe sequence)
// prints:  STATS ...   /  VIOL <kind> <history>   / SAMPLE <history>
#include "hashmap.c"
#include <setjmp.h>
#include <stddef.h>

static jmp_buf trap;
static const char *trap_kind;

char *format(char *fmt, ...) {
  char *buf = malloc(64);
  va_list ap;
  va_start(ap, fmt);
  vsnprintf(buf, 64, fmt, ap);
  va_end(ap);
  return buf;
}
void error(char *fmt, ...) { trap_kind = "unreachable/error"; longjmp(trap, 1); }
void __assert_fail(const char *a, const char *f, unsigned l, const char *fn) { trap_kind = "assert"; longjmp(trap, 1); }

#define MAXK 24
#define MAXCAP 64
static char *keys[MAXK];
static int nkeys, nmain, nfill;

typedef struct {
  short cap, used;
  signed char slot[MAXCAP];   // 0 empty, -1 tombstone(other), k+1 key k
  unsigned char sval[MAXCAP];
  unsigned char dict[MAXK];   // 0 absent else value
  int parent;
  short op;
  short depth;
} State;

static State *states;
static long nstates, capstates;
static int *htab; static long hsize;
static void *tomb_repr;

static unsigned long hash_state(State *s) {
  unsigned long h = 1469598103934665603UL;
  unsigned char *p = (unsigned char *)s;
  size_t n = offsetof(State, parent);
  for (size_t i = 0; i < n; i++) { h ^= p[i]; h *= 1099511628211UL; }
  return h;
}

static void load(State *s, HashMap *m) {
  m->capacity = s->cap; m->used = s->used;
  m->buckets = s->cap ? calloc(s->cap, sizeof(HashEntry)) : NULL;
  for (int i = 0; i < s->cap; i++) {
    if (s->slot[i] > 0) { m->buckets[i].key = keys[s->slot[i]-1]; m->buckets[i].keylen = strlen(keys[s->slot[i]-1]); m->buckets[i].val = (void *)(long)s->sval[i]; }
    else if (s->slot[i] < 0) { m->buckets[i].key = tomb_repr; }
  }
}

static int save(HashMap *m, State *s) {
  if (m->capacity > MAXCAP) return -1;
  s->cap = m->capacity; s->used = m->used;
  for (int i = 0; i < m->capacity; i++) {
    HashEntry *e = &m->buckets[i];
    s->slot[i] = 0; s->sval[i] = 0;
    if (!e->key) continue;
    int k;
    for (k = 0; k < nkeys; k++) if (e->key == keys[k]) break;
    if (k < nkeys) { s->slot[i] = k + 1; s->sval[i] = (unsigned char)(long)e->val; }
    else s->slot[i] = -1;
  }
  return 0;
}

static int home16(char *k) {
  HashMap m = {};
  hashmap_put(&m, k, (void *)1);
  for (int i = 0; i < m.capacity; i++) if (m.buckets[i].key) return i;
  return -1;
}

static void print_hist(long idx, int lastop) {
  int ops[4096], n = 0;
  if (lastop >= 0) ops[n++] = lastop;
  for (long i = idx; states[i].parent >= 0; i = states[i].parent) ops[n++] = states[i].op;
  for (int i = n - 1; i >= 0; i--) {
    int op = ops[i], k = op / 3, a = op % 3;
    if (a == 2) printf(" del(%s)", keys[k]); else printf(" put(%s,%d)", keys[k], a + 1);
  }
  printf("\n");
}

static long nviol;
static void viol(const char *kind, long idx, int op) {
  if (nviol++ < 20) { printf("VIOL %s |", kind); print_hist(idx, op); }
}

// invariant: every key reads back the reference value; each live key in exactly one bucket
static int check_state(HashMap *m, State *s, long idx, int op) {
  int cnt[MAXK] = {0};
  for (int i = 0; i < m->capacity; i++) {
    HashEntry *e = &m->buckets[i];
    for (int k = 0; k < nkeys; k++) if (e->key == keys[k]) cnt[k]++;
  }
  for (int k = 0; k < nkeys; k++) {
    long got = (long)hashmap_get(m, keys[k]);
    if (got != s->dict[k]) { viol(got ? (s->dict[k] ? "wrong-value" : "deleted-key-present") : "live-key-absent", idx, op); return 1; }
    if (cnt[k] > 1) { viol("duplicate-bucket", idx, op); return 1; }
  }
  return 0;
}

int main(int argc, char **argv) {
  int ncluster = atoi(argv[1]), nnear = atoi(argv[2]);
  nfill = atoi(argv[3]);
  long maxstates = atol(argv[4]);
  int filler_mode = atoi(argv[5]); // 0: stack discipline, 1: any filler may be deleted/reinserted
  int maxlive = argc > 6 ? atoi(argv[6]) : 0;
  int want_home = argc > 7 ? atoi(argv[7]) : -1;
  // learn what a deleted bucket looks like
  { HashMap m = {}; hashmap_put(&m, "t", (void *)1); hashmap_delete(&m, "t");
    for (int i = 0; i < m.capacity; i++) if (m.buckets[i].key) tomb_repr = m.buckets[i].key; }
  // key universe: cluster keys share a home slot (mod 16); near keys are homed at the next slots
  int h0 = -1;
  for (int base = 0; base < 16 && h0 < 0; base++) {
    int c = 0;
    if (want_home >= 0 && base != want_home) continue;
    for (int i = 0; i < 4000 && c < ncluster; i++) { char *k = format("k%d", i); if (home16(k) == base) c++; }
    if (c == ncluster) h0 = base;
  }
  for (int i = 0, c = 0; c < ncluster; i++) { char *k = format("k%d", i); if (home16(k) == h0) keys[nkeys++] = k, c++; }
  for (int d = 1; d <= nnear; d++)
    for (int i = 0;; i++) { char *k = format("n%d", i); if (home16(k) == (h0 + d) % 16) { keys[nkeys++] = k; break; } }
  nmain = nkeys;
  // filler j is homed at bucket (j mod 16) of a 16-bucket table, so that fillers cover every bucket
  for (int i = 0, c = 0; c < nfill; i++) { char *k = format("fill%d", i); if (home16(k) == (h0 + 3 + c) % 16) { keys[nkeys++] = k; c++; } }
  printf("KEYS home=%d", h0); for (int k = 0; k < nkeys; k++) printf(" %s", keys[k]); printf("\n");

  capstates = 1 << 16; states = malloc(capstates * sizeof(State));
  hsize = 1 << 20; htab = malloc(hsize * sizeof(int)); memset(htab, -1, hsize * sizeof(int));
  State init; memset(&init, 0, sizeof init); init.parent = -1; init.op = -1;
  states[nstates++] = init; htab[hash_state(&init) % hsize] = 0;

  long transitions = 0, rehashes = 0, tomb_reuse = 0, through_tomb = 0, traps = 0, maxdepth = 0, maxcap = 0;
  int capped = 0;
  for (long cur = 0; cur < nstates; cur++) {
    State s = states[cur];
    for (int k = 0; k < nkeys; k++) {
      for (int a = 0; a < 3; a++) {
        if (k >= nmain) {
          int f = k - nmain;
          if (a == 1) continue; // fillers always carry value 1
          if (filler_mode == 0) {
            int top = -1; for (int j = 0; j < nfill; j++) if (s.dict[nmain + j]) top = j;
            if (a == 0 && f != top + 1) continue;
            if (a == 2 && f != top) continue;
          } else if (a == 0 && s.dict[k]) continue;
        }
        if (a == 2 && !s.dict[k] && k >= nmain) continue;
        if (maxlive > 0 && a != 2 && !s.dict[k]) {
          int live = 0; for (int j = 0; j < nkeys; j++) live += s.dict[j] != 0;
          if (live >= maxlive) continue;
        }
        if (maxlive > 0 && a == 2 && !s.dict[k]) continue;
        int op = k * 3 + a;
        HashMap m; load(&s, &m);
        State t; memset(&t, 0, sizeof t);
        memcpy(t.dict, s.dict, sizeof t.dict);
        int ntomb_before = 0; for (int i = 0; i < s.cap; i++) ntomb_before += s.slot[i] < 0;
        transitions++;
        if (setjmp(trap)) { traps++; viol(trap_kind, cur, op); continue; }
        if (a == 2) { hashmap_delete(&m, keys[k]); t.dict[k] = 0; }
        else { hashmap_put(&m, keys[k], (void *)(long)(a + 1)); t.dict[k] = a + 1; }
        if (save(&m, &t) < 0) { capped = 1; free(m.buckets); continue; }
        { int nt = 0; for (int i = 0; i < t.cap; i++) nt += t.slot[i] < 0;
          if (a != 2 && s.cap && (t.cap != s.cap || (ntomb_before >= 2 && nt == 0))) rehashes++;
          if (a != 2 && t.cap == s.cap && nt < ntomb_before) tomb_reuse++;
          if (a != 2 && s.dict[k] && ntomb_before) through_tomb++; }
        t.parent = cur; t.op = op; t.depth = s.depth + 1;
        if (check_state(&m, &t, cur, op)) { free(m.buckets); continue; }
        free(m.buckets);
        if (t.cap > maxcap) maxcap = t.cap;
        unsigned long h = hash_state(&t) % hsize;
        int found = 0;
        while (htab[h] >= 0) { if (!memcmp(&states[htab[h]], &t, offsetof(State, parent))) { found = 1; break; } h = (h + 1) % hsize; }
        if (found) continue;
        if (nstates >= maxstates) { capped = 1; continue; }
        if (nstates == capstates) { capstates *= 2; states = realloc(states, capstates * sizeof(State)); }
        if (nstates * 2 > hsize) {
          hsize *= 4; free(htab); htab = malloc(hsize * sizeof(int)); memset(htab, -1, hsize * sizeof(int));
          for (long i = 0; i < nstates; i++) { unsigned long g = hash_state(&states[i]) % hsize; while (htab[g] >= 0) g = (g + 1) % hsize; htab[g] = i; }
          h = hash_state(&t) % hsize; while (htab[h] >= 0) h = (h + 1) % hsize;
        }
        states[nstates] = t; htab[h] = nstates; nstates++;
        if (t.depth > maxdepth) maxdepth = t.depth;
      }
    }
  }
  for (int i = 1; i <= 3 && nstates > i; i++) { printf("SAMPLE"); print_hist(nstates * i / 4, -1); }
  printf("STATS states=%ld transitions=%ld rehashes=%ld tomb_reuse=%ld put_existing_with_tombstones=%ld traps=%ld maxdepth=%ld maxcap=%ld capped=%d violations=%ld\n",
         nstates, transitions, rehashes, tomb_reuse, through_tomb, traps, maxdepth, maxcap, capped, nviol);
  return 0;
}
