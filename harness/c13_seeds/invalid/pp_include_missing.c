#include "c13_nonexistent.h"
