/* C20 unit prelude: compiled once by chibicc (PFX=cc_) and once by gcc -O0 (PFX=ref_).
 * Operands live in file-scope slots (argument passing is C06's business).  Slots [0],[1] are assignment targets,
 * slots [2],[3] are read-only operands (so divisors / shift counts never change); [0],[1],[4],[5] are the lvalue
 * objects of the composite nodes with pre-order index 0..3 (no object is modified twice in one expression).
 * Slots [6] (zero / null) and [7] (non-zero) are the condition operands of typed ?: expressions: `g?[6 + gc]`. */
typedef struct S { long a; int b; int c; } S;          /* 16 bytes: returned in rax:rdx */
typedef struct L { long a[3]; } L;                     /* 24 bytes: memory class, odd number of stack slots */
struct B { int x : 5; int y : 7; long z : 20; };
typedef struct E { long double v; } E;                /* 16 bytes, class X87: returned in %st0 */
#define gi FN(gi)
#define gl FN(gl)
#define gf FN(gf)
#define gd FN(gd)
#define ge FN(ge)
#define gp FN(gp)
#define gs FN(gs)
#define gL FN(gL)
#define gb FN(gb)
#define gc FN(gc)
#define gn FN(gn)
#define gna FN(gna)
#define ri FN(ri)
#define rl FN(rl)
#define rf FN(rf)
#define rd FN(rd)
#define re FN(re)
#define rp FN(rp)
#define rs FN(rs)
#define rL FN(rL)
#define fv FN(fv)
#define fi FN(fi)
#define fl FN(fl)
#define ff FN(ff)
#define fd FN(fd)
#define fe FN(fe)
#define fp FN(fp)
#define fS FN(fS)
#define fL FN(fL)
#define idi FN(idi)
#define idl FN(idl)
#define idf FN(idf)
#define idd FN(idd)
#define ide FN(ide)
#define idp FN(idp)
#define idS FN(idS)
#define idL FN(idL)
#define hi FN(hi)
#define hl FN(hl)
#define hf FN(hf)
#define hd FN(hd)
#define he FN(he)
#define hp FN(hp)
#define hS FN(hS)
#define hL FN(hL)
#define k2i FN(k2i)
#define k2l FN(k2l)
#define k2f FN(k2f)
#define k2d FN(k2d)
#define k2e FN(k2e)
#define k2p FN(k2p)
#define k2S FN(k2S)
#define k2L FN(k2L)
#define k7 FN(k7)
#define k8 FN(k8)
#define k9d FN(k9d)
#define k7e FN(k7e)
#define mi FN(mi)
#define ni FN(ni)
#define ml FN(ml)
#define nl FN(nl)
#define mf FN(mf)
#define nf FN(nf)
#define md FN(md)
#define nd FN(nd)
#define me FN(me)
#define ne FN(ne)
#define mp FN(mp)
#define np FN(np)
#define mS FN(mS)
#define nS FN(nS)
#define mL FN(mL)
#define nL FN(nL)
#define fc FN(fc)
#define fb FN(fb)
#define fs FN(fs)
#define fE FN(fE)
#define cvb FN(cvb)
#define crb FN(crb)
#define cvc FN(cvc)
#define crc FN(crc)
#define cvsc FN(cvsc)
#define crsc FN(crsc)
#define cvuc FN(cvuc)
#define cruc FN(cruc)
#define cvs FN(cvs)
#define crs FN(crs)
#define cvus FN(cvus)
#define crus FN(crus)
#define cvi FN(cvi)
#define cri FN(cri)
#define cvu FN(cvu)
#define cru FN(cru)
#define cvl FN(cvl)
#define crl FN(crl)
#define cvul FN(cvul)
#define crul FN(crul)
#define cvf FN(cvf)
#define crf FN(crf)
#define cvd FN(cvd)
#define crd FN(crd)
#define cve FN(cve)
#define cre FN(cre)
#define gv FN(gv)
int gi[8]; long gl[8]; float gf[8]; double gd[8]; long double ge[8]; int *gp[8]; S gs[8]; L gL[8]; struct B gb;
int gc, gn, gna;
/* conversion probes: operand VALUES (the class-boundary grids, filled by the driver for both twins) and result slots;
 * gv selects the grid value */
#define NV 48
_Bool cvb[NV]; char cvc[NV]; signed char cvsc[NV]; unsigned char cvuc[NV]; short cvs[NV]; unsigned short cvus[NV]; int cvi[NV];
unsigned cvu[NV]; long cvl[NV]; unsigned long cvul[NV]; float cvf[NV]; double cvd[NV]; long double cve[NV];
_Bool crb; char crc; signed char crsc; unsigned char cruc; short crs; unsigned short crus; int cri; unsigned cru; long crl;
unsigned long crul; float crf; double crd; long double cre;
int gv;
int ri; long rl; float rf; double rd; long double re; int *rp; S rs; L rL;
void vp_probe(void);
#ifdef __chibicc__
void *alloca(unsigned long);
#else
#define alloca __builtin_alloca
#endif
#define P vp_probe()

void FN(reset)(void) {
  gi[0] = 7; gi[1] = 5; gi[2] = 3; gi[3] = 2; gi[4] = 11; gi[5] = 13; gi[6] = 0; gi[7] = 19;
  gl[0] = 70; gl[1] = 50; gl[2] = 30; gl[3] = 2; gl[4] = 110; gl[5] = 130; gl[6] = 0; gl[7] = 9;
  gf[0] = 1.5f; gf[1] = 2.5f; gf[2] = 0.5f; gf[3] = 2.0f; gf[4] = 3.5f; gf[5] = 4.5f; gf[6] = 0; gf[7] = 1.25f;
  gd[0] = 1.5; gd[1] = 2.5; gd[2] = 0.5; gd[3] = 2.0; gd[4] = 3.5; gd[5] = 4.5; gd[6] = 0; gd[7] = 1.25;
  ge[0] = 1.5L; ge[1] = 2.5L; ge[2] = 0.5L; ge[3] = 2.0L; ge[4] = 3.5L; ge[5] = 4.5L; ge[6] = 0; ge[7] = 1.25L;
  gp[0] = &gi[1]; gp[1] = &gi[2]; gp[2] = &gi[2]; gp[3] = &gi[3]; gp[4] = &gi[4]; gp[5] = &gi[5]; gp[6] = 0; gp[7] = &gi[1];
  for (int j = 0; j < 8; j++) {
    gs[j].a = 10 + j; gs[j].b = 20 + j; gs[j].c = 30 + j;
    for (int m = 0; m < 3; m++) gL[j].a[m] = 100 + 10 * j + m;
  }
  gb.x = 1; gb.y = 20; gb.z = 3;
  gna = 0;
  crb = 0; crc = 0; crsc = 0; cruc = 0; crs = 0; crus = 0; cri = 0; cru = 0; crl = 0; crul = 0; crf = 0; crd = 0; cre = 0;
  ri = 0; rl = 0; rf = 0; rd = 0; re = 0; rp = gi; rs = gs[3]; rL = gL[3];
}
long FN(getbf)(int w) { return w == 0 ? gb.x : w == 1 ? gb.y : gb.z; }

/* callees: every return class, used or discarded by the cases */
void fv(void) {}
int fi(void) { return gi[3]; }
long fl(void) { return gl[3]; }
float ff(void) { return gf[3]; }
double fd(void) { return gd[3]; }
long double fe(void) { return ge[3]; }
int *fp(void) { return gp[3]; }
S fS(void) { return gs[3]; }
L fL(void) { return gL[3]; }
int idi(int x) { return x; }
long idl(long x) { return x; }
float idf(float x) { return x; }
double idd(double x) { return x; }
long double ide(long double x) { return x; }
int *idp(int *x) { return x; }
S idS(S x) { return x; }
L idL(L x) { return x; }
int hi(int x) { return x + 1; }
int hl(long x) { return x > 1; }
int hf(float x) { return x > 1; }
int hd(double x) { return x > 1; }
int he(long double x) { return x > 1; }
int hp(int *x) { return x == &gi[3]; }
int hS(S x) { return x.b; }
int hL(L x) { return x.a[1] > 1; }
int k2i(int a, int b) { return a - b; }
long k2l(long a, long b) { return a - b; }
float k2f(float a, float b) { return a - b; }
double k2d(double a, double b) { return a - b; }
long double k2e(long double a, long double b) { return a - b; }
int *k2p(int *a, int *b) { return a < b ? a : b; }
S k2S(S a, S b) { a.b -= b.c; return a; }
L k2L(L a, L b) { a.a[1] -= b.a[2]; return a; }
int k7(int a, int b, int c, int d, int e, int f, int g) { return a - g; }              /* 1 stack argument  */
int k8(int a, int b, int c, int d, int e, int f, int g, int h) { return g - h; }       /* 2 stack arguments */
double k9d(double a, double b, double c, double d, double e, double f, double g, double h, double i) { return a - i; }
long double k7e(int a, int b, int c, int d, int e, int f, int g, long double x) { return x - g; }
/* a long double argument before / after an argument of every type (the other argument is evaluated while the long double
 * one is already pushed); narrow and X87-class return types */
int mi(int a, long double b) { return hi(a) + (b > 1); }
int ml(long a, long double b) { return hl(a) + (b > 1); }
int mf(float a, long double b) { return hf(a) + (b > 1); }
int md(double a, long double b) { return hd(a) + (b > 1); }
int me(long double a, long double b) { return he(a) + (b > 1); }
int mp(int *a, long double b) { return hp(a) + (b > 1); }
int mS(S a, long double b) { return hS(a) + (b > 1); }
int mL(L a, long double b) { return hL(a) + (b > 1); }
int ni(long double b, int a) { return hi(a) - (b > 1); }
int nl(long double b, long a) { return hl(a) - (b > 1); }
int nf(long double b, float a) { return hf(a) - (b > 1); }
int nd(long double b, double a) { return hd(a) - (b > 1); }
int ne(long double b, long double a) { return he(a) - (b > 1); }
int np(long double b, int *a) { return hp(a) - (b > 1); }
int nS(long double b, S a) { return hS(a) - (b > 1); }
int nL(long double b, L a) { return hL(a) - (b > 1); }
char fc(void) { return gi[3] + 40; }
_Bool fb(void) { return gi[3]; }
short fs(void) { return gi[3] - 300; }
E fE(void) { E x; x.v = ge[3]; return x; }
