double a = 1.5;
float b = 2.f;
long double c = 3e2L;
double d = 0x1.8p1;
double e = .5e-3;
float f = 1e10f;
