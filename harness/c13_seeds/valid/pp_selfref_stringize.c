#define str(x) #x
#define xstr(x) str(x)
#define foo xstr(foo) str(fo ## o)
char *s = foo str(str(1));
