/* C06 driver (compiled by gcc).  The generated tables precede this text:
 *   VP_NSIG, VP_TY[] (size, value-byte mask, is_bool), VP_SG[] (signature rows), VP_CALL[][4] (caller entry points)
 * Link configurations (column of VP_CALL):
 *   0  chibicc caller -> gcc callee      1  gcc caller -> chibicc callee
 *   2  chibicc caller -> chibicc callee  3  gcc caller -> gcc callee (harness self-check, never a verdict on chibicc)
 * usage: drv [first-linear-index [count]]     linear index = sig*4 + cfg
 * output:  F sig cfg key=value...   (failed check)   C sig cfg signo (fatal signal / hang; process exits 77)
 *          S tests=N calls=N       (summary, only when the loop ran to its end)
 */
#include <stdio.h>
#include <string.h>
#include <stdlib.h>
#include <signal.h>
#include <unistd.h>

#define VP_RETK 30
/* VP_SLOT (bytes per argument / capture / return buffer) is defined by the generated tables; the generated unit declares
 * the buffers with the same number.  Types of more than 64 bytes have no padding (enforced by the generator): all their bytes
 * are compared and the mask is not used. */
unsigned char vp_arg[32][VP_SLOT] __attribute__((aligned(64)));
unsigned char vp_cap[32][VP_SLOT] __attribute__((aligned(64)));
unsigned char vp_retsrc[VP_SLOT] __attribute__((aligned(64)));
unsigned char vp_retdst[VP_SLOT] __attribute__((aligned(64)));
volatile int vp_ncall, vp_nid;
volatile long vp_one, vp_x[3], vp_sink;
volatile double vp_done, vp_dx[3], vp_dsink;
volatile long double vp_ldsrc;
volatile long vp_lconv;
extern unsigned long vp_t_rax, vp_t_retrax, vp_t_entrdi;
extern int vp_t_calls, vp_t_bad, vp_t_misaligned, vp_t_depth;

static int cur_sig, cur_cfg;

static unsigned char pat(int k, int i) {
  unsigned char v = 1 + (29 * k + 5 * i + 11 * (i >> 7)) % 126;      /* i >> 7: no period below the largest aggregate */
  if (i % 16 == 7) v |= 0x80;
  return v;
}

static void fatal(int signo) {
  char buf[64];
  int n = snprintf(buf, sizeof buf, "C %d %d %d\n", cur_sig, cur_cfg, signo);
  fflush(stdout);
  if (write(1, buf, n) < 0) _exit(78);
  _exit(77);
}

/* bytes of a slot that a test of type t may touch: 64 for the small types, the size + 64 for the large ones */
static int span(const struct vp_ty *t) { return t && t->size > 64 ? t->size + 64 : 64; }

static void fill(unsigned char *dst, int k, const struct vp_ty *t) {
  for (int i = 0, n = span(t); i < n; i++) dst[i] = pat(k, i);
  if (t && t->isbool) dst[0] &= 1;
}

/* first offset at which value bytes differ, or -1 */
static int diff(const unsigned char *got, int k, const struct vp_ty *t) {
  for (int i = 0; i < t->size; i++) {
    if (t->size <= 64 && !(t->mask >> i & 1)) continue;
    unsigned char w = pat(k, i);
    if (t->isbool) w &= 1;
    if (got[i] != w) return i;
  }
  return -1;
}

/* Dead stack below the driver is overwritten before every test, so that whatever a test reads from uninitialised
 * stack (padding of gcc temporaries, a va_arg that walks into the wrong area) is the same in a batch run, in the
 * isolated re-run and in the replay. */
static void __attribute__((noinline)) scrub(long extra) {
  volatile unsigned char pad[24576 + extra];        /* extra: room for the by-value copies of large aggregates */
  for (unsigned long i = 0; i < sizeof pad; i++) pad[i] = 0xC7;
}

int main(int argc, char **argv) {
  static char altstack[65536];
  stack_t ss = { .ss_sp = altstack, .ss_size = sizeof altstack, .ss_flags = 0 };
  sigaltstack(&ss, 0);
  struct sigaction sa;
  memset(&sa, 0, sizeof sa);
  sa.sa_handler = fatal;
  sa.sa_flags = SA_ONSTACK | SA_NODEFER;
  int sigs[] = { SIGSEGV, SIGBUS, SIGILL, SIGFPE, SIGALRM, SIGABRT, SIGTRAP, SIGSYS };
  for (unsigned i = 0; i < sizeof sigs / sizeof *sigs; i++) sigaction(sigs[i], &sa, 0);
  static char obuf[1 << 16];
  setvbuf(stdout, obuf, _IOFBF, sizeof obuf);

  long first = argc > 1 ? atol(argv[1]) : 0;
  long count = argc > 2 ? atol(argv[2]) : (long)VP_NSIG * 4;
  long tests = 0, calls = 0;
  for (long lin = first; lin < (long)VP_NSIG * 4 && lin < first + count; lin++) {
    int n = lin / 4, cfg = lin % 4;
    const struct vp_sg *g = &VP_SG[n];
    cur_sig = n; cur_cfg = cfg;
    for (int k = 0; k < g->nargs; k++) fill(vp_arg[k], k, &VP_TY[g->arg[k]]);
    for (int k = 0; k < 32; k++) memset(vp_cap[k], 0xEE, k < g->nargs ? span(&VP_TY[g->arg[k]]) : 64);
    fill(vp_retsrc, VP_RETK, g->ret >= 0 ? &VP_TY[g->ret] : 0);
    memset(vp_retdst, 0xEE, span(g->ret >= 0 ? &VP_TY[g->ret] : 0));
    vp_ncall = vp_nid = 0;
    vp_one = 1; vp_x[0] = 10; vp_x[1] = 100; vp_x[2] = 1000; vp_sink = 0;
    vp_done = 1.0; vp_dx[0] = 0.5; vp_dx[1] = 0.25; vp_dx[2] = 0.125; vp_dsink = 0;
    vp_ldsrc = 2.75L; vp_lconv = 2;
    vp_t_calls = vp_t_bad = vp_t_misaligned = vp_t_depth = 0;
    vp_t_rax = 0;
    alarm(20);
    scrub(g->scrub);
    VP_CALL[n][cfg]();
    alarm(0);
    tests++; calls += vp_t_calls;

    char line[512]; int len = 0;
    #define ADD(...) len += snprintf(line + len, sizeof line - len, __VA_ARGS__)
    if (vp_ncall != 1) ADD(" ncall=%d", vp_ncall);
    if (vp_nid != g->nid) ADD(" nid=%d", vp_nid);
    if (vp_t_calls != 2 + g->nid) ADD(" tcalls=%d", vp_t_calls);
    if (vp_t_bad) ADD(" bad=0x%x", vp_t_bad);
    for (int k = 0; k < g->nargs; k++) {
      int d = diff(vp_cap[k], k, &VP_TY[g->arg[k]]);
      if (d >= 0) { ADD(" arg=%d@%d:got=%02x,want=%02x", k, d, vp_cap[k][d], pat(k, d) & (VP_TY[g->arg[k]].isbool ? 1 : 255)); break; }
    }
    if (g->ret >= 0) {
      int d = diff(vp_retdst, VP_RETK, &VP_TY[g->ret]);
      if (d >= 0) ADD(" ret=@%d:got=%02x,want=%02x", d, vp_retdst[d], pat(VP_RETK, d) & (VP_TY[g->ret].isbool ? 1 : 255));
    }
    if (g->variadic) {
      int al = vp_t_rax & 255;
      if (cfg == 1 || cfg == 3) { if (al != g->nvec) printf("O %d %d al=%d model=%d\n", n, cfg, al, g->nvec); }
      else if (al < g->nvec || al > 8) ADD(" al=%d,vec=%d", al, g->nvec);
    }
    if (g->retmem && vp_t_retrax != vp_t_entrdi) {
      if (cfg == 0 || cfg == 3) printf("O %d %d gcc callee: rax != hidden pointer\n", n, cfg);
      else ADD(" raxptr=%s", "lost");
    }
    if (vp_lconv != 2) ADD(" lconv=%ld", vp_lconv);
    if (vp_sink != g->sink) ADD(" sink=%ld", vp_sink);
    if (vp_dsink != g->dsink) ADD(" dsink=%g", vp_dsink);
    if (len) printf("F %d %d%s\n", n, cfg, line);
  }
  printf("S tests=%ld calls=%ld\n", tests, calls);
  return 0;
}
