"""C02 floating point: bit-exact arithmetic, comparison, negation, truth value, conversions, constants.

E2 twin check (floating counterpart of C01).  Every case is one tiny function over typed file-scope operand slots that
stores its result into a typed file-scope result slot; it is compiled by the chibicc under test and by gcc -O0
(reference: SSE for float/double, x87 for long double, FLT_EVAL_METHOD 0) and evaluated by a gcc-compiled driver on a
value grid that contains every class boundary of the three floating formats and of the nine integer types.  Results
are compared (a) with the gcc twin and (b) with the binary128 soft-float model in harness/c02_model.h; a tuple is
judged only when model and gcc agree (model/gcc disagreement = harness error) and the model says the result is
defined.  Bits are compared exactly, NaNs as a class; long double compares its 10 value bytes.  The type of every
expression (_Generic) and its sizeof are compared as compile-time tables.  Floating constants are compared by object
bytes with gcc and with an exact-rational (Python fractions) round-to-nearest-even model.

Dimensions added in round 3 (same grids, same model, same two-oracle rule):
 D  translation-time evaluation.  Every binary operator (+ - * / < <= > >= == != && ||) x type pairs, unary - ! +, six
    truth-value forms, all 63 conversions with a floating side (explicit cast and implicit conversion by initialization),
    ?: with integer and floating conditions, and the compositions (a o1 b) o2 c, -(a o b), !(a cmp b), (T)(a o b), with
    *constant* operands: one constant expression per operand tuple of the grid, operands spelled as hexadecimal constants
    under unary minus / casts of integer constants, NaN as 0.0/0.0 or inf-inf, infinity as 1.0/0.0 or MAX*2, -0 as -0.0
    or 0.0*-1.0.  Contexts: element of a static array initializer (all of the above); for 0/1-valued expressions and
    floating->integer casts also the condition of ?: in a static initializer, the bound of a file-scope array typedef, an
    enumerator value and a case label.  The compiled function only selects the element of the table by the operand
    indices the driver sets, so the value observed is the one the compiler computed.  Bounds: grids small (27-28
    floating values / <=24 integer values per operand) for two operands, full for one operand, tiny (7; thorough 14)
    for three operands and for the non-static contexts; quick: type pairs over {int, unsigned long, float, double,
    long double}, thorough: all 63 pairs.  Tuples with an out-of-range floating->integer conversion are not written.
 E  operand expressions.  integer -> floating conversion (cast, initialization, usual arithmetic conversions with the
    expression as left and as right operand of + - < <=; thorough: also argument, return, op=, > >=) of an *unstored
    intermediate value* of each of the 9 integer types: (S)long, (S)unsigned long, (S)int, (S)double, (S)long double,
    -x, ~x, x op y for + - * / & | ^, a call result (argument of type S and of type long), ?:, comma, the value of an
    assignment, (S)constant and -(S)constant for the int constants -1, -7, INT_MIN; x 3 floating targets; operand grids
    full (one operand) / small (two) with the widths 2^7..2^64 and their neighbours, other floating operand tiny.
 L  repetition.  12 evaluations (> 8 x87 registers) of a discarded floating expression (12 forms: a+b, load, -a, (T)i,
    call, ?:, comma, =, +=, ++ (post, pre), literal) in 11 places (for-increment alone and after a comma, for-init,
    for/while/do condition before a comma, expression statement, (void) cast, left of comma, if condition, left of &&)
    x 3 types followed by an observed a*b; and each of + - * / and the six comparisons evaluated 12 times in a loop.
    The driver also compares the x87 tag word and top-of-stack before/after every case function of every layer
    (deviation class x87-register-stack-not-restored).
 B2 read-modify-write on other lvalue forms: ++ -- (pre, post) and + - * / = on _Atomic objects (file scope and block
    scope; float, double, for ++/-- also _Bool; op= with the left type in {_Bool, int, unsigned long, float, double},
    thorough every type but long double), through a pointer, on a struct member and on an array element.
A driver that does not survive a batch (state damaged outside the guarded call) is re-run case by case in fresh processes;
a case whose process dies alone is reported as process-damaged.
"""
import os, re, itertools, json
from concurrent.futures import ProcessPoolExecutor, as_completed
from fractions import Fraction as Fr
from vlib import core, twin

LEVEL = "exploration"
BUDGET = {"quick": 900, "thorough": 3000}

TYPES = ["_Bool", "char", "short", "int", "long", "unsigned char", "unsigned short", "unsigned int", "unsigned long",
         "float", "double", "long double"]
TN = ["bool", "char", "short", "int", "long", "uchar", "ushort", "uint", "ulong", "float", "double", "ldouble"]
SIZE = [1, 1, 2, 4, 8, 1, 2, 4, 8, 4, 8, 16]
UNS = [1, 0, 0, 0, 0, 1, 1, 1, 1, 0, 0, 0]
NT = 12
FP = (9, 10, 11)
INT, LONG, UINT, ULONG, FLOAT, DOUBLE, LDOUBLE = 3, 4, 7, 8, 9, 10, 11
FMT = {9: (24, -126, 127), 10: (53, -1022, 1023), 11: (64, -16382, 16383)}      # precision, emin, emax
ARITH = [("+", "O_ADD"), ("-", "O_SUB"), ("*", "O_MUL"), ("/", "O_DIV")]
CMP = [("<", "O_LT"), ("<=", "O_LE"), (">", "O_GT"), (">=", "O_GE"), ("==", "O_EQ"), ("!=", "O_NE")]
LOGIC = [("&&", "O_LAND"), ("||", "O_LOR")]
BINOPS = ARITH + CMP + LOGIC
UNOPS = [("-", "O_NEG"), ("!", "O_LNOT"), ("+", "O_POS")]
# integer-only operators: used only to build integer operand *expressions* (layer E), never judged on their own
BITOPS = [("&", "O_BAND"), ("|", "O_BOR"), ("^", "O_BXOR")]
BNOT = ("~", "O_BNOT")
GENERIC = ("_Bool:0, char:1, short:2, int:3, long:4, unsigned char:5, unsigned short:6, unsigned int:7, unsigned long:8, "
           "float:9, double:10, long double:11, default:99")


OPN = {"O_ADD": "add", "O_SUB": "sub", "O_MUL": "mul", "O_DIV": "div", "O_LT": "lt", "O_LE": "le", "O_GT": "gt", "O_GE": "ge", "O_EQ": "eq", "O_NE": "ne",
       "O_LAND": "and-and", "O_LOR": "or-or", "O_NEG": "neg", "O_LNOT": "not", "O_POS": "pos",
       "O_BNOT": "bitnot", "O_BAND": "bitand", "O_BOR": "bitor", "O_BXOR": "bitxor"}
def opn(op): return OPN[op[1]]       # operator names in case ids: no '/', '|', '*' (ids are split on '/', signatures on '|', matched with fnmatch)
def is_fp(t): return t >= 9
def promote(t): return t if is_fp(t) else (INT if SIZE[t] < 4 else t)
def common(a, b):
    if is_fp(a) or is_fp(b):
        return max(x for x in (a, b) if is_fp(x))
    a, b = promote(a), promote(b)
    if a == b: return a
    if SIZE[a] != SIZE[b]: return a if SIZE[a] > SIZE[b] else b
    return a if UNS[a] else b


# ---- exact arithmetic on the three formats (used for grids and for the constant model) -----------------------------
def ilog2(x):
    """floor(log2(x)) for a positive Fraction."""
    e = x.numerator.bit_length() - x.denominator.bit_length()
    if Fr(2) ** e > x: e -= 1
    if Fr(2) ** (e + 1) <= x: e += 1
    return e

def p2(k): return Fr(2) ** k
def fmax(t): p, emin, emax = FMT[t]; return (2 - p2(1 - p)) * p2(emax)
def minsub(t): p, emin, emax = FMT[t]; return p2(emin - p + 1)
def minnorm(t): return p2(FMT[t][1])
def ulp(x, t):
    """Spacing of format t in the binade of |x| (x != 0)."""
    p, emin, emax = FMT[t]
    return p2(max(ilog2(abs(x)), emin) - p + 1)

def rne(x, t):
    """Round the rational x to format t, to nearest, ties to even.  Returns a Fraction, 'inf' or '-inf'."""
    if x == 0: return Fr(0)
    q = ulp(x, t)
    n = x / q
    fl = n.numerator // n.denominator
    rem = n - fl
    if rem > Fr(1, 2) or (rem == Fr(1, 2) and fl % 2 == 1): fl += 1
    r = fl * q
    if abs(r) > fmax(t): return "inf" if x > 0 else "-inf"
    return r

def is_rep(x, t): return rne(x, t) == x

def ld_lit(v):
    """Exact C literal (long double, gcc side only) for a grid value."""
    if v == "nan": return '__builtin_nanl("")'
    if v == "-nan": return '(-__builtin_nanl(""))'
    if v == "inf": return "__builtin_infl()"
    if v == "-inf": return "(-__builtin_infl())"
    if v == "-0": return "(-0x0p+0L)"
    n, d = v.numerator, v.denominator
    k = d.bit_length() - 1
    assert d == 1 << k
    return "(%s0x%xp%dL)" % ("-" if n < 0 else "", abs(n), -k)


def fp_grid(t, kind):
    p, emin, emax = FMT[t]
    out = []
    def add(x, neg=True):
        if isinstance(x, str):
            if x not in out: out.append(x)
            return
        x = Fr(x)
        if x != 0 and not is_rep(x, t): return
        for y in ((x, -x) if neg and x != 0 else (x,)):
            if y not in out: out.append(y)
    mx, ms, mn = fmax(t), minsub(t), minnorm(t)
    if kind in ("tiny", "tiny2"):
        for x in ("-0", Fr(3, 2), -3, rne(Fr(1, 10), t), "nan", p2(63), "inf"): add(x, neg=False)
        if kind == "tiny2":
            for x in (0, 1, ms, -mx, "-inf", p2(24) + 2, -p2(31) - 256): add(x, neg=False)
        return out
    if kind == "small":
        for x in (0, "-0", "inf", "-inf", "nan"): add(x)
        for x in (1, Fr(3, 2), Fr(5, 2), rne(Fr(1, 10), t), rne(Fr(1, 3), t), 200, 40000, p2(24) - 1, p2(24) + 2, p2(31), p2(31) + 128, p2(32) - 256,
                  p2(63), p2(63) + p2(40), p2(64), mx, ms, mn):
            add(x, neg=x in (1, Fr(5, 2), p2(31), mx, ms))
        return out
    for x in (0, "-0", "inf", "-inf", "nan", "-nan"): add(x)
    for x in (ms, 2 * ms, mn - ms, mn, mn + ms, 1, Fr(3, 2), 2, Fr(5, 2), 3, Fr(7, 2), Fr(1, 2), Fr(3, 4), Fr(1, 4), 1 - ulp(Fr(1, 2), t), 1 + ulp(1, t),
              rne(Fr(1, 10), t), rne(Fr(1, 3), t), rne(Fr(2, 3), t), 10, 100, 1000, 12345, 200, 40000, 3000000000, mx, mx - ulp(mx, t), mx / 2, p2(emax)):
        add(x)
    for k in (7, 8, 15, 16, 23, 24, 31, 32, 52, 53, 62, 63, 64):
        b = p2(k)
        for x in (b, b + ulp(b, t), b - ulp(b / 2, t), b - 1, b + 1, b - Fr(1, 2), b + Fr(1, 2), b + 2):
            add(x)
    for x in (p2(63) + 2048, p2(64) - 1, p2(64) - 2048, p2(63) + p2(40), p2(63) + p2(39), p2(64) - p2(40), p2(65), p2(100), Fr(255, 2) + 128, Fr(65535, 2) + 32768):
        add(x)
    # sources whose narrowing to a smaller format sits on / next to a rounding boundary (incl. double rounding via the middle format)
    for u in FP:
        if u >= t: continue
        pu = FMT[u][0]
        eps = ulp(1, t)
        for a in (Fr(1), p2(23), p2(-10) * 3):
            h = ulp(a, u) / 2
            for x in (a + h, a + h + ulp(a, t), a + h - ulp(a, t), a + 3 * h, a + 3 * h - ulp(a, t), a + 3 * h + ulp(a, t)):
                add(x)
        hm = ulp(fmax(u), u) / 2
        for x in (fmax(u) + hm, fmax(u) + hm - ulp(fmax(u), t), fmax(u) + ulp(fmax(u), t), minsub(u) / 2, minsub(u) / 2 + ulp(minsub(u) / 2, t),
                  minsub(u) * 3 / 2, minnorm(u) - minsub(u) / 2, minsub(u) / 4, minsub(u) * 5 / 2 + ulp(minsub(u), t)):
            add(x)
    if t == LDOUBLE:
        for x in (1 + p2(-24) + p2(-63), 1 + p2(-24) + p2(-53), 1 + 3 * p2(-24) - p2(-63), p2(63) + p2(39) + 1, p2(63) + 1025, p2(63) + 1024):
            add(x)
    return out


def int_grid(t, kind):
    lo = 0 if UNS[t] else -(1 << (SIZE[t] * 8 - 1))
    hi = 1 if t == 0 else ((1 << (SIZE[t] * 8)) - 1 if UNS[t] else (1 << (SIZE[t] * 8 - 1)) - 1)
    if kind in ("tiny", "tiny2"):
        base = [0, 1, -3, 16777217, (1 << 63) + (1 << 39) + 1, lo, hi]
        if kind == "tiny2":
            base += [-1, 2, 255, 1 << 31, (1 << 53) + 1, -(1 << 53) - 1, (1 << 63) - 513]
    elif kind == "small":
        base = [0, 1, -1, 2, 3, 100, 127, 128, 255, 32768, 65535, 16777217, 2147483647, 2147483648, 4294967295, (1 << 53) + 1, (1 << 63) - 1, 1 << 63,
                (1 << 63) + (1 << 39) + 1, (1 << 63) + 1025, lo, hi, lo + 1, hi - 1]
    else:
        if SIZE[t] == 1:
            return list(range(lo, hi + 1))
        base = list(range(-4, 5)) + [10, 100, -100, 1000, 46341, 123456789, -123456789, 0x5555555555555555, 0xAAAAAAAAAAAAAAAA, 0x5555555555555555 - (1 << 63)]
        for q in (7, 8, 15, 16, 23, 24, 25, 31, 32, 52, 53, 54, 62, 63, 64):
            for d in (-3, -2, -1, 0, 1, 2, 3):
                base += [(1 << q) + d, -(1 << q) + d]
        for b, h in ((1 << 25, 2), (1 << 54, 2), (1 << 62, 1 << 38), (1 << 62, 512), (1 << 63, 1 << 39), (1 << 63, 1024), (1 << 31, 128), (1 << 32, 256)):
            # h = half an ulp of float resp. double at b: ties and their neighbours, for b and for the binade below 2b
            for x in (b + h, b + h + 1, b + h - 1, b + 3 * h, b + 3 * h + 1, b + 3 * h - 1, 2 * b - h, 2 * b - h - 1, 2 * b - h + 1, 2 * b - 2 * h, 2 * b - 3 * h):
                base += [x, -x]
        base += [lo, lo + 1, lo + 2, hi, hi - 1, hi - 2]
    return sorted(set(v for v in base if lo <= v <= hi))


def grid_values(t, kind):
    return fp_grid(t, kind) if is_fp(t) else int_grid(t, kind)


def int_lit(v):
    if v == -(1 << 63): return "(-9223372036854775807L-1)"
    if v >= (1 << 63): return "(long)%dUL" % v
    return "%dL" % v


# ---- expression trees ----------------------------------------------------------------------------------------------
def slot(i, t): return ("slot", i, t)

def ptype(n):
    k = n[0]
    if k == "slot": return n[2]
    if k == "bin": return common(ptype(n[2]), ptype(n[3])) if n[1] in ARITH or n[1] in BITOPS else INT
    if k == "un": return INT if n[1][0] == "!" else promote(ptype(n[2]))
    if k in ("cast", "ctx", "call"): return n[1]
    if k == "assign": return ptype(n[1])
    if k == "ilit": return INT
    if k == "cond": return common(ptype(n[2]), ptype(n[3]))
    if k == "comma": return ptype(n[2])
    if k == "assignop": return ptype(n[2])
    if k == "incdec": return ptype(n[2])
    if k == "truth": return INT
    if k == "raw": return n[2]
    raise ValueError(k)

def text(n, env=None):
    """C text of a tree; env (folded cases) maps slot numbers to the spelling of the operand."""
    k = n[0]
    if k == "slot": return env[n[1]] if env else "FN(S%d_%s)" % (n[1], TN[n[2]])
    if env: return _text_env(n, env)
    if k == "ctx": return text(n[2])                       # conversion done by the context, nothing to write
    if k == "call": return "FN(arg_%s)(%s)" % (TN[n[1]], text(n[2]))
    if k == "assign": return "(%s = %s)" % (text(n[1]), text(n[2]))
    if k == "ilit": return "(-2147483647-1)" if n[1] == -(1 << 31) else "(%d)" % n[1]
    if k == "bin": return "(%s %s %s)" % (text(n[2]), n[1][0], text(n[3]))
    if k == "un": return "(%s %s)" % (n[1][0], text(n[2]))
    if k == "cast": return "((%s)%s)" % (TYPES[n[1]], text(n[2]))
    if k == "cond": return "(%s ? %s : %s)" % (text(n[1]), text(n[2]), text(n[3]))
    if k == "comma": return "(%s , %s)" % (text(n[1]), text(n[2]))
    if k == "assignop": return "(%s %s= %s)" % (text(n[2]), n[1][0], text(n[3]))
    if k == "incdec":
        return {"O_PREINC": "(++%s)", "O_PREDEC": "(--%s)", "O_POSTINC": "(%s++)", "O_POSTDEC": "(%s--)"}[n[1]] % text(n[2])
    if k == "raw": return n[1]
    raise ValueError(k)

def _text_env(n, env):
    k = n[0]
    T = lambda x: text(x, env)
    if k == "ctx": return T(n[2])
    if k == "bin": return "(%s %s %s)" % (T(n[2]), n[1][0], T(n[3]))
    if k == "un": return "(%s %s)" % (n[1][0], T(n[2]))
    if k == "cast": return "((%s)%s)" % (TYPES[n[1]], T(n[2]))
    if k == "cond": return "(%s ? %s : %s)" % (T(n[1]), T(n[2]), T(n[3]))
    if k == "comma": return "(%s , %s)" % (T(n[1]), T(n[2]))
    raise ValueError(k)

def emit_model(n, out):
    k = n[0]
    def node(kk, a=0, b=0, l=-1, r=-1, c=-1):
        out.append("{%s,%s,%s,%d,%d,%d}" % (kk, a, b, l, r, c))
        return len(out) - 1
    if k == "slot": return node("K_SLOT", n[1], n[2])
    if k == "bin":
        l = emit_model(n[2], out); r = emit_model(n[3], out); return node("K_BIN", n[1][1], 0, l, r)
    if k == "un":
        l = emit_model(n[2], out); return node("K_UN", n[1][1], 0, l)
    if k in ("cast", "ctx", "call"):
        l = emit_model(n[2], out); return node("K_CAST", n[1], 0, l)
    if k == "assign":                                         # value of an assignment expression: the right side converted to the type of the left
        l = emit_model(n[2], out); return node("K_CAST", ptype(n[1]), 0, l)
    if k == "ilit": return node("K_ILIT", n[1])
    if k == "truth":
        l = emit_model(n[1], out); return node("K_TRUTH", 0, 0, l)
    if k == "cond":
        c = emit_model(n[1], out); l = emit_model(n[2], out); r = emit_model(n[3], out); return node("K_COND", 0, 0, l, r, c)
    if k == "comma":
        l = emit_model(n[1], out); r = emit_model(n[2], out); return node("K_COMMA", 0, 0, l, r)
    if k == "assignop":
        l = emit_model(n[2], out); r = emit_model(n[3], out); return node("K_ASSIGNOP", n[1][1], 0, l, r)
    if k == "incdec":
        l = emit_model(n[2], out); return node("K_INCDEC", n[1], 0, l)
    raise ValueError(k)


def model_ok(n, intops=False):
    """Layers A-C: an operator node is kept only if it involves a floating operand (integer-only operators are C01's).
    Layers E, I (intops): integer-only + - * / & | ^ and unary - ~ are modelled too, as producers of operand expressions."""
    k = n[0]
    if k in ("slot", "raw", "ilit"): return True
    kids = [x for x in n[1:] if isinstance(x, tuple) and x and x[0] in ("slot", "bin", "un", "cast", "ctx", "cond", "comma", "assignop", "incdec", "truth", "raw",
                                                                        "call", "assign", "ilit")]
    if not all(model_ok(x, intops) for x in kids): return False
    if intops: return True
    if k == "bin" and n[1] not in LOGIC: return is_fp(ptype(n[2])) or is_fp(ptype(n[3]))
    if k == "un" and n[1][0] != "!": return is_fp(ptype(n[2]))
    if k == "assignop": return is_fp(ptype(n[2])) or is_fp(ptype(n[3]))
    if k == "incdec": return is_fp(ptype(n[2]))
    return True


class Case:
    __slots__ = ("cid", "tree", "body", "slots", "typed", "final", "helpers", "grid", "rt", "conv", "intops", "fold", "fexpr", "variant")
    def __init__(self, cid, tree, slots, body=None, typed=True, final=-1, helpers="", grid="full", conv=None, intops=False,
                 fold=None, fexpr=None, variant=0):
        self.cid, self.tree, self.slots, self.body, self.typed, self.final, self.helpers, self.grid = \
            cid, tree, slots, body, typed, final, helpers, grid
        self.rt = ptype(tree)
        self.conv = conv          # (src, dst) when the case exercises exactly that conversion on slot 0 (coverage assertion)
        self.intops = intops      # the tree contains integer-only operators (layer E operand expressions)
        # layer D (translation-time evaluation): fold = context in which the compiler itself must evaluate the expression
        # ("static", "bound", "enum", "case", "condinit"); fexpr = expression with {0} {1} {2} for the operand spellings;
        # variant selects the spelling of NaN and infinity operands
        self.fold, self.fexpr, self.variant = fold, fexpr, variant
        if fold and fexpr is None:
            self.fexpr = text(tree, ["{0}", "{1}", "{2}"])

    def grids(self):
        """grid kind of every slot (grid is one kind for all slots, or a list)."""
        if isinstance(self.grid, str):
            return ["small" if self.grid == "cond" else self.grid] * len(self.slots)
        return list(self.grid)

    def ntuples(self):
        n = 1
        for t, g in zip(self.slots, self.grids()):
            n *= len(grid_values(t, g))
        return n


def W(t):
    """Widest type of the same kind, used to widen a result so that garbage in upper register bits becomes visible."""
    return LDOUBLE if is_fp(t) else (ULONG if t == ULONG else LONG)


def fp_pairs():
    return [(a, b) for a in range(NT) for b in range(NT) if is_fp(a) or is_fp(b)]


def gen_cases(tier):
    cases = []
    T = range(NT)
    R = "FN(R_%s)"
    # ---- Layer A: operators, all type pairs with a floating operand --------------------------------------------------
    for op in BINOPS:
        for a, b in fp_pairs():
            cases.append(Case("A/bin/%s/%s,%s" % (opn(op), TN[a], TN[b]), ("bin", op, slot(0, a), slot(1, b)), [a, b]))
    for op in UNOPS:
        for a in FP:
            cases.append(Case("A/un/%s/%s" % (opn(op), TN[a]), ("un", op, slot(0, a)), [a]))
            # the operand is the value of an expression rather than a loaded object
            cases.append(Case("A/un-expr/%s/%s" % (opn(op), TN[a]), ("un", op, ("bin", ARITH[0], slot(0, a), slot(1, a))), [a, a], grid="small"))
    for d in T:
        for s in T:
            cases.append(Case("A/cast/%s<-%s" % (TN[d], TN[s]), ("cast", d, slot(0, s)), [s], conv=(s, d)))
            # widened afterwards: exposes garbage left in the upper bits of the register
            cases.append(Case("A/castw/%s<-%s" % (TN[d], TN[s]), ("cast", W(d), ("cast", d, slot(0, s))), [s], conv=(s, d)))
    for a in FP:
        for op in ARITH + CMP + LOGIC:      # both operands are the same object: x == x is false for NaN, x - x is NaN for inf
            cases.append(Case("A/self/%s/%s" % (opn(op), TN[a]), ("bin", op, slot(0, a), slot(0, a)), [a]))
    CH = [INT, ULONG, FLOAT, DOUBLE, LDOUBLE] if tier == "quick" else list(T)
    for d in CH:
        for m in CH:
            for s in CH:
                if d == m or m == s or not (is_fp(d) or is_fp(m) or is_fp(s)): continue
                if not is_fp(m) and not is_fp(d) and not is_fp(s): continue
                # each cast converts (and rounds) on its own: (float)(double)x is not (float)x
                cases.append(Case("A/cast2/%s<-%s<-%s" % (TN[d], TN[m], TN[s]), ("cast", d, ("cast", m, slot(0, s))), [s]))
    for a, b in fp_pairs():
        cases.append(Case("A/cond/%s,%s" % (TN[a], TN[b]), ("cond", slot(2, INT), slot(0, a), slot(1, b)), [a, b, INT], grid="cond"))
        cases.append(Case("A/comma/%s,%s" % (TN[a], TN[b]), ("comma", slot(0, a), slot(1, b)), [a, b], grid="small"))
    # ---- Layer B: conversion contexts -------------------------------------------------------------------------------
    for d in T:
        for s in T:
            x = slot(0, s); X = text(x); D = TYPES[d]; RD = R % TN[d]
            ct = ("ctx", d, x)
            cv = (s, d)
            cases.append(Case("B/init/%s<-%s" % (TN[d], TN[s]), ct, [s], body="%s d = %s; %s = d;" % (D, X, RD), typed=False, conv=cv))
            cases.append(Case("B/assign/%s<-%s" % (TN[d], TN[s]), ct, [s], body="%s d; d = %s; %s = d;" % (D, X, RD), typed=False, conv=cv))
            cases.append(Case("B/assign-global/%s<-%s" % (TN[d], TN[s]), ct, [s], body="%s = %s;" % (RD, X), typed=False, conv=cv))
            cases.append(Case("B/assignval/%s<-%s" % (TN[d], TN[s]), ("cast", W(d), ct), [s],
                              body="%s d; %s = (d = %s);" % (D, R % TN[W(d)], X), typed=False, conv=cv))
            cases.append(Case("B/arg/%s<-%s" % (TN[d], TN[s]), ct, [s], body="%s = FN(arg_%s)(%s);" % (RD, TN[d], X), typed=False, conv=cv))
            cases.append(Case("B/ret/%s<-%s" % (TN[d], TN[s]), ct, [s], body="%s = FN(r_@)();" % RD, typed=False, conv=cv,
                              helpers="static %s FN(r_@)(void) { return %s; }\n" % (D, X)))
    for s in T:
        # default argument promotions for a variadic argument: float -> double, small integers -> int
        x = slot(0, s); X = text(x)
        pt = DOUBLE if s == FLOAT else promote(s)
        if is_fp(s):
            for callee in ("FN(va_%s)" % TN[pt], "drv_va_%s" % TN[pt]):
                cases.append(Case("B/vararg/%s/%s<-%s" % ("own" if callee.startswith("FN") else "gcc-callee", TN[pt], TN[s]), ("ctx", pt, x), [s],
                                  body="%s = %s(1, %s);" % (R % TN[pt], callee, X), typed=False, conv=(s, pt)))
    for d, s in fp_pairs():
        for op in ARITH:
            cases.append(Case("B/assignop/%s/%s,%s" % (opn(op), TN[d], TN[s]), ("assignop", op, slot(0, d), slot(1, s)), [d, s], final=0))
            cases.append(Case("B/assignop-local/%s/%s,%s" % (opn(op), TN[d], TN[s]), ("assignop", op, slot(0, d), slot(1, s)), [d, s], final=0, typed=False,
                              body="%s d = %s; d %s= %s; %s = d; %s = d;" % (TYPES[d], text(slot(0, d)), op[0], text(slot(1, s)), text(slot(0, d)), R % TN[d])))
    for d in FP:
        x = slot(0, d); X = text(x)
        for kind, body in (("if", "int r; if (%s) r = 1; else r = 0; FN(R_int) = r;"),
                           ("while", "int r = 0; while (%s) { r = 1; break; } FN(R_int) = r;"),
                           ("for", "int r = 0; for (; %s;) { r = 1; break; } FN(R_int) = r;"),
                           ("do", "int n = 0, r = 0; do { if (n++) { r = 1; break; } } while (%s); FN(R_int) = r;"),
                           ("cond", "FN(R_int) = %s ? 1 : 0;"), ("not-cond", "FN(R_int) = !%s ? 0 : 1;"),
                           ("land", "FN(R_int) = %s && 1;"), ("land-rhs", "FN(R_int) = 1 && %s;"),
                           ("lor", "FN(R_int) = 0 || %s;"), ("lor-lhs", "FN(R_int) = %s || 0;"),
                           ("if-not", "int r; if (!%s) r = 0; else r = 1; FN(R_int) = r;")):
            cases.append(Case("B/truth/%s/%s" % (kind, TN[d]), ("truth", x), [d], body=body % X, typed=False))
        for op in ("O_PREINC", "O_PREDEC", "O_POSTINC", "O_POSTDEC"):
            cases.append(Case("B/incdec/%s/%s" % (op[2:].lower(), TN[d]), ("incdec", op, x), [d], final=0))
            cases.append(Case("B/incdec-local/%s/%s" % (op[2:].lower(), TN[d]), ("incdec", op, x), [d], final=0, typed=False,
                              body="%s d = %s; %s = %s; %s = d;" % (TYPES[d], X, R % TN[d], text(("incdec", op, ("raw", "d", d))), X)))
        # comparison result used directly as a controlling expression
        for op in CMP:
            for e in FP:
                tr = ("bin", op, slot(0, d), slot(1, e))
                cases.append(Case("B/if-cmp/%s/%s,%s" % (opn(op), TN[d], TN[e]), ("truth", tr), [d, e],
                                  body="int r; if (%s) r = 1; else r = 0; FN(R_int) = r;" % text(tr), typed=False))
    # ---- Layer C: composition ----------------------------------------------------------------------------------------
    RT = [INT, ULONG, FLOAT, DOUBLE, LDOUBLE] if tier == "quick" else [1, INT, UINT, LONG, ULONG, FLOAT, DOUBLE, LDOUBLE]
    AC = ARITH + CMP
    tiny = "tiny" if tier == "quick" else "tiny2"
    for o1 in (ARITH if tier == "quick" else AC):
        for o2 in AC:
            for a in RT:
                for b in RT:
                    if not (is_fp(a) or is_fp(b)) and o1 in ARITH: continue      # inner integer arithmetic is C01's
                    if not (is_fp(a) or is_fp(b)): continue
                    for c in RT:
                        cases.append(Case("C/l/%s/%s/%s,%s,%s" % (opn(o1), opn(o2), TN[a], TN[b], TN[c]),
                                          ("bin", o2, ("bin", o1, slot(0, a), slot(1, b)), slot(2, c)), [a, b, c], grid=tiny))
                        if tier == "thorough":
                            if not (is_fp(b) or is_fp(c)): continue
                            cases.append(Case("C/r/%s/%s/%s,%s,%s" % (opn(o1), opn(o2), TN[a], TN[b], TN[c]),
                                              ("bin", o1, slot(0, a), ("bin", o2, slot(1, b), slot(2, c))), [a, b, c], grid=tiny))
    for o in AC:
        for a, b in fp_pairs():
            if tier == "quick" and not (a in RT and b in RT): continue
            inner = ("bin", o, slot(0, a), slot(1, b))
            for u in UNOPS:
                if u[0] != "!" and not is_fp(ptype(inner)): continue
                cases.append(Case("C/u/%s/%s/%s,%s" % (opn(u), opn(o), TN[a], TN[b]), ("un", u, inner), [a, b], grid="small"))
            if is_fp(a):
                cases.append(Case("C/b/%s/neg/%s,%s" % (opn(o), TN[a], TN[b]), ("bin", o, ("un", UNOPS[0], slot(0, a)), slot(1, b)), [a, b], grid="small"))
            if o in ARITH:
                for d in (T if tier == "thorough" else RT):
                    cases.append(Case("C/cast/%s/%s/%s,%s" % (TN[d], opn(o), TN[a], TN[b]), ("cast", d, inner), [a, b], grid="small"))
    gen_lvalue_forms(cases, tier)
    gen_operand_exprs(cases, tier)
    gen_loops(cases, tier)
    gen_folded(cases, tier)
    return [c for c in cases if model_ok(c.tree, c.intops)]


# ---- Layer B2: read-modify-write operators on other lvalue forms (atomic objects, through a pointer, member, element) ----
LV_FORMS = (
    # name, declaration+setup with {T} type {X} operand-0 text, lvalue text, store-back of the final object value into slot 0
    ("atomic-global", "FN(A_{N}) = {X};", "FN(A_{N})", "{X} = FN(A_{N});"),
    ("atomic-local", "_Atomic {T} d = {X};", "d", "{X} = d;"),
    ("pointer", "{T} *p = &{X};", "(*p)", ""),
    ("member", "struct {{ char c; {T} m; }} s; s.m = {X};", "s.m", "{X} = s.m;"),
    ("element", "{T} a[3]; int i = 1; a[i] = {X};", "a[i]", "{X} = a[1];"),
)

def gen_lvalue_forms(cases, tier):
    """++ -- (pre and post) and the four op= on objects that are not plain variables.  _Atomic objects: float, double (and _Bool
    for ++/--); chibicc and libatomic-less gcc do not support a 16-byte atomic read-modify-write, so no _Atomic long double."""
    R = "FN(R_%s)"
    for fname, setup, lv, back in LV_FORMS:
        atomic = fname.startswith("atomic")
        for d in ((0, FLOAT, DOUBLE) if atomic else FP):
            x = slot(0, d); X = text(x)
            f = lambda t: t.format(T=TYPES[d], N=TN[d], X=X)
            for op in ("O_PREINC", "O_PREDEC", "O_POSTINC", "O_POSTDEC"):
                e = {"O_PREINC": "++%s", "O_PREDEC": "--%s", "O_POSTINC": "%s++", "O_POSTDEC": "%s--"}[op] % f(lv)
                cases.append(Case("B/incdec-%s/%s/%s" % (fname, op[2:].lower(), TN[d]), ("incdec", op, x), [d], final=0, typed=False, intops=not is_fp(d),
                                  body="%s %s = %s; %s" % (f(setup), R % TN[d], e, f(back))))
        for d, s in fp_pairs():
            if atomic and (d == LDOUBLE or (tier == "quick" and d not in (0, INT, ULONG, FLOAT, DOUBLE))): continue
            if not atomic and not is_fp(d): continue
            if tier == "quick" and s not in (INT, ULONG, FLOAT, DOUBLE, LDOUBLE): continue
            x = slot(0, d); X = text(x)
            f = lambda t: t.format(T=TYPES[d], N=TN[d], X=X)
            for op in ARITH:
                cases.append(Case("B/assignop-%s/%s/%s,%s" % (fname, opn(op), TN[d], TN[s]), ("assignop", op, x, slot(1, s)), [d, s], final=0, typed=False,
                                  grid="small" if not atomic else "full",
                                  body="%s %s = (%s %s= %s); %s" % (f(setup), R % TN[d], f(lv), op[0], text(slot(1, s)), f(back))))


# ---- Layer E: the operand of a conversion is the value of an expression, not a loaded object ----------------------------
def int_operand_forms(S):
    """(name, tree, slot types, grid): expressions of integer type S (or of its promoted type) over slots 0 (and 1)."""
    x = slot(0, S)
    out = []
    for w, wn in ((LONG, "long"), (ULONG, "ulong"), (INT, "int"), (DOUBLE, "double"), (LDOUBLE, "ldouble")):
        if w != S:
            out.append(("cast-" + wn, ("cast", S, slot(0, w)), [w], "full"))       # (S)wider / (S)negative / (S)floating
    out.append(("neg", ("un", UNOPS[0], x), [S], "full"))
    out.append(("bitnot", ("un", BNOT, x), [S], "full"))
    for op in ARITH + BITOPS:
        out.append((opn(op), ("bin", op, x, slot(1, S)), [S, S], "small"))
    out.append(("call", ("call", S, x), [S], "full"))
    out.append(("call-wide", ("call", S, slot(0, LONG)), [LONG], "full"))         # argument converted by the prototype
    out.append(("cond", ("cond", slot(1, INT), x, x), [S, INT], "cond"))
    out.append(("comma", ("comma", slot(1, INT), x), [S, INT], "cond"))
    out.append(("assign-value", ("assign", slot(1, S), slot(0, LONG)), [LONG, S], "cond"))
    for v in (-1, -7, -(1 << 31)):
        out.append(("cast-const%d" % v, ("cast", S, ("ilit", v)), [INT], "tiny"))   # slot 0 is not used
        out.append(("neg-cast-const%d" % v, ("un", UNOPS[0], ("cast", S, ("ilit", v))), [INT], "tiny"))
    return out

def gen_operand_exprs(cases, tier):
    """integer -> floating conversions whose operand is an unstored intermediate value (upper register bits are whatever the
    producer left there): 9 integer source types x operand forms x 3 floating targets x consumers."""
    R = "FN(R_%s)"
    for S in range(9):
        for fname, tree, slots, grid in int_operand_forms(S):
            ns = len(slots)
            g1 = [("small" if grid == "cond" else grid)] * ns
            g2 = g1 + ["tiny"]                      # the other operand of a binary operator: a floating object, tiny grid
            for F in FP:
                y = slot(ns, F)
                cid = "%s/%s<-%s" % (fname, TN[F], TN[S])
                cases.append(Case("E/cast/" + cid, ("cast", F, tree), slots, grid=g1, intops=True))
                cases.append(Case("E/init/" + cid, ("ctx", F, tree), slots, grid=g1, intops=True, typed=False,
                                  body="%s d = %s; %s = d;" % (TYPES[F], text(tree), R % TN[F])))
                # usual arithmetic conversions, the expression on either side (the other operand is then pending in a register
                # while the expression is evaluated; chibicc turns a > b into b < a, so both spellings are needed)
                cases.append(Case("E/add/" + cid, ("bin", ARITH[0], tree, y), slots + [F], grid=g2, intops=True))
                cases.append(Case("E/sub-rhs/" + cid, ("bin", ARITH[1], y, tree), slots + [F], grid=g2, intops=True))
                cases.append(Case("E/lt/" + cid, ("bin", CMP[0], tree, y), slots + [F], grid=g2, intops=True))
                cases.append(Case("E/le-rhs/" + cid, ("bin", CMP[1], y, tree), slots + [F], grid=g2, intops=True))
                if tier == "thorough":
                    cases.append(Case("E/gt/" + cid, ("bin", CMP[2], tree, y), slots + [F], grid=g2, intops=True))
                    cases.append(Case("E/ge-rhs/" + cid, ("bin", CMP[3], y, tree), slots + [F], grid=g2, intops=True))
                if tier == "thorough":
                    cases.append(Case("E/arg/" + cid, ("ctx", F, tree), slots, grid=g1, intops=True, typed=False,
                                      body="%s = FN(arg_%s)(%s);" % (R % TN[F], TN[F], text(tree))))
                    cases.append(Case("E/ret/" + cid, ("ctx", F, tree), slots, grid=g1, intops=True, typed=False, body="%s = FN(r_@)();" % (R % TN[F]),
                                      helpers="static %s FN(r_@)(void) { return %s; }\n" % (TYPES[F], text(tree))))
                    cases.append(Case("E/assignop/" + cid, ("assignop", ARITH[0], y, tree), slots + [F], grid=g2, intops=True, final=ns))


# ---- Layer L: repetition - discarded floating values in a loop must not disturb later arithmetic ---------------------------
def gen_loops(cases, tier):
    """12 evaluations (more than the 8 x87 registers) of an expression of floating type whose value is discarded, in every
    position where a value can be dropped, followed by (or interleaved with) an observed operation."""
    R = "FN(R_%s)"
    for T in FP:
        x, y = slot(0, T), slot(1, T)
        X, Y = text(x), text(y)
        exprs = (("add", "%s + %s" % (X, Y)), ("load", X), ("neg", "-%s" % X), ("from-int", "(%s)i" % TYPES[T]), ("call", "FN(arg_%s)(%s)" % (TN[T], X)),
                 ("cond", "i ? %s : %s" % (X, Y)), ("comma", "(i, %s)" % Y), ("assign", "d = %s" % X), ("add-assign", "d += %s" % Y),
                 ("postinc", "d++"), ("preinc", "++d"), ("literal", "1.5" + {FLOAT: "f", DOUBLE: "", LDOUBLE: "L"}[T]))
        places = (("for-inc", "for (i = 0; i < 12; %s) i++;"), ("for-inc-comma", "for (i = 0; i < 12; i++, %s) ;"), ("for-init", "for (k = 0; k < 12; k++) for (%s; i < 1;) break;"),
                  ("for-cond-comma", "for (i = 0; (%s, i < 12); i++) ;"), ("statement", "for (i = 0; i < 12; i++) { %s; }"), ("void-cast", "for (i = 0; i < 12; i++) (void)(%s);"),
                  ("comma-lhs", "for (i = 0; i < 12; i++) k = ((%s), i);"), ("if-cond", "for (i = 0; i < 12; i++) if (%s) k++;"), ("logand-lhs", "for (i = 0; i < 12; i++) (%s) && k++;"),
                  ("while-cond-comma", "i = 0; while ((%s), i < 12) i++;"), ("do-cond-comma", "i = 0; do i++; while ((%s), i < 12);"))
        obs = ("bin", ARITH[2], x, y)
        for en, e in exprs:
            for pn, p in places:
                if en in ("cond", "comma") and pn in ("if-cond", "logand-lhs"):
                    e2 = "(%s)" % e
                else:
                    e2 = e
                cases.append(Case("L/%s/%s/%s" % (pn, en, TN[T]), obs, [T, T], grid="small", typed=False,
                                  body="int i = 0, k = 0; %s d = 0; %s %s = %s;" % (TYPES[T], p % e2, R % TN[T], text(obs))))
        # the observed operation itself is repeated: every evaluation must give the same bits
        for op in ARITH + CMP:
            tr = ("bin", op, x, y)
            cases.append(Case("L/repeat/%s/%s" % (opn(op), TN[T]), tr, [T, T], grid="small", typed=False,
                              body="int i; for (i = 0; i < 12; i++) %s = %s;" % (R % TN[ptype(tr)], text(tr))))
            cases.append(Case("L/accumulate/%s/%s" % (opn(op), TN[T]), ("cast", LONG if op in CMP else T, tr), [T, T], grid="small", typed=False,
                              body=("int i; long n = 0; for (i = 0; i < 12; i++) n += %s; FN(R_long) = n / 12;" % text(tr)) if op in CMP else
                                   ("int i; %s r; for (i = 0; i < 12; i++) r = %s; %s = r;" % (TYPES[T], text(tr), R % TN[T]))))


# ---- Layer D: translation-time evaluation -------------------------------------------------------------------------------------
FSUF = {FLOAT: "f", DOUBLE: "", LDOUBLE: "L"}

def hex_plain(x):
    n, d = x.numerator, x.denominator
    k = d.bit_length() - 1
    assert n >= 0 and d == 1 << k
    return "0x%xp%d" % (n, -k)

def fold_lit(v, t, variant=0):
    """Spelling of the grid value v of type t as a constant expression that has exactly this type and value.  Finite values:
    a hexadecimal constant (exact) under unary minus; integers: a cast of a long/unsigned long constant.  NaN, infinity
    and -0 have no literal: variant 0 spells them 0.0/0.0, 1.0/0.0, -0.0; variant 1 inf-inf, MAX*2, 0.0*-1.0."""
    if not is_fp(t):
        if v == -(1 << 63): lit = "(-9223372036854775807L-1)"
        elif v < 0: lit = "(-%dL)" % -v
        elif v >= 1 << 63: lit = "%dUL" % v
        else: lit = "%dL" % v
        return "((%s)%s)" % (TYPES[t], lit)
    sf = FSUF[t]
    if isinstance(v, str):
        inf = ("(1.0{0}/0.0{0})".format(sf), "(%s%s*2.0%s)" % (hex_plain(fmax(t)), sf, sf))[variant]
        nan = ("(0.0{0}/0.0{0})".format(sf), "(%s-%s)" % (inf, inf))[variant]
        nz = ("(-0.0%s)" % sf, "(0.0{0}*-1.0{0})".format(sf))[variant]
        return {"nan": nan, "-nan": "(-%s)" % nan, "inf": inf, "-inf": "(-%s)" % inf, "-0": nz}[v]
    h = hex_plain(abs(v)) + sf
    return "(-%s)" % h if v < 0 else h

def int_range(t):
    if t == 0: return 0, 1
    b = SIZE[t] * 8
    return (0, (1 << b) - 1) if UNS[t] else (-(1 << (b - 1)), (1 << (b - 1)) - 1)

def fold_value(n, vals):
    """Python-side look at one operand tuple of a folded case.  Returns (defined, value): defined is False when a
    floating -> integer conversion in the tree is out of range (6.3.1.4: undefined; gcc may refuse to fold it, so such a
    tuple is not written at all); value is the integer value when the whole tree is one such conversion, else None.
    The generator applies floating -> integer conversions only directly to operands, so no arithmetic is needed here."""
    k = n[0]
    if k in ("slot", "ilit"): return True, None
    if k in ("cast", "ctx") and not is_fp(n[1]) and is_fp(ptype(n[2])):
        if n[2][0] != "slot": raise core.HarnessError("layer D: floating->integer conversion of a non-operand")
        if n[1] == 0: return True, None                  # -> _Bool: defined for every value, NaN included
        v = vals[n[2][1]]
        if v == "-0": return True, 0
        if isinstance(v, str): return False, None
        iv = int(v)                                       # truncation toward zero
        lo, hi = int_range(n[1])
        return (True, iv) if lo <= iv <= hi else (False, None)
    ok = True
    for x in n[1:]:
        if isinstance(x, tuple) and x and isinstance(x[0], str) and x[0] in ("slot", "bin", "un", "cast", "ctx", "cond", "comma", "truth", "ilit"):
            ok = fold_value(x, vals)[0] and ok
    return ok, None

def is_boolish(n):
    return n[0] == "truth" or (n[0] == "bin" and n[1] not in ARITH and n[1] not in BITOPS) or (n[0] == "un" and n[1][0] == "!")

FOLD_CONTEXTS = ("static", "condinit", "bound", "enum", "case")

def fold_unit(c, i):
    """(helper declarations, function body, number of expressions written in the context) of the folded case c, number i in
    its unit.  The function only selects the element FN(IX) (operand indices, set by the driver) of a table of constants
    that the compiler under test had to evaluate; the context decides where the constant expression stands:
      static    element of a static array initializer (element type = type of the expression, or the target of the conversion)
      condinit  first operand of ?: in a static initializer
      bound     array bound of a file-scope typedef (observed with sizeof)     enum   value of an enumerator     case   case label"""
    grids = [grid_values(t, g) for t, g in zip(c.slots, c.grids())]
    lits = [[fold_lit(v, t, c.variant) for v in gv] for t, gv in zip(c.slots, grids)]
    dims = [len(g) for g in grids]
    idx = "FN(IX)[0]"
    for s in range(1, len(dims)):
        idx = "(%s * %d + FN(IX)[%d])" % (idx, dims[s], s)
    boolish = is_boolish(c.tree) or (c.tree[0] == "cast" and c.tree[1] == 0)
    pre, elems, n_ctx = [], [], 0
    for k, tup in enumerate(itertools.product(*[range(n) for n in dims])):
        ok, iv = fold_value(c.tree, [grids[s][j] for s, j in enumerate(tup)])
        if not ok:                                            # the model calls this tuple undefined; never compared
            if c.fold != "case": elems.append("0")
            continue
        e = c.fexpr.format(*([lits[s][j] for s, j in enumerate(tup)] + ["", ""]))
        if c.fold == "static":
            elems.append(e); n_ctx += 1
        elif c.fold == "condinit":
            elems.append("(%s ? 1 : 0)" % e); n_ctx += 1
        elif c.fold == "bound" and (boolish or (iv is not None and 0 <= iv <= 4095)):
            # a file-scope typedef: there gcc folds a bound that is not a strict integer constant expression (in a type
            # name inside an expression it would make a variable length array of it)
            pre.append("typedef char FN(b%d_%d)[%s + 1];" % (i, k, e)); elems.append("(sizeof(FN(b%d_%d)) - 1)" % (i, k)); n_ctx += 1
        elif c.fold == "enum" and (boolish or (iv is not None and -(1 << 31) <= iv < (1 << 31))):    # 6.7.2.2p2: representable as an int
            pre.append("enum { FN(e%d_%d) = %s };" % (i, k, e)); elems.append("FN(e%d_%d)" % (i, k)); n_ctx += 1
        elif c.fold == "case":
            elems.append("case %d: switch (1) { case %s: r = 1; break; default: r = 0; } break;" % (k, e)); n_ctx += 1
        else:
            elems.append(e)                                   # value out of reach of this context: plain static element
    if c.fold == "case":
        if not boolish: raise core.HarnessError("layer D: case-label context needs a 0/1 valued expression")
        return "", "int r = -1; switch (%s) {\n%s\n} FN(R_int) = r;" % (idx, "\n".join(elems)), n_ctx
    pre.append("static %s FN(T%d)[] = {\n%s\n};" % (TYPES[c.rt], i, ",\n".join(elems)))
    return "\n".join(pre) + "\n", "FN(R_%s) = FN(T%d)[%s];" % (TN[c.rt], i, idx), n_ctx


def gen_folded(cases, tier):
    """Every operator and conversion of layers A-C once more with *constant* operands, spelled so that the compiler has to
    evaluate the expression itself, judged by the same model on the same value grids."""
    quick = tier == "quick"
    RT = [INT, ULONG, FLOAT, DOUBLE, LDOUBLE]
    pairs = [(a, b) for a, b in fp_pairs() if not quick or (a in RT and b in RT)]
    tiny = "tiny" if quick else "tiny2"
    V2 = (0, 1)
    def add(cid, tree, slots, grid, ctx="static", fexpr=None, variants=(0,)):
        for v in variants:
            cases.append(Case("D/%s/%s%s" % (ctx, cid, "/alt-spelling" if v else ""), tree, slots, grid=grid, typed=False, fold=ctx, fexpr=fexpr, variant=v))
    TRUTH = (("cond", "({0} ? 1 : 0)"), ("not-cond", "(!{0} ? 0 : 1)"), ("land", "({0} && 1)"), ("land-rhs", "(1 && {0})"), ("lor", "(0 || {0})"), ("lor-lhs", "({0} || 0)"))
    # operators
    for op in BINOPS:
        for a, b in pairs:
            add("bin/%s/%s,%s" % (opn(op), TN[a], TN[b]), ("bin", op, slot(0, a), slot(1, b)), [a, b], "small", variants=V2 if a == b else (0,))
    for a in FP:
        for op in UNOPS:
            add("un/%s/%s" % (opn(op), TN[a]), ("un", op, slot(0, a)), [a], "full", variants=V2)
        for kind, fx in TRUTH:
            add("truth/%s/%s" % (kind, TN[a]), ("truth", slot(0, a)), [a], "full", fexpr=fx, variants=V2)
    # conversions: explicit cast, and implicit conversion to the type of the initialized object
    for d in range(NT):
        for s in range(NT):
            if not (is_fp(d) or is_fp(s)): continue
            add("cast/%s<-%s" % (TN[d], TN[s]), ("cast", d, slot(0, s)), [s], "full")
            add("init/%s<-%s" % (TN[d], TN[s]), ("ctx", d, slot(0, s)), [s], "full")
    # ?: with integer and floating conditions (second and third operand converted to the common type)
    for a, b in pairs:
        for ct in (INT, FLOAT, DOUBLE, LDOUBLE):
            add("cond/%s/%s,%s" % (TN[ct], TN[a], TN[b]), ("cond", slot(2, ct), slot(0, a), slot(1, b)), [a, b, ct], tiny)
    # compositions: every node is rounded to its own type
    for T in FP:
        x, y, z = slot(0, T), slot(1, T), slot(2, T)
        for o1 in ARITH:
            for o2 in ARITH + CMP:
                add("l/%s/%s/%s" % (opn(o1), opn(o2), TN[T]), ("bin", o2, ("bin", o1, x, y), z), [T, T, T], tiny)
                if not quick and o2 in ARITH:
                    add("r/%s/%s/%s" % (opn(o1), opn(o2), TN[T]), ("bin", o1, x, ("bin", o2, y, z)), [T, T, T], tiny)
            add("u/neg/%s/%s" % (opn(o1), TN[T]), ("un", UNOPS[0], ("bin", o1, x, y)), [T, T], "small")
            for d in FP:
                if d != T:
                    add("cast/%s/%s/%s" % (TN[d], opn(o1), TN[T]), ("cast", d, ("bin", o1, x, y)), [T, T], "small")
        for o in CMP:
            add("u/not/%s/%s" % (opn(o), TN[T]), ("un", UNOPS[1], ("bin", o, x, y)), [T, T], "small")
    # the other places where a constant expression is required or evaluated: 0/1 valued expressions and floating -> integer
    for ctx in FOLD_CONTEXTS[1:]:
        for op in CMP + LOGIC:
            for a, b in pairs:
                add("bin/%s/%s,%s" % (opn(op), TN[a], TN[b]), ("bin", op, slot(0, a), slot(1, b)), [a, b], tiny, ctx=ctx, variants=V2 if a == b else (0,))
        for a in FP:
            add("un/not/%s" % TN[a], ("un", UNOPS[1], slot(0, a)), [a], "small", ctx=ctx, variants=V2)
            for kind, fx in TRUTH[:3]:
                add("truth/%s/%s" % (kind, TN[a]), ("truth", slot(0, a)), [a], "small", ctx=ctx, fexpr=fx, variants=V2)
        if ctx in ("bound", "enum"):
            for s in FP:
                for d in range(9):
                    add("cast/%s<-%s" % (TN[d], TN[s]), ("cast", d, slot(0, s)), [s], "full", ctx=ctx)


# ---- floating constants ----------------------------------------------------------------------------------------------
def dec_exact(x):
    """Exact decimal spelling of a dyadic rational."""
    n, d = abs(x.numerator), x.denominator
    k = d.bit_length() - 1
    assert d == 1 << k
    digits = str(n * 5 ** k)
    if k:
        digits = digits.rjust(k + 1, "0")
        s = digits[:-k] + "." + digits[-k:]
    else:
        s = digits + ".0"
    return ("-" if x < 0 else "") + s

def hex_exact(x):
    n, d = abs(x.numerator), x.denominator
    k = d.bit_length() - 1
    assert d == 1 << k
    return "0x%xp%d" % (n, -k) if k % 2 else "0X%X.0P%d" % (n, -k)

def parse_const(sp):
    """Value of a C floating constant spelling (without suffix) as an exact rational - independent of the emitters above."""
    m = re.fullmatch(r"0[xX]([0-9a-fA-F]*)\.?([0-9a-fA-F]*)[pP]([+-]?\d+)", sp)
    if m:
        ip, fp, e = m.groups()
        return Fr(int((ip + fp) or "0", 16)) * p2(int(e) - 4 * len(fp))
    m = re.fullmatch(r"(\d*)\.?(\d*)(?:[eE]([+-]?\d+))?", sp)
    ip, fp, e = m.groups()
    return Fr(int((ip + fp) or "0")) * Fr(10) ** (int(e or 0) - len(fp))

def fp_bytes(v, t, neg=False):
    """Object bytes (value bytes only) of the finite value v in format t (neg: sign bit for a zero)."""
    p, emin, emax = FMT[t]
    sign = 1 if v < 0 or neg else 0
    v = abs(v)
    if v == 0:
        e_b, frac = 0, 0
    else:
        e = ilog2(v)
        if e < emin:
            e_b, frac = 0, int(v / p2(emin - p + 1))
        else:
            m = int(v / p2(e - p + 1))            # p-bit integer significand
            e_b = e + emax
            frac = m if t == LDOUBLE else m - (1 << (p - 1))
    if t == FLOAT: return ((sign << 31) | (e_b << 23) | frac).to_bytes(4, "little")
    if t == DOUBLE: return ((sign << 63) | (e_b << 52) | frac).to_bytes(8, "little")
    return frac.to_bytes(8, "little") + ((sign << 15) | e_b).to_bytes(2, "little")


def gen_consts():
    """(cid, spelling-without-suffix, suffix, type) - exhaustive over the listed anchors x spellings x suffixes."""
    out = []
    seen = set()
    SUF = {"": DOUBLE, "f": FLOAT, "F": FLOAT, "l": LDOUBLE, "L": LDOUBLE}
    def add(name, sp, only=None):
        for suf, t in SUF.items():
            if only is not None and t not in only: continue
            v = parse_const(sp.lstrip("-"))
            r = rne(v, t)
            if isinstance(r, str): continue          # out of range: violates the constraint of 6.4.4p2, not generated
            if v > fmax(t): continue
            key = (sp, suf)
            if key in seen: continue
            seen.add(key)
            out.append(("K/%s/%s/%s" % (name, TN[t], suf or "none"), sp, suf, t))
    plain = ["0.0", "0.", ".0", "1.0", "1.", ".5", "5e-1", "1e0", "1E+2", "1.5", "0.1", "0.2", "0.3", "1e-1", "100e-3", "0.01", "3.14159265358979323846264338327950288",
             "2.718281828459045235360287471352662498", "1e23", "8.5", "1e10", "1e22", "1e-45", "1.4e-45", "1.401298464324817e-45", "0.7e-45", "0.70064923216240853546186479164495806564013097093825788587853e-45",
             "1e38", "3.4028235e38", "3.40282347e+38", "3.4028234663852886e38", "1.17549435e-38", "1.1754942e-38", "1.7976931348623157e308", "1.797693134862315e308",
             "4.9e-324", "4.94065645841246544e-324", "2.4703282292062328e-324", "2.4703282292062327e-324", "2.2250738585072014e-308", "2.2250738585072011e-308", "2.2250738585072012e-308",
             "9007199254740993.0", "9007199254740992.0", "9007199254740991.0", "16777217.0", "16777216.0", "16777219.0", "33554434.0", "18446744073709551615.0", "18446744073709551616.0",
             "9223372036854775807.0", "9223372036854775808.0", "9223372036854777856.0", "1e-400", "1e-4000", "1e-5000", "1e4000", "1.18973149535723176502e+4932", "3.36210314311209350626e-4932",
             "3.64519953188247460253e-4951", "1.82259976594123730126e-4951", "1.9e-4951", "0.333333333333333333333333333333333333", "0.6666666666666666666666666666", "123456789.123456789123456789",
             "0x1p0", "0X1P0", "0x1.8p1", "0x.8p1", "0x8.p-3", "0x1.fffffep127", "0x1.fffffefp127", "0x1p-149", "0x1p-150", "0x1.000001p-150", "0x1p-126", "0x0.fffffep-126", "0x1.fffffffffffffp1023", "0x1p-1074", "0x1p-1075",
             "0x1.0000000000001p-1075", "0x1p-1022", "0x1.fffffffffffffffep16383", "0x1p-16445", "0x1p-16382", "0x1p-16446", "0x1.8p-16446", "0x1.000001p0", "0x1.0000010000000000001p0", "0x1.00000100000000000001p0",
             "0x1.0000008p0", "0x1.00000080000000001p0", "0x1.00000000000008p0", "0x1.000000000000080001p0", "0x1.0000000000000800000001p0", "0x1.00000000000018p0", "0x1.00000000000017ffffffffp0",
             "0x1.00000000000000008p0", "0x1.000000000000000080001p0", "0x1.00000000000000018p0", "0xabc.defp-7", "0XA.BP+5", "0x0p0", "0x0.0p-9999"]
    for sp in plain:
        add(("hex" if sp[:2].lower() == "0x" else "dec") + "/" + sp, sp)
    # unary minus applied to a constant (the static object goes through the constant evaluator)
    for sp in ("0.0", "1.5", "0.1", "1e-45", "4.9e-324", "0x1p-149", "0x1.fffffep127", "1.7976931348623157e308", "3.64519953188247460253e-4951", "16777217.0",
               "1.00000005960464477539062510339757656912845935892608650874535669572651386260986328125"):
        add(("hex" if sp[:2].lower() == "0x" else "dec") + "/neg/" + sp, "-" + sp)
    # rounding boundaries: for every format, around several anchors: the midpoint of two adjacent values and midpoint +- tiny,
    # where tiny is far below the resolution of long double (this is what double-rounds when parsed via strtold)
    for t in FP:
        anchors = [("1", Fr(1)), ("1+ulp", 1 + ulp(1, t)), ("2^24", p2(24)), ("2^24+ulp", p2(24) + ulp(p2(24), t)), ("0.1", rne(Fr(1, 10), t)), ("1/3", rne(Fr(1, 3), t)),
                   ("2^53", p2(53)), ("2^53+ulp", p2(53) + ulp(p2(53), t)), ("2^63", p2(63)), ("1e10", rne(Fr(10) ** 10 + Fr(1, 3), t)), ("max-ulp", fmax(t) - ulp(fmax(t), t))]
        if t != LDOUBLE:
            anchors += [("minsub", minsub(t)), ("0", Fr(0)), ("maxsub", minnorm(t) - minsub(t)), ("minnorm", minnorm(t)), ("3minsub", 3 * minsub(t))]
        for an, a in anchors:
            u = ulp(a, t) if a != 0 else minsub(t)
            mid = a + u / 2
            tiny = u * p2(-30 if t == LDOUBLE else -60)
            for dn, v in (("lo", a), ("mid", mid), ("mid+tiny", mid + tiny), ("mid-tiny", mid - tiny), ("lo+tiny", a + tiny), ("hi-tiny", a + u - tiny)):
                if v <= 0: continue
                if v.denominator.bit_length() < 1300 and v.numerator.bit_length() < 4000:
                    add("dec/boundary/%s/%s/%s" % (TN[t], an, dn), dec_exact(v), only=[x for x in FP if x <= t] if dn != "lo" else None)
                add("hex/boundary/%s/%s/%s" % (TN[t], an, dn), hex_exact(v), only=[x for x in FP if x <= t] if dn != "lo" else None)
    return out


def const_rows(consts):
    """Per constant: unit text and expected bytes from the rational model."""
    rows = []
    for cid, sp, suf, t in consts:
        v = rne(parse_const(sp.lstrip("-")), t)
        rows.append((cid, sp + suf, t, fp_bytes(v, t, neg=sp.startswith("-"))))
    return rows


# ---- batch construction ----------------------------------------------------------------------------------------------
DRIVER_MAIN = r'''
#include <signal.h>
#include <setjmp.h>
#include <stdarg.h>
double drv_va_double(int n, ...) { va_list ap; va_start(ap, n); double d = va_arg(ap, double); va_end(ap); return d; }
long double drv_va_ldouble(int n, ...) { va_list ap; va_start(ap, n); long double d = va_arg(ap, long double); va_end(ap); return d; }
static sigjmp_buf cc_trap; static volatile int in_cc;
static void on_sig(int sig) { if (in_cc) siglongjmp(cc_trap, sig); _exit(70); }
static void fp_reset(void) { unsigned m = 0x1f80; __asm__ volatile("fninit"); __asm__ volatile("ldmxcsr %0" :: "m"(m)); }
static int fp_dirty(void) {
  unsigned short cw; unsigned mx;
  __asm__ volatile("fnstcw %0" : "=m"(cw)); __asm__ volatile("stmxcsr %0" : "=m"(mx));
  return (cw & 0x0f3f) != 0x033f || (mx & 0xffc0) != 0x1f80;
}
// x87 register stack after a call of a function that returns nothing: every register must be empty again (psABI 3.2.3) and
// the top-of-stack pointer back where it was (it is 0 after fninit; pops from an empty stack displace it)
static int x87_unbalanced(void) {
  struct { unsigned short cw, r0, sw, r1, tag, r2; unsigned rest[4]; } env;
  __asm__ volatile("fnstenv %0" : "=m"(env));
  return env.tag != 0xffff || ((env.sw >> 11) & 7) != 0;
}
// Calls f with a pristine x87/SSE control state and empty x87 stack (so that a leak or a control word left modified by
// one case cannot contaminate the next), returns 0, or the signal number, or -1 if the control state was left modified,
// or -2 if the x87 register stack was not left as it was found.
static NOINL int call_clean(void (*f)(void), int guarded) {
  int sg, dirty, unbal;
  fp_reset();
  if (guarded) {
    if ((sg = sigsetjmp(cc_trap, 1)) == 0) { in_cc = 1; f(); in_cc = 0; }
    else { in_cc = 0; fp_reset(); return sg; }
  } else f();
  dirty = fp_dirty();
  unbal = x87_unbalanced();
  fp_reset();
  return dirty ? -1 : unbal ? -2 : 0;
}
typedef struct { char key[80]; long count; char ex[360]; } Cls;
static Cls cls[16]; static int ncls;
static void record(const char *key, const char *ex) {
  for (int i = 0; i < ncls; i++) if (!strcmp(cls[i].key, key)) { cls[i].count++; return; }
  if (ncls == 16) { cls[15].count++; return; }
  snprintf(cls[ncls].key, sizeof cls[ncls].key, "%s", key); cls[ncls].count = 1; snprintf(cls[ncls].ex, sizeof cls[ncls].ex, "%s", ex); ncls++;
}
static void hexbytes(char *o, const unsigned char *b, int n) { for (int i = n - 1; i >= 0; i--) o += sprintf(o, "%02x", b[i]); }
int main(int argc, char **argv) {
  signal(SIGFPE, on_sig); signal(SIGSEGV, on_sig); signal(SIGILL, on_sig); signal(SIGBUS, on_sig);
  long evals = 0, skipped = 0, odis = 0, j2 = 0, j1 = 0;
  // "drv <row>": only that case, in a process of its own (used when the whole batch does not run to its end)
  int first = argc > 1 ? atoi(argv[1]) : 0, ncases = argc > 1 ? first + 1 : NROWS;
  for (int i = first; i < ncases; i++) {
    const Row *r = &rows[i];
    ncls = 0;
    if (r->typed) {
      int msz = ty_size[r->rt];
      if (ref_types[i] != r->rt || ref_sizes[i] != msz) { printf("O %d type ref=%d,%d model=%d,%d\n", i, ref_types[i], ref_sizes[i], r->rt, msz); odis++; }
      else if (cc_types[i] != r->rt || cc_sizes[i] != msz) printf("T %d cc=%d,%d want=%d,%d\n", i, cc_types[i], cc_sizes[i], r->rt, msz);
    }
    long judged = 0, judged1 = 0, skip = 0; int cover = 0;
    int n0 = grids[r->g[0]].n, n1 = r->ns > 1 ? grids[r->g[1]].n : 1, n2 = r->ns > 2 ? grids[r->g[2]].n : 1;
    for (int a = 0; a < n0; a++) for (int b = 0; b < n1; b++) for (int c = 0; c < n2; c++) {
      int ix[3] = {a, b, c};
      SlotV v[3]; MVal ov[3];
      for (int s = 0; s < r->ns; s++) {
        const Grid *g = &grids[r->g[s]];
        if (IS_FP(r->st[s])) v[s].f = g->fv[ix[s]]; else v[s].i = g->iv[ix[s]];
        m_slot[s] = v[s]; set_slot(s, r->st[s], &v[s]); cc_IX[s] = ref_IX[s] = ix[s];
        ov[s] = get_slot(0, s, r->st[s]);
      }
      MFlags fl = {0, 0}; m_final_set = 0;
      MVal mv = m_eval(nodes, r->root, &fl);
      evals++;
      if (fl.und) { skipped++; skip++; continue; }
      if (mv.t != r->rt) { if (odis++ < 50) printf("O %d model type %d, generator says %d\n", i, mv.t, r->rt); continue; }
      if (call_clean(r->ref, 0)) { if (odis++ < 50) printf("O %d reference left the fp control state modified\n", i); continue; }
      MVal rv = get_res(0, r->rt), rfin = rv, cfin = rv;
      if (r->final >= 0) rfin = get_slot(0, r->final, r->st[r->final]);
      for (int s = 0; s < r->ns; s++) set_slot(s, r->st[s], &v[s]);
      clear_res(r->rt);
      int st = call_clean(r->cc, 1);
      MVal cv = get_res(1, r->rt);
      if (r->final >= 0) cfin = get_slot(1, r->final, r->st[r->final]);
      char sa[3][48] = {"-", "-", "-"}, sw[48], sg[48], ex[360], key[80];
      if (!fl.nomodel) {
        if (!mv_same(rv, mv) || (r->final >= 0 && !mv_same(rfin, m_final))) {
          for (int s = 0; s < r->ns; s++) mv_print(sa[s], 48, ov[s]);
          mv_print(sw, 48, mv); mv_print(sg, 48, rv);
          if (odis++ < 50) printf("O %d operands %s %s %s: model=%s gcc=%s\n", i, sa[0], sa[1], sa[2], sw, sg);
          continue;
        }
        judged++; j2++;
      } else { judged1++; j1++; }
      int oc = opnd_class(ov[0]);
      cover |= oc;
      const char *dev = 0; char devb[64];
      if (st > 0) { snprintf(devb, sizeof devb, "got=signal%d", st); dev = devb; }
      else if (!mv_same(cv, rv)) dev = dev_class(rv, cv);
      else if (r->final >= 0 && !mv_same(cfin, rfin)) { snprintf(devb, sizeof devb, "object:%s", dev_class(rfin, cfin)); dev = devb; }
      else if (st == -1) dev = "fp-control-state-not-restored";
      else if (st == -2) dev = "x87-register-stack-not-restored";
      if (!dev) continue;
      const char *on = class_name(oc);
      if (r->ns > 1) {
        int any = 0; for (int s = 0; s < r->ns; s++) any |= opnd_class(ov[s]);
        on = (any & C_NAN) ? "nan" : (any & C_GE63) ? "ge2^63" : "num";
      }
      snprintf(key, sizeof key, "opnd=%s|%s", on, dev);
      for (int s = 0; s < r->ns; s++) mv_print(sa[s], 48, ov[s]);
      mv_print(sw, 48, rv); mv_print(sg, 48, cv);
      int k = snprintf(ex, sizeof ex, "operands %s %s %s: want %s got %s", sa[0], sa[1], sa[2], sw, sg);
      if (r->final >= 0) { mv_print(sw, 48, rfin); mv_print(sg, 48, cfin); snprintf(ex + k, sizeof ex - k, "; object afterwards: want %s got %s", sw, sg); }
      record(key, ex);
    }
    for (int k = 0; k < ncls; k++) printf("V %d %s %ld %s\n", i, cls[k].key, cls[k].count, cls[k].ex);
    printf("J %d %ld %ld %ld %d\n", i, judged, judged1, skip, cover);
  }
  // floating constants: object bytes of a static object and of a value materialised at run time
  long kj = 0;
  for (int i = 0; i < (argc > 1 ? 0 : NKROWS); i++) {
    const KRow *k = &krows[i];
    int n = k->t == T_LDOUBLE ? 10 : ty_size[k->t];
    unsigned char rb[2][16], cb[2][16]; char h1[40], h2[40];
    memcpy(rb[0], k->ref_static, n); memcpy(cb[0], k->cc_static, n);
    call_clean(k->ref, 0); memcpy(rb[1], res_addr(0, k->t), n);
    clear_res(k->t);
    int st = call_clean(k->cc, 1); memcpy(cb[1], res_addr(1, k->t), n);
    if (ref_ktypes[i] != k->t || ref_ksizes[i] != ty_size[k->t]) { printf("O K%d type ref=%d model=%d\n", i, ref_ktypes[i], k->t); odis++; continue; }
    if (memcmp(rb[0], k->want, n) || memcmp(rb[1], k->want, n)) {
      hexbytes(h1, rb[0], n); hexbytes(h2, k->want, n);
      printf("O K%d constant bytes gcc=%s model=%s\n", i, h1, h2); odis++; continue;
    }
    kj++; evals += 2;
    if (cc_ktypes[i] != k->t || cc_ksizes[i] != ty_size[k->t]) printf("KT %d cc=%d,%d want=%d,%d\n", i, cc_ktypes[i], cc_ksizes[i], k->t, ty_size[k->t]);
    for (int w = 0; w < 2; w++) {
      if (w == 1 && st > 0) { printf("KV %d runtime got=signal%d -\n", i, st); continue; }
      if (!memcmp(cb[w], k->want, n)) continue;
      MVal wv, gv; wv.t = gv.t = k->t; wv.i = gv.i = 0;
      unsigned char t16[16];
      if (k->t == T_FLOAT) { float f, g; memcpy(&f, k->want, 4); memcpy(&g, cb[w], 4); wv.f = f; gv.f = g; }
      else if (k->t == T_DOUBLE) { double f, g; memcpy(&f, k->want, 8); memcpy(&g, cb[w], 8); wv.f = f; gv.f = g; }
      else { memset(t16, 0, 16); memcpy(t16, k->want, 10); memcpy(&wv.f, t16, 16); memset(t16, 0, 16); memcpy(t16, cb[w], 10); memcpy(&gv.f, t16, 16); }
      hexbytes(h1, cb[w], n); hexbytes(h2, k->want, n);
      printf("KV %d %s %s bytes got=%s want=%s\n", i, w ? "runtime" : "static", dev_class(wv, gv), h1, h2);
    }
  }
  printf("S evals=%ld skipped=%ld odis=%ld j2=%ld j1=%ld kj=%ld\n", evals, skipped, odis, j2, j1, kj);
  return 0;
}
'''


def build_batch(cases, consts=()):
    """Returns (unit_src, driver_src).  consts: rows from const_rows()."""
    u = ["#include <stdarg.h>"]
    for s in range(3):
        for t in range(NT):
            u.append("%s FN(S%d_%s);" % (TYPES[t], s, TN[t]))
    for t in range(NT):
        u.append("%s FN(R_%s);" % (TYPES[t], TN[t]))
        u.append("%s FN(arg_%s)(%s p) { return p; }" % (TYPES[t], TN[t], TYPES[t]))
    u.append("double FN(va_double)(int n, ...) { va_list ap; va_start(ap, n); double d = va_arg(ap, double); va_end(ap); return d; }")
    u.append("long double FN(va_ldouble)(int n, ...) { va_list ap; va_start(ap, n); long double d = va_arg(ap, long double); va_end(ap); return d; }")
    u.append("double drv_va_double(int n, ...); long double drv_va_ldouble(int n, ...);")
    u.append("int FN(IX)[3];")                               # indices of the current operands in their grids (layer D)
    for t in range(NT):
        if t != LDOUBLE:
            u.append("_Atomic %s FN(A_%s);" % (TYPES[t], TN[t]))
    tys, szs = [], []
    nfold = {}
    for i, c in enumerate(cases):
        if c.fold:
            helpers, body, n_ctx = fold_unit(c, i)
            nfold[c.fold] = nfold.get(c.fold, 0) + n_ctx
            u.append(helpers)
        else:
            if c.helpers:
                u.append(c.helpers.replace("@", str(i)))
            body = (c.body or "FN(R_%s) = %s;" % (TN[c.rt], text(c.tree))).replace("@", str(i))
        u.append("void FN(f%d)(void) { %s }" % (i, body))
        if c.typed:
            tys.append("_Generic(%s, %s)" % (text(c.tree), GENERIC)); szs.append("sizeof(%s)" % text(c.tree))
        else:
            tys.append("-1"); szs.append("-1")
    u.append("int FN(types)[] = {%s};" % ",\n".join(tys + ["0"]))
    u.append("int FN(sizes)[] = {%s};" % ",\n".join(szs + ["0"]))
    kt, ks = [], []
    for i, (cid, sp, t, want) in enumerate(consts):
        u.append("%s FN(K%d) = %s;" % (TYPES[t], i, sp))
        u.append("void FN(k%d)(void) { FN(R_%s) = %s; }" % (i, TN[t], sp))
        kt.append("_Generic(%s, %s)" % (sp, GENERIC)); ks.append("sizeof(%s)" % sp)
    u.append("int FN(ktypes)[] = {%s};" % ",\n".join(kt + ["0"]))
    u.append("int FN(ksizes)[] = {%s};" % ",\n".join(ks + ["0"]))
    unit = "\n".join(u) + "\n"

    d = ['#include "%s"' % os.path.join(core.VERIF, "harness/c02_model.h")]
    for pfx in ("cc_", "ref_"):
        for t in range(NT):
            for s in range(3):
                d.append("extern %s %sS%d_%s;" % (TYPES[t], pfx, s, TN[t]))
            d.append("extern %s %sR_%s;" % (TYPES[t], pfx, TN[t]))
        d.append("extern int %stypes[], %ssizes[], %sktypes[], %sksizes[], %sIX[3];" % (pfx, pfx, pfx, pfx, pfx))
        for i in range(len(cases)):
            d.append("void %sf%d(void);" % (pfx, i))
        for i, (cid, sp, t, want) in enumerate(consts):
            d.append("extern %s %sK%d; void %sk%d(void);" % (TYPES[t], pfx, i, pfx, i))
    d.append("static void set_slot(int s, int t, const SlotV *v) { switch (s * 12 + t) {")
    for s in range(3):
        for t in range(NT):
            m = "f" if is_fp(t) else "i"
            d.append("case %d: cc_S%d_%s = (%s)v->%s; ref_S%d_%s = (%s)v->%s; break;" % (s * 12 + t, s, TN[t], TYPES[t], m, s, TN[t], TYPES[t], m))
    d.append("} }")
    d.append("static MVal get_slot(int cc, int s, int t) { MVal r; r.t = t; r.i = 0; r.f = 0; switch (s * 12 + t) {")
    for s in range(3):
        for t in range(NT):
            m = "f" if is_fp(t) else "i"
            d.append("case %d: r.%s = cc ? cc_S%d_%s : ref_S%d_%s; break;" % (s * 12 + t, m, s, TN[t], s, TN[t]))
    d.append("} return r; }")
    d.append("static MVal get_res(int cc, int t) { MVal r; r.t = t; r.i = 0; r.f = 0; switch (t) {")
    for t in range(NT):
        d.append("case %d: r.%s = cc ? cc_R_%s : ref_R_%s; break;" % (t, "f" if is_fp(t) else "i", TN[t], TN[t]))
    d.append("} return r; }")
    d.append("static void *res_addr(int cc, int t) { switch (t) {")
    for t in range(NT):
        d.append("case %d: return cc ? (void *)&cc_R_%s : (void *)&ref_R_%s;" % (t, TN[t], TN[t]))
    d.append("} return 0; }")
    d.append("static void clear_res(int t) { memset(res_addr(1, t), 0x5a, t == T_LDOUBLE ? 10 : ty_size[t]); if (t == T_BOOL) cc_R_bool = 0; }")
    nodes, rows, grids = [], [], {}
    for i, c in enumerate(cases):
        root = emit_model(c.tree, nodes)
        gi = []
        for t, kind in zip(c.slots, c.grids()):
            key = (t, kind)
            if key not in grids:
                grids[key] = len(grids)
            gi.append(grids[key])
        while len(gi) < 3:
            gi.append(-1)
        st = list(c.slots) + [0] * (3 - len(c.slots))
        rows.append("{%d,%d,{%d,%d,%d},{%d,%d,%d},%d,%d,%d,cc_f%d,ref_f%d}" %
                    (root, len(c.slots), st[0], st[1], st[2], gi[0], gi[1], gi[2], c.rt, c.final, 1 if c.typed else 0, i, i))
    d.append("static const MNode nodes[] = {%s};" % ",\n".join(nodes + ["{0,0,0,0,0,0}"]))
    d.append("typedef struct { int n; const long *iv; const long double *fv; } Grid;")
    gl = []
    for (t, kind), gidx in grids.items():
        vals = grid_values(t, kind)
        if is_fp(t):
            d.append("static const long double fgrid%d[] = {%s};" % (gidx, ",".join(ld_lit(v) for v in vals)))
            gl.append("{%d, 0, fgrid%d}" % (len(vals), gidx))
        else:
            d.append("static const long igrid%d[] = {%s};" % (gidx, ",".join(int_lit(v) for v in vals)))
            gl.append("{%d, igrid%d, 0}" % (len(vals), gidx))
    d.append("static const Grid grids[] = {%s};" % ",".join(gl + ["{0,0,0}"]))
    d.append("typedef struct { int root, ns, st[3], g[3], rt, final, typed; void (*cc)(void); void (*ref)(void); } Row;")
    d.append("static const Row rows[] = {%s};" % ",\n".join(rows + ["{0}"]))
    d.append("#define NROWS %d" % len(cases))
    d.append("typedef struct { int t; unsigned char want[10]; const void *cc_static, *ref_static; void (*cc)(void); void (*ref)(void); } KRow;")
    kr = []
    for i, (cid, sp, t, want) in enumerate(consts):
        kr.append("{%d,{%s},&cc_K%d,&ref_K%d,cc_k%d,ref_k%d}" % (t, ",".join(str(b) for b in want), i, i, i, i))
    d.append("static const KRow krows[] = {%s};" % ",\n".join(kr + ["{0}"]))
    d.append("#define NKROWS %d" % len(consts))
    d.append(DRIVER_MAIN)
    build_batch.nfold = nfold
    return unit, "\n".join(d) + "\n"


class _C:
    chibicc = None


def _run_batch(args):
    chibicc, wd, bidx, cases, consts = args
    c = _C(); c.chibicc = chibicc
    unit, drv = build_batch(cases, consts)
    # folded cases: gcc refuses 0.0/0.0 and 1.0/0.0 in integer constant expressions unless it may assume that they do not trap
    res = twin.twin_run(c, wd, "b%d" % bidx, unit, drv, run_timeout=900, ref_flags=REF_FOLD if any(x.fold for x in cases) else (),
                        extra_units=["-latomic"])
    res["nfold"] = dict(build_batch.nfold)
    if res["status"] == "ok" and cases and (res["code"] != 0 or not re.search(r"^S evals=", res["stdout"], re.M)):
        # The driver did not reach its end: code under test damaged the process outside the guarded call (stack, x87 or
        # SSE state used by the driver's own code, an endless loop).  Every case again, each in a process of its own.
        exe = os.path.join(wd, "b%d.exe" % bidx)
        lines, died, tot = [], [], [0] * 6
        for i in range(len(cases)):
            st, out, err = core.run_limited([exe, str(i)], cwd=wd, timeout=600)
            m = re.search(r"^S evals=(\d+) skipped=(\d+) odis=(\d+) j2=(\d+) j1=(\d+) kj=(\d+)", out, re.M)
            if st == "timeout":
                res["single_timeout"] = cases[i].cid
                return bidx, res
            if st != 0 or not m:
                died.append((i, st)); continue
            lines += [l for l in out.splitlines() if not l.startswith("S ")]
            tot = [a + int(b) for a, b in zip(tot, m.groups())]
        res["whole_batch_code"] = res["code"]
        res["died"] = died
        res["code"] = 0
        res["stdout"] = "\n".join(lines + ["S evals=%d skipped=%d odis=%d j2=%d j1=%d kj=%d" % tuple(tot)]) + "\n"
    return bidx, res


def _bisect_ccfail(chibicc, wd, cases, consts):
    """Find the single cases / constants chibicc rejects (compile only)."""
    c = _C(); c.chibicc = chibicc
    bad = []
    stack = [(cases, consts)]
    n = 0
    while stack and n < 300:
        cs, ks = stack.pop()
        unit, drv = build_batch(cs, ks)
        p = os.path.join(wd, "bis.c")
        with open(p, "w") as f:
            f.write(twin.PRELUDE + unit)
        ok, stage, st, err = twin.cc_compile(c, p, os.path.join(wd, "bis.o"), ["-DPFX=cc_"], cwd=wd)
        n += 1
        if ok:
            continue
        if len(cs) + len(ks) == 1:
            bad.append(((cs[0].cid if cs else ks[0][0]), stage, st, err, twin.PRELUDE + unit))
        elif len(cs) > 1:
            stack.append((cs[:len(cs) // 2], ks)); stack.append((cs[len(cs) // 2:], []))
        elif cs:
            stack.append((cs, [])); stack.append(([], ks))
        else:
            stack.append(([], ks[:len(ks) // 2])); stack.append(([], ks[len(ks) // 2:]))
    return bad


REF_FOLD = ["-fno-trapping-math"]
REPLAY = ("# rebuilds the single case and compares chibicc against gcc -O0 and the model on the whole operand grid\n"
          "$CHIBICC -DPFX=cc_ -c -o cc.o unit.c || exit 1\n"
          "gcc -O0 -fwrapv -fno-builtin -fno-pie -fcommon -std=gnu11 -w $(cat refflags.txt) -DPFX=ref_ -c -o ref.o unit.c || exit 0\n"
          "gcc -O1 -w -std=gnu11 -fno-pie -no-pie -o drv driver.c cc.o ref.o -Wl,-z,noexecstack -latomic -lm || exit 0\n"
          "./drv > out.txt; rc=$?\n"
          "if [ \"$(cat expect.txt)\" = DRIVER-DIES ]; then [ $rc -ne 0 ] && exit 1; exit 0; fi\n"
          "grep -qF -- \"$(cat expect.txt)\" out.txt && exit 1\nexit 0")
MODEL_H = os.path.join(core.VERIF, "harness/c02_model.h")


def replay_files(cases, consts, expect):
    u1, d1 = build_batch(cases, consts)
    return {"unit.c": twin.PRELUDE + u1, "driver.c": d1.replace('"%s"' % MODEL_H, '"c02_model.h"'), "c02_model.h": open(MODEL_H).read(),
            "expect.txt": expect, "refflags.txt": " ".join(REF_FOLD) if any(c.fold for c in cases) else ""}


def case_fn(c):
    """One-line description of what the case function computes."""
    if c.fold:
        return "constant expression %s (a, b, c = operands spelled as constants; evaluated by the compiler: %s)" % (
            c.fexpr.format("a", "b", "c"), {"static": "element of a static initializer", "condinit": "condition of ?: in a static initializer",
                                            "bound": "array bound", "enum": "enumerator value", "case": "case label"}[c.fold])
    return c.body or "FN(R_%s) = %s;" % (TN[c.rt], text(c.tree))


MAX_ARTEFACTS = 80
_pending = {}


def report(ctx, sig, desc, mk_files):
    """Collect a violating case; flush_reports() hands them to ctx.violation in signature order."""
    if sig in _pending:
        _pending[sig][2] += 1
    else:
        _pending[sig] = [desc, mk_files, 1]


def flush_reports(ctx):
    """The replay artefact (about 60 KB) is built for the first case of a signature, and only for the first MAX_ARTEFACTS
    signatures in sorted order - the ones ctx.finish() re-runs and prints; a tree with a systematic defect produces
    hundreds of signatures."""
    n = 0
    for sig in sorted(_pending):
        desc, mk, count = _pending[sig]
        if n < MAX_ARTEFACTS:
            new = ctx.violation(sig, desc, files=mk(), replay=REPLAY)
        else:
            new = ctx.violation(sig, desc + " [no artefact written: more than %d signatures in this run]" % MAX_ARTEFACTS)
        if new:
            n += 1
        for _ in range(count - 1):
            ctx.violation(sig, desc)
    _pending.clear()


def sig_class(cid):
    """Construct class used in signatures.  Layers A, B, D, E, L: the case id (construct, operator, type pair).  Layer C
    (compositions; the root cause is a primitive of layers A/B): shape and operators, operand types dropped."""
    p = cid.split("/")
    if p[0] == "D" and p[-1] == "alt-spelling":       # layer D: the spelling of NaN/infinity operands is not part of the class
        return "/".join(p[:-1])
    if p[0] != "C":
        return cid
    return "/".join(p[:-1])


def conv_requirements():
    """(src, dst) -> set of operand classes that must occur among judged tuples: every cast_table cell that involves a
    floating type (plus the _Bool path) on both sides of its internal branches (sign, 2^31, 2^63)."""
    NEG, GE63, GE31, SMALL = 4, 8, 16, 32
    req = {}
    for s in range(NT):
        for d in range(NT):
            if not (is_fp(s) or is_fp(d)) or s == d: continue
            need = {SMALL}
            if is_fp(s) and is_fp(d):
                need |= {NEG, GE31, GE63}
            elif is_fp(d):                         # integer source: classes the source type can hold
                if not UNS[s]: need.add(NEG)
                if s in (UINT, LONG, ULONG): need.add(GE31)
                if s == ULONG: need.add(GE63)
            else:                                  # floating source: classes whose truncation the target can hold
                if not UNS[d] or d == 0: need.add(NEG)      # (_Bool)-x is defined for every x
                if d in (UINT, LONG, ULONG, 0): need.add(GE31)
                if d in (ULONG, 0): need.add(GE63)
                if d == 0: need |= {1, 2, 64}      # NaN, inf, -0 -> _Bool are defined
            req[(s, d)] = need
    return req


def run(ctx):
    _pending.clear()
    cases = gen_cases(ctx.tier)
    consts = const_rows(gen_consts())
    ids = [c.cid for c in cases] + [k[0] for k in consts]
    if len(set(ids)) != len(ids):
        dup = sorted(set(x for x in ids if ids.count(x) > 1))[:5]
        raise core.HarnessError("generator produced duplicate case ids: %s" % dup)
    per = 700
    folded = sorted((c for c in cases if c.fold), key=lambda c: -c.ntuples())
    plain = [c for c in cases if not c.fold]
    # expensive rows first so that the shards are balanced
    nb = max(1, (len(plain) + per - 1) // per)
    if nb > core.NPROC:
        nb = (nb + core.NPROC - 1) // core.NPROC * core.NPROC
    # folded cases: one constant expression per operand tuple; about 25 000 expressions per unit
    fold_tuples = sum(c.ntuples() for c in folded)
    nf = max(1, (fold_tuples + 24999) // 25000)
    nf = (nf + core.NPROC - 1) // core.NPROC * core.NPROC
    # round-robin so that the expensive rows (large grids) are spread over the shards
    # (the short folded and constant batches first: a deadline on an overloaded machine then cuts off no whole layer)
    batches = [(folded[i::nf], []) for i in range(nf) if folded[i::nf]] + [([], k) for k in core.chunks(consts, 600)] + [(plain[i::nb], []) for i in range(nb)]
    if ctx.seed:
        batches = batches[ctx.seed % len(batches):] + batches[:ctx.seed % len(batches)]
    args = [(ctx.chibicc, os.path.join(ctx.work, "b%d" % i), i, b, k) for i, (b, k) in enumerate(batches)]
    evals = skipped = odis = j2 = j1 = kj = 0
    judged_cases = 0
    done = 0
    conv_cover = {}
    outcomes = set()
    nfold = {}
    # one pool for all batches (no barrier between groups of them); results are handled in batch order afterwards
    results = {}
    with ProcessPoolExecutor(max_workers=min(core.NPROC, len(args))) as ex:
        futs = [ex.submit(_run_batch, a) for a in args]
        for fu in as_completed(futs):
            bidx, res = fu.result()
            results[bidx] = res
            if ctx.out_of_time(reserve=60) and len(results) < len(futs):
                for f2 in futs:
                    f2.cancel()
                ctx.incomplete("deadline: %d of %d batches finished" % (len(results), len(batches)))
                break
    for _ in (0,):
        for bidx, res in sorted(results.items()):
            done += 1
            bc, bk = batches[bidx]
            if res["status"] == "harness":
                raise core.HarnessError("reference side failed in batch %d (%s): %s" % (bidx, res["stage"], res["stderr"][-1500:]))
            if res["status"] == "cc-fail":
                for cid, stage, st, err, src in _bisect_ccfail(ctx.chibicc, ctx.mkdir("bis%d" % bidx), bc, bk):
                    first = (err.strip().splitlines() or [""])[-1][:200]
                    ctx.violation("C02|rejected|%s|%s:%s" % (cid, stage, st), "valid program rejected/crashed: %s -> %s" % (cid, first),
                                  files={"unit.c": src}, replay="$CHIBICC -DPFX=cc_ -c -o cc.o unit.c && exit 0; exit 1")
                continue
            if res.get("single_timeout"):
                raise core.HarnessError("driver of batch %d ended with %s and case %s alone ran into the timeout" % (bidx, res["code"], res["single_timeout"]))
            if res["code"] != 0:
                raise core.HarnessError("driver crashed in batch %d: code=%s %s" % (bidx, res["code"], res["stderr"][-500:]))
            if "died" in res:
                if not res["died"]:
                    raise core.HarnessError("driver of batch %d ended with %s, but every case of it runs to its end alone" % (bidx, res["whole_batch_code"]))
                for i, st in res["died"]:
                    c = bc[i]
                    report(ctx, "C02|value|%s|process-damaged" % sig_class(c.cid),
                           "%s { %s }: the test process does not survive this case (ends with %s outside the call of the function: "
                           "the function damaged state of its caller)" % (c.cid, case_fn(c), st), lambda c=c: replay_files([c], [], "DRIVER-DIES"))
            out = res["stdout"]
            m = re.search(r"^S evals=(\d+) skipped=(\d+) odis=(\d+) j2=(\d+) j1=(\d+) kj=(\d+)", out, re.M)
            if not m:
                raise core.HarnessError("no summary from driver batch %d" % bidx)
            for k, v in res.get("nfold", {}).items():
                nfold[k] = nfold.get(k, 0) + v
            e_, s_, o_, a_, b_, k_ = (int(x) for x in m.groups())
            evals += e_; skipped += s_; odis += o_; j2 += a_; j1 += b_; kj += k_
            for line in out.splitlines():
                f = line.split(" ", 4)
                if line.startswith("J "):
                    i, jj, jj1, sk, cov = (int(x) for x in line.split()[1:6])
                    if jj + jj1 > 0:
                        judged_cases += 1
                    c = bc[i]
                    if c.conv:
                        conv_cover[c.conv] = conv_cover.get(c.conv, 0) | cov
                elif line.startswith("O "):
                    ctx.sample({"oracle_disagreement": line, "case": (bc[int(f[1])].cid if f[1].isdigit() else bk[int(f[1][1:])][0])}, limit=12)
                elif line.startswith("T "):
                    i = int(f[1]); c = bc[i]
                    mm = re.match(r"T \d+ cc=(-?\d+),(-?\d+) want=(\d+),(\d+)", line)
                    got = TN[int(mm.group(1))] if 0 <= int(mm.group(1)) < NT else mm.group(1)
                    report(ctx, "C02|type|%s|got=%s,want=%s" % (c.cid, got, TN[int(mm.group(3))]),
                           "type of %s is %s (sizeof %s), C11 says %s" % (text(c.tree), got, mm.group(2), TN[int(mm.group(3))]),
                           lambda c=c: replay_files([c], [], "T 0 "))
                elif line.startswith("V "):
                    i = int(f[1]); c = bc[i]
                    key, cnt, ex = f[2], f[3], f[4]
                    outcomes.add(key)
                    fn = case_fn(c)
                    report(ctx, "C02|value|%s|%s" % (sig_class(c.cid), key), "%s { %s }: %s (%s failing operand tuples in this class)" % (c.cid, fn, ex, cnt),
                           lambda c=c, key=key: replay_files([c], [], "V 0 %s " % key))
                elif line.startswith("KT ") or line.startswith("KV "):
                    i = int(f[1]); k = bk[i]
                    kp = k[0].split("/")
                    kind = kp[1] + "-" + (kp[2] if kp[2] in ("boundary", "neg") else "plain")     # dec|hex - how the spelling was chosen
                    suf = k[0].rsplit("/", 1)[1]
                    w = int.from_bytes(k[3], "little")
                    efield = (w >> 23) & 0xff if k[2] == FLOAT else (w >> 52) & 0x7ff if k[2] == DOUBLE else (w >> 64) & 0x7fff
                    rng = "subnormal-range" if efield == 0 else "normal-range"
                    if line.startswith("KT "):
                        sig = "C02|consttype|%s/%s/%s" % (kind, TN[k[2]], suf); exp = "KT 0 "
                    else:
                        sig = "C02|const|%s/%s/%s|%s|%s|%s" % (kind, TN[k[2]], suf, rng, f[2], f[3]); exp = "KV 0 %s %s " % (f[2], f[3])
                    report(ctx, sig, "constant %s (%s): %s" % (k[1] if len(k[1]) < 90 else k[1][:40] + "..." + k[1][-40:], TN[k[2]], line),
                           lambda k=k, exp=exp: replay_files([], [k], exp))
    flush_reports(ctx)
    if odis:
        raise core.HarnessError("model and gcc disagree on %d tuples (see evidence samples) - the model must be corrected" % odis)
    # coverage assertion over the conversion table, derived from type pairs
    if ctx.exhaustive:
        missing = []
        for (s, d), need in sorted(conv_requirements().items()):
            got = conv_cover.get((s, d), 0)
            miss = [n for n in sorted(need) if not got & n]
            if miss:
                missing.append("%s->%s:%s" % (TN[s], TN[d], miss))
        if missing:
            raise core.HarnessError("conversion cells not exercised on both sides of their branches: %s" % ", ".join(missing[:20]))
        ctx.cover(conversion_cells_covered=len(conv_requirements()))
    ctx.cover(evaluations=evals, skipped_undefined=skipped, cases=len(cases), constants=len(consts), constants_judged=kj,
              judged_two_oracles=j2, judged_gcc_only=j1, distinct_nontrivial=judged_cases + kj,
              rule="one case = one (construct, operator, operand-type tuple) function evaluated on the full class-boundary grid of its operand "
                   "types, or one floating constant spelling observed as static object and run-time value; non-trivial = at least one operand "
                   "tuple had a defined result on which the soft-float model and gcc -O0 agreed (constants: rational model and gcc agreed)",
              translation_time_expressions=sum(nfold.values()), translation_time_by_context=json.dumps(nfold, sort_keys=True),
              cases_by_layer=json.dumps({k: sum(1 for c in cases if c.cid.startswith(k + "/")) for k in "ABCDEL"}, sort_keys=True),
              layers_round3="D: the operators, conversions and compositions of A-C with constant operands (NaN as 0.0/0.0 and inf-inf, infinity as 1.0/0.0 "
                            "and MAX*2, -0 as -0.0 and 0.0*-1.0, finite values as exact hexadecimal constants, integers as casts of constants) that the "
                            "compiler must evaluate itself: static array initializer element (all), and for 0/1-valued expressions and floating->integer "
                            "casts also ?: condition in an initializer, file-scope array bound, enumerator, case label; grids small^2 / full / tiny^3. "
                            "E: integer->floating conversion of unstored intermediate values of the 9 integer types ((S)wider, (S)floating, -x, ~x, "
                            "x op y for + - * / & | ^, call result, ?:, comma, assignment value, (S)constant) x 3 floating types x consumers (cast, init, "
                            "+ - < <= with the expression on either side; thorough also argument, return, op=, > >=). L: 12 evaluations of a discarded "
                            "floating expression (12 forms) in 11 statement/expression positions x 3 types before an observed product; + - * / and six "
                            "comparisons repeated 12 times; x87 tag word and top compared around every case function. B2: ++ -- op= on _Atomic "
                            "(float, double, _Bool), pointer-dereference, member and element lvalues",
              layers="A: 12 binary ops (+ - * / < <= > >= == != && ||) x 63 type pairs with a floating operand, unary - ! + x 3, 144 casts "
                     "(plain and widened), ?: and comma x 63; B: init/assign/assign-global/assignment-value/argument/return x 144 pairs, variadic "
                     "promotion, 4 op= x 63 (global and local), ++/-- x 3 (global and local), 11 truth contexts x 3, if(a cmp b) x 54; "
                     "C: (a o1 b) o2 c, unary-of-binary, binary-of-negation, cast-of-binary over rank representatives; "
                     "K: decimal and hexadecimal constants x suffixes {none,f,F,l,L} at rounding boundaries of the three formats")
    for c in (cases[0], cases[len(cases) // 3], [x for x in cases if x.cid.startswith("E/")][7], [x for x in cases if x.cid.startswith("L/")][3], cases[-1]):
        ctx.sample({"case": c.cid, "function": case_fn(c),
                    "grid_sizes": [len(grid_values(t, g)) for t, g in zip(c.slots, c.grids())]})
    ctx.sample({"constant": consts[len(consts) // 2][0], "spelling": consts[len(consts) // 2][1][:80]})
    if ctx.exhaustive:
        if judged_cases < len(cases) * 0.95:
            raise core.HarnessError("vacuous: only %d of %d cases had judged tuples" % (judged_cases, len(cases)))
        if kj < len(consts):
            raise core.HarnessError("vacuous: only %d of %d constants judged" % (kj, len(consts)))
        miss = [k for k in FOLD_CONTEXTS if nfold.get(k, 0) < 1000]
        if miss:
            raise core.HarnessError("vacuous: fewer than 1000 constant expressions written in the contexts %s" % miss)
        for l in "ABCDEL":
            if not any(c.cid.startswith(l + "/") for c in cases):
                raise core.HarnessError("vacuous: layer %s was not generated" % l)
        if j2 < 10 * j1:
            raise core.HarnessError("vacuous: the model covered too few tuples (%d modelled, %d gcc-only)" % (j2, j1))
    ctx.assume("IEC 60559 (Annex F) semantics as on the reference platform: round-to-nearest-even for int->fp, fp->fp and arithmetic; x/0, overflow to "
               "infinity and NaN propagation are defined; out-of-range fp->integer conversions are undefined (6.3.1.4) and skipped")
    ctx.assume("out-of-range conversion to a signed integer type wraps (implementation-defined, as the platform documents)")
    ctx.assume("NaN payloads and NaN signs are not compared (any NaN equals any NaN)")
    ctx.assume("gcc 12 -O0 and the binary128 soft-float model agree on every judged tuple (enforced; disagreement = harness error); long double "
               "arithmetic results that look like exact ties in binary128, or are x87 subnormal and off-grid, are judged by gcc alone (counted)")
    ctx.assume("operand values off the grid are not explored; rounding modes other than to-nearest and exception flags are out of scope")
