typedef int;
typedef int *;
