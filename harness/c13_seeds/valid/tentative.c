int x;
int x;
extern int y;
int y = 3;
static int z;
int f(void) { extern int w; return w + x + y + z; }
