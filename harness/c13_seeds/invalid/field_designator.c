struct S { int a; } s = {. 1 = 2};
