long q = 9223372036854775807 / 3;
long r = -7 % 2;
int v[10 / 2 + 1];
#if 9 / 3 != 3 || 9 % 4 != 1
#error arith
#endif
