int a[0];
int b[2] = {1, 2, 3};
char c[2] = "abc";
