#if __COUNTER__ < C13_DEPTH
#include "c13_nest.h"
#endif
