"""C20  Evaluation leaves no residue on the machine stack or the x87 stack.

Two cooperating parts over one bounded-exhaustive set of generated functions:

 (A) abstract-state model checking of the emitted assembly.  Every function of chibicc's output is parsed into a
     CFG (labels, numeric local labels, jmp/jcc, `jmp *reg` over the address-taken label set, ret) and searched
     exhaustively over abstract states (pc, rsp_delta, x87_depth, rbp).  Invariants: every pc is reached with one
     (rsp_delta, x87_depth) only - so a loop has zero net effect for *any* iteration count (fixpoint, not a
     repetition count); 0 <= x87_depth <= 8; at `ret` rsp_delta = 0 and x87_depth = 1 for long double functions,
     0 otherwise; at the statement-level probe calls x87_depth = 0 and rsp_delta is the same at every probe.
     rsp_delta is irrelevant (dead) where every continuation overwrites %rsp from the frame pointer first.
     Unknown mnemonics, unknown callees, unrecognised dynamic %rsp updates: function is "unmodelled" (counted).
 (B) binding to the machine.  The same functions are executed (gcc driver + asm probes reading %rsp and the x87 tag
     word): N = 1, 2, 9 calls with loop count 1, then loop counts 1 and 1000 with a probe in the loop body.  Measured
     x87/rsp deltas must be 0 and equal the model's prediction; the result state (return value + all slots) must equal
     the gcc -O0 twin's; a gcc-compiled long double computation must still be right after the calls.

Generator: expression forms x result type {int,long,float,double,long double,int*,struct S (regs),struct L (memory),
void} x consumption context, indexed by size (number of composite nodes).  See `rule` in the evidence.  Operands whose
value is dropped or only tested range over every type: the left operand of the comma operator {all 8 types, void}, the
condition of ?: {the int flag gc, and an operand of every scalar type incl. long double and pointer}, ?: with exactly one
void arm and an arm of every type (result void), the void leaf `(void)0` in every void position.  `.member` is applied to
every struct-valued form (lvalue context: gen_addr): comma with a left operand of every type, ?: with struct arms and a
condition of every type, struct assignment, calls returning structs in registers / memory, and statement expressions when
the compiler under test accepts `({ s; }).m` (capability probe in run(); the pinned tree rejects it - reported once as
`C20|member-of-stmtexpr|cc-fail`).

Operand TYPE PAIRS (mixed_forms): the operators that do not bring their operands to a common type, and the implicit
conversions around those that do, are enumerated over every ordered pair of operand types - `&&` `||` over 6 x 6 scalar types
(left operand `g[6 + gc]`: zero for gc = 0, non-zero for gc = 1, so that the right operand IS evaluated and tested; right
operand non-zero and, in the `z` variant, zero), GNU `?:` over 5 x 5 arithmetic pairs and pointers, the six comparisons and
+ - * / over the 20 mixed arithmetic pairs (% & | ^ << >> for int x long), pointer +- long, ?: arms of mixed types (condition
int flag / long double), `=` and every `op=` over destination x source pairs, arguments converted to the parameter
type, `return` converted to the return type.  Size 1 in every context; thorough also replaces either operand of the binary
forms by every size-1 expression of its type (contexts initializer and pending long double).
Pending-operand contexts: E evaluated while an operand of type X is pending - `rX = gX[3] + (X)E` for X in {int, long, float,
double (machine stack), long double (x87 stack)}, `ge[3] < E`, `ge[2] * (ge[3] + E)`, and as the argument evaluated after /
before a long double argument (`mT(E, ge[3])`, `nT(ge[3], E)`) - for every expression form of every type, in particular calls
of chibicc-compiled callees of every return class (void, char, _Bool, short, int, long, float, double, long double, pointer,
struct in registers, struct in memory, struct {long double} returned in %st0).  The value must equal the gcc twin's, so a
pending operand destroyed by E is seen as a wrong value as well as a depth change.
`(void)(void)E` for every size-1 E of every type in every value-dropping context (statement, for-increment, comma, return in a
void function, under a pending long double), loop counts 1 and 1000.
x87 state instructions: `emms` `femms` `fninit` `finit` empty the whole register stack (own values pending: anomaly
x87-stack-wiped-with-values-pending; the function is summarised as "empties the x87 stack of its caller" and every call site
that holds x87 values reports `C20|callee=<name>|S:callee-changes-x87-stack-of-caller`, callers re-modelled to a fixpoint);
`ffreep %st(0)` and `ffree %st(0); fincstp` are pops, `ffree` of a register the function does not own is an anomaly, other tag /
TOP manipulation leaves the function unmodelled.  When the model cannot be used on a tree (vocabulary lost, nothing
validated) the machine measurements still give verdicts; a run without any verdict is then a harness error.

Conversions between all 13 arithmetic types {_Bool, char, signed/unsigned char, short, unsigned short, int, unsigned, long,
unsigned long, float, double, long double} (156 ordered pairs x 3 contexts: initializer, discarded, operand of pending
integer and long double additions) are executed once per operand VALUE of a class-boundary grid of the source type (28
integer values on both sides of 0, 2^7, 2^8, 2^15, 2^16, 2^31, 2^32, 2^63; 39 floating values on both sides of the same
boundaries and 2^64, negative, truncating to zero, +-inf, +-NaN), the x87 tag word, TOP and %rsp being read after every value,
so that each path inside a multi-instruction conversion sequence (`;`-separated instructions with jumps to local numeric
labels on one line, which the model follows like any other code) is also bound to the machine.  The result is compared
with the gcc twin only where C11 defines the conversion; residue is judged for every value (`(ub-operand)` marks anomalies
that only operands with an undefined conversion show).

Signatures name the *simplest* enumerated case that shows the anomaly (root-cause attribution): the consumption
context with a plain variable (`C20|ctx=exprstmt|ty=e|...`), else the smallest sub-expression / its form with plain
operands in the neutral context `T v = E` (`C20|form=assign.e(v)|...`); jumps out of statement expressions are one
class per jump kind and leaked resource (`C20|jump-out-of-stmtexpr|break|leaks=rsp`).
Anomaly tokens: `S:` from the model (callee-changes-x87-stack-of-caller, x87-stack-wiped-with-values-pending(mn),
x87-register-of-caller-freed, x87-underflow, x87-at-return=+k, x87-not-single-valued, rsp-not-single-valued(-k),
rsp-at-return, x87-at-statement-boundary, rsp-differs-between-statement-boundaries), `D:` measured on the machine
(x87-per-call=+k, x87-top-moved=k, rsp-drift-in-loop=-k/iteration, result-differs-from-gcc-twin, crash-signalN); for
conversions `C20|conv=<from>><to>|...` with `D:<anomaly>@<value classes showing it>`, classes neg, lt2^31, ge2^31, ge2^32,
ge2^63, ge2^64, inf, nan.

`python3 checks/c20.py replay <dir> <chibicc>` re-runs one case from a replay directory (exit 1 = reproduces).
"""
import os, re, sys, json, itertools, hashlib

if __name__ == "__main__":
    sys.path.insert(0, os.path.dirname(os.path.dirname(os.path.abspath(__file__))))
from vlib import core, twin

LEVEL = "model_checking"
BUDGET = {"quick": 1200, "thorough": 7200}
BATCH = 1500

HARNESS = os.path.join(core.VERIF, "harness")

# =====================================================================================================
# Part 0: generator
# =====================================================================================================
ARITH = "ilfde"
SCALAR = "ilfdep"
ALLT = "ilfdepSL"
CT = {"i": "int", "l": "long", "f": "float", "d": "double", "e": "long double", "p": "int *", "S": "S", "L": "L", "v": "void"}
GV = {"i": "gi", "l": "gl", "f": "gf", "d": "gd", "e": "ge", "p": "gp", "S": "gs", "L": "gL"}
RV = {"i": "ri", "l": "rl", "f": "rf", "d": "rd", "e": "re", "p": "rp", "S": "rs", "L": "rL"}
CONST = {"i": "3", "l": "30L", "f": "0.5f", "d": "0.5", "e": "0.5L"}
LVSLOT = [0, 1, 4, 5]          # lvalue slot of the composite node with pre-order index 0,1,2,3 (distinct objects:
                               # no unsequenced modifications of one object inside an expression)
ARITH_OPS = {"i": ["+", "-", "*", "/", "%", "&", "|", "^", "<<", ">>"], "l": ["+", "-", "*", "/", "%", "&", "|", "^", "<<", ">>"],
             "f": ["+", "-", "*", "/"], "d": ["+", "-", "*", "/"], "e": ["+", "-", "*", "/"]}
CMP_OPS = ["==", "!=", "<", "<=", ">", ">="]
OPNAME = {"+": "add", "-": "sub", "*": "mul", "/": "div", "%": "mod", "&": "and", "|": "or", "^": "xor", "<<": "shl",
          ">>": "shr", "==": "eq", "!=": "ne", "<": "lt", "<=": "le", ">": "gt", ">=": "ge"}
LEAF_RHS = ("/", "%", "<<", ">>")      # right operand restricted to a read-only leaf (never 0, shift count in range)
REP_ARITH = ("+",)                      # representative operators used as *parents* at size 3
REP_CMP = ("<",)
REP_DROP = "ie"                         # size 3: types of dropped operands (comma lhs, non-void arm of a one-void-arm ?:)
REP_COND = "e"                          # size 3: types of the condition operand of a typed ?:
SAFE_DEREF = ("v", "assign", "cond", "comma", "call", "stmtexpr", "addr", "complit", "elvis")
UNSAFE_PTR = ("padd", "psub", "asg.p", "inc.p", "dec.p", "cast.l>p")      # pointer may leave gi[]: never dereferenced


def far_pointer(d):
    """pointer arithmetic with a non-leaf integer operand: the result may be far outside gi[]"""
    return any(w in d for w in ("padd(", "psub(", "addasg.p(", "cast.l>p(")) and d not in ("padd(v,v)", "psub(v,v)", "addasg.p(v)", "cast.l>p(v)")


class Gen:
    """exprs(T, n, idx, reps) -> list of (text, desc): all expressions of type T with exactly n composite nodes;
    idx = pre-order index of the root among the composite nodes of the whole expression (selects lvalue slots)."""

    def __init__(self, stmtexpr_member_ok=False):
        self.memo = {}
        self.stmtexpr_member_ok = stmtexpr_member_ok

    def leaf(self, T, pos):
        if T == "v":
            return [("((void)0)", "v")]
        if pos == 2:
            # condition operand of a typed ?: - slot [6] is zero / null, slot [7] is not: the driver's gc selects the arm
            return [("%s[6 + gc]" % GV[T], "v")]
        return [("%s[%d]" % (GV[T], 2 + pos), "v")]

    def sub(self, T, n, idx, pos, reps):
        if n == 0:
            return self.leaf(T, pos)
        return self.exprs(T, n, idx, reps)

    def exprs(self, T, n, idx=0, reps=False):
        key = (T, n, idx, reps)
        if key in self.memo:
            return self.memo[key]
        out = []
        self.memo[key] = out
        if n == 0:
            out.extend(self.leaf(T, 0))
            return out
        m = n - 1
        rp = reps and n >= 3           # restrict parent operators to representatives
        rq = reps                      # inside size-3 trees: representative operand types for the typed ?: / comma / one-void-arm forms
        lv = LVSLOT[idx]
        A = lambda U, k=m, pos=0, i=idx + 1: self.sub(U, k, i, pos, reps)

        def un(fmt, name, U):
            for s, d in A(U):
                if name.startswith("member.") and not self.stmtexpr_member_ok and addr_spine_is_stmtexpr(d):
                    continue        # chibicc rejects member access on a statement expression ("not an lvalue"): see run()
                out.append((fmt % s, "%s(%s)" % (name, d)))

        def bi(fmt, name, U1, U2, leaf_rhs=False):
            for a in range(m, -1, -1):
                b = m - a
                if leaf_rhs and b:
                    continue
                for (s1, d1) in self.sub(U1, a, idx + 1, 0, reps):
                    for (s2, d2) in self.sub(U2, b, idx + 1 + a, 1, reps):
                        if "bf" in d1 and "bf" in d2:
                            continue        # two accesses to the bit-field unit would be unsequenced
                        if (name.endswith(".p") or name == "ptrdiff") and (far_pointer(d1) or far_pointer(d2)):
                            continue        # comparing / subtracting pointers that may have left the object is undefined
                        out.append((fmt % (s1, s2), "%s(%s,%s)" % (name, d1, d2)))

        def tri(fmt, name, U, T1, T2, Us=None):
            for c in range(m, -1, -1):
                for a in range(m - c, -1, -1):
                    b = m - c - a
                    for (s0, d0) in self.sub(U, c, idx + 1, 2, reps):
                        for (s1, d1) in self.sub(T1, a, idx + 1 + c, 0, reps):
                            for (s2, d2) in self.sub(T2, b, idx + 1 + c + a, 1, reps):
                                if ("bf" in d0) + ("bf" in d1) + ("bf" in d2) > 1:
                                    continue
                                out.append((fmt % (s0, s1, s2), "%s(%s,%s,%s)" % (name, d0, d1, d2)))

        if T in ARITH:
            un("(-%s)", "neg." + T, T)
            if T in "il":
                un("(~%s)", "bitnot." + T, T)
            for op in ARITH_OPS[T]:
                if rp and op not in REP_ARITH:
                    continue
                bi("(%%s %s %%s)" % op.replace("%", "%%"), OPNAME[op] + "." + T, T, T, op in LEAF_RHS)
            for U in ARITH:
                if U != T:
                    un("((%s)%%s)" % CT[T], "cast.%s>%s" % (U, T), U)
            if T == "l":
                un("((long)%s - (long)gi)", "cast.p>l", "p")       # address-independent value
                bi("(%s - %s)", "ptrdiff", "p", "p")
                un("(%s.a)", "member.Sa", "S")
                un("(%s.a[1])", "member.La", "L")
                if m == 0:
                    out.append(("gb.z", "bfread.z"))
                for s, d in A("l"):
                    if "bf" not in d:
                        out.append(("(gb.z = (%s & 255))" % s, "bfstore.z(%s)" % d))
            if T == "i":
                for U in SCALAR:
                    un("(!%s)", "not." + U, U)
                    for op in CMP_OPS:
                        if rp and op not in REP_CMP:
                            continue
                        bi("(%%s %s %%s)" % op, OPNAME[op] + "." + U, U, U)
                    bi("(%s && %s)", "land." + U, U, U)
                    bi("(%s || %s)", "lor." + U, U, U)
                for U in SCALAR:
                    un("((_Bool)%s)", "cast.%s>b" % U, U)
                for U in ARITH:
                    un("((char)%s)", "cast.%s>c" % U, U)
                for s, d in A("p"):
                    if d.split("(")[0].split(".")[0] in SAFE_DEREF and not any(w in d for w in UNSAFE_PTR):
                        out.append(("(*%s)" % s, "deref(%s)" % d))
                un("(%s.b)", "member.Sb", "S")
                for s, d in A("i"):
                    out.append(("(gs[%d].c = %s)" % (lv, s), "mstore(%s)" % d))
                    if "bf" not in d:
                        out.append(("(gb.x = (%s & 7))" % s, "bfstore.x(%s)" % d))
                        out.append(("(gb.y += (%s & 1))" % s, "bfaddasg.y(%s)" % d))
                    out.append(("k7(1, 2, 3, 4, 5, 6, %s)" % s, "call.k7(%s)" % d))
                    out.append(("k8(1, 2, 3, 4, 5, 6, 7, %s)" % s, "call.k8(%s)" % d))
                if m == 0:
                    out.append(("gb.x", "bfread.x"))
                    out.append(("(gb.x++)", "bfpostinc.x"))
                    out.append(("(--gb.y)", "bfpredec.y"))
                for U in ALLT:
                    un("h%s(%%s)" % U, "call.h" + U, U)
            if T == "d":
                for s, d in A("d"):
                    out.append(("k9d(1.0, 2.0, 3.0, 4.0, 5.0, 6.0, 7.0, 8.0, %s)" % s, "call.k9d(%s)" % d))
            if T == "e":
                for s, d in A("e"):
                    out.append(("k7e(1, 2, 3, 4, 5, 6, 7, %s)" % s, "call.k7e(%s)" % d))
        if T == "p":
            if m == 0:
                out.append(("(&gi[3])", "addr"))
            bi("(%s + %s)", "padd", "p", "i")
            bi("(%s - %s)", "psub", "p", "i")
            un("((int *)((long)gi + 4 * %s))", "cast.l>p", "l")
            for s, d in A("i"):
                out.append(("(%s[%d] += %s)" % (GV[T], lv, s), "addasg.p(%s)" % d))
        if T in SCALAR:
            for op in (ARITH_OPS[T] if T in ARITH else []):
                if rp and op not in REP_ARITH:
                    continue
                if op in LEAF_RHS and m:
                    continue
                for s, d in A(T, pos=1):
                    out.append(("(%s[%d] %s= %s)" % (GV[T], lv, op, s), "%sasg.%s(%s)" % (OPNAME[op], T, d)))
            if m == 0:
                out.append(("(++%s[%d])" % (GV[T], lv), "preinc." + T))
                out.append(("(--%s[%d])" % (GV[T], lv), "predec." + T))
                out.append(("(%s[%d]++)" % (GV[T], lv), "postinc." + T))
                out.append(("(%s[%d]--)" % (GV[T], lv), "postdec." + T))
        if T in SCALAR:
            un("((%s){%%s})" % CT[T], "complit." + T, T)
            bi("(%s ?: %s)", "elvis." + T, T, T)
        if T != "v":
            # assignment (chains are assign(assign(..))), call returning T with/without argument
            for s, d in A(T):
                out.append(("(%s[%d] = %s)" % (GV[T], lv, s), "assign.%s(%s)" % (T, d)))
                out.append(("id%s(%s)" % (T, s), "call.id%s(%s)" % (T, d)))
            bi("k2%s(%%s, %%s)" % T, "call.k2" + T, T, T)
        if m == 0:
            out.append(("f%s()" % T, "call.f" + T))
        if T == "v":
            for U in ALLT + "v":
                un("((void)%s)", "cast.%s>v" % U, U)
            # ?: with exactly one void arm (accepted by gcc and chibicc; the result is void, the other arm's value is dropped)
            for U in (REP_COND if rq else ALLT):
                bi("(gc ? %s : %s)", "condmix.v" + U, "v", U)
                bi("(gc ? %s : %s)", "condmix.%sv" % U, U, "v")
        # ?: for every type: condition `gc` (plain int flag) and a condition operand of every scalar type
        bi("(gc ? %s : %s)", "cond." + T, T, T)
        for U in (REP_COND if rq else SCALAR):
            tri("(%s ? %s : %s)", "cond.%s?%s" % (U, T), U, T, T)
        # comma with a (discarded) left operand of every type, void included; this is also the lvalue form `(x, s).m`
        for U in (REP_DROP if rq else ALLT + "v"):
            bi("(%s, %s)", "comma.%s>%s" % (U, T), U, T)
        for s, d in A(T):
            out.append(("({ %s; })" % s, "stmtexpr.%s(%s)" % (T, d)))
        return out


def addr_spine_is_stmtexpr(d):
    """does generating the *address* of the (struct-valued) expression `d` reach a statement expression?  gen_addr walks
    through the right operands of comma expressions; everything else is evaluated as a value."""
    while d.startswith("comma."):
        # last top-level argument
        depth = 0
        cut = None
        for i, ch in enumerate(d):
            if ch == "(":
                depth += 1
            elif ch == ")":
                depth -= 1
            elif ch == "," and depth == 1:
                cut = i
        d = d[cut + 1:-1]
    return d.startswith("stmtexpr.")


def zero_of(T):
    return "%s[3]" % GV[T]


# consumption contexts: name -> (applicable types, template).  %(E)s expression, %(T)s C type, %(R)s result slot
LOOP = "int FN(%(F)s)(void) { int k, j; for (k = 0; k < gn; k++) { P; %(BODY)s } return k; }\n"
CTX = {
    "exprstmt": (ALLT + "v", "%(E)s;"),
    "forinc":   (ALLT + "v", None),
    "commalhs": (ALLT + "v", "ri = (%(E)s, gi[3]);"),
    "callarg":  (ALLT, "ri = h%(t)s(%(E)s);"),
    "operandl": (SCALAR + "SL", None),
    "operandr": (ARITH, "%(R)s = %(Z)s + %(E)s;"),
    "init":     (ALLT, "{ %(T)s v = %(E)s; %(R)s = v; }"),
    "if":       (SCALAR, "if (%(E)s) ri = 1; else ri = 2;"),
    "while":    (SCALAR, "j = 0; while (%(E)s) { if (++j >= 2) break; }"),
    "dowhile":  (SCALAR, "j = 0; do { if (++j >= 2) break; } while (%(E)s);"),
    "forcond":  (SCALAR, "for (j = 0; %(E)s; ) { if (++j >= 2) break; }"),
    "condop":   (SCALAR, "ri = %(E)s ? gi[2] : gi[3];"),
    "switch":   ("il", "switch (%(E)s) { case 2: ri = 1; break; case 3: ri = 2; break; default: ri = 3; }"),
    "return":   (ALLT, None),
}
# evaluated while an operand of another type X is pending (pushed on the machine stack / for long double: held on the x87
# register stack): `rX = gX[3] + (X)E` for X in {int,long,float,double,long double} (X = type of E is `operandr`), under a
# pending long double comparison, under two pending long doubles, and as the argument evaluated after / before a long
# double argument.  E of a non-arithmetic type is made arithmetic by as_arith() (p: != 0, struct: .member, void: comma).
for _X in ARITH:
    CTX["pend." + _X] = ("".join(t for t in ALLT + "v" if t != _X), None)
CTX["pendcmp"] = (ALLT + "v", None)
CTX["pendld2"] = (ALLT + "v", None)
CTX["argafter"] = (ALLT, "ri = m%(t)s(%(E)s, ge[3]);")
CTX["argbefore"] = (ALLT, "ri = n%(t)s(ge[3], %(E)s);")
PEND_CTX = ["pend." + _X for _X in ARITH] + ["pendcmp", "pendld2", "argafter", "argbefore"]
PEND_X87 = ("pend.e", "pendcmp", "pendld2")       # the ones that hold a long double on the x87 stack: enumerated one size deeper
MEMBER_CTX = ("operandl", "pendcmp", "pendld2") + tuple("pend." + _X for _X in ARITH)      # apply `.member` to a struct-valued E
CTX_ORDER = ["exprstmt", "forinc", "commalhs", "callarg", "operandl", "operandr", "init", "if", "while", "dowhile",
             "forcond", "condop", "switch", "return"] + PEND_CTX


def as_arith(T, E):
    """an arithmetic rvalue computed from the expression E of type T"""
    if T in ARITH:
        return "(%s)" % E
    return {"p": "(%s != 0)", "S": "(%s).c", "L": "(%s).a[2]", "v": "(%s, gi[3])"}[T] % E


def render_case(ctxname, T, E, F):
    """-> (source text of the case's functions, [(function suffix, returns long double)])"""
    d = {"E": E, "T": CT[T], "t": T, "R": RV.get(T, "ri"), "Z": zero_of(T) if T != "v" else "", "F": "c" + F}
    if ctxname == "forinc":
        return ("int FN(c%s)(void) { int k, j; for (k = 0; k < gn; %s) { P; k++; } return k; }\n" % (F, E), [("c" + F, False)])
    if ctxname == "return":
        if T == "v":
            q = "void FN(q%s)(void) { if (gn) return %s; }\n" % (F, E)
            body = "FN(q%s)();" % F
        else:
            q = "%s FN(q%s)(void) { if (gn) return %s; return %s; }\n" % (CT[T], F, E, zero_of(T))
            body = "%s = FN(q%s)();" % (RV[T], F)
        d["BODY"] = body
        return (q + LOOP % d, [("q" + F, T == "e"), ("c" + F, False)])
    if ctxname.startswith("pend"):
        A = as_arith(T, E)
        if ctxname == "pendcmp":
            body = "ri = ge[3] < %s;" % A
        elif ctxname == "pendld2":
            body = "re = ge[2] * (ge[3] + %s);" % A
        else:
            X = ctxname[5:]
            body = "%s = %s + (%s)%s;" % (RV[X], zero_of(X), CT[X], A)
        d["BODY"] = body
        return (LOOP % d, [("c" + F, False)])
    if ctxname == "operandl":
        if T in ARITH:
            body = "%(R)s = %(E)s + %(Z)s;" % d
        elif T == "p":
            body = "rp = %(E)s + gi[3];" % d
        elif T == "S":
            body = "ri = (%(E)s).c;" % d
        else:
            body = "rl = (%(E)s).a[2];" % d
    else:
        body = CTX[ctxname][1] % d
    d["BODY"] = body
    return (LOOP % d, [("c" + F, False)])


# jumps out of statement expressions nested in pending expressions ------------------------------------------
JUMPS = {
    "break":    "if (j == 1) break;",
    "continue": "if (j == 1) continue;",
    "goto":     "if (j == 1) goto out;",
    "gotoptr":  "if (j == 1) goto *lab;",
    "return":   "if (j == 1 && k == gn - 1) return k + 1;",
    "none":     "",
}


def jump_cases():
    """-> list of (case id, T, ctx-like name, desc, text builder(F))"""
    out = []
    for T in "ildeSp":
        Z = zero_of(T)
        for jn, jt in JUMPS.items():
            SE = "({ %s %s; })" % (jt, "%s[2]" % GV[T])
            shapes = []
            if T in ARITH:
                shapes += [("binop-lhs", "%s = %s + %s;" % (RV[T], SE, Z)), ("binop-rhs", "%s = %s + %s;" % (RV[T], Z, SE)),
                           ("cmp-lhs", "ri = %s < %s;" % (SE, Z)), ("nested-rhs", "%s = %s + (%s + %s);" % (RV[T], Z, Z, SE)),
                           ("nested-lhs", "%s = (%s + %s) + %s;" % (RV[T], SE, Z, Z))]
            if T == "p":
                shapes += [("binop-lhs", "rp = %s + gi[3];" % SE), ("binop-rhs", "rp = gi[3] + %s;" % SE)]
            if T == "i":
                shapes += [("index", "ri = gi[%s];" % SE), ("arg7", "ri = k7(1, 2, 3, 4, 5, 6, %s);" % SE),
                           ("arg8-first", "ri = k8(%s, 2, 3, 4, 5, 6, 7, 8);" % SE)]
            shapes += [("arg-first", "%s = k2%s(%s, %s);" % (RV[T], T, SE, Z)), ("arg-last", "%s = k2%s(%s, %s);" % (RV[T], T, Z, SE)),
                       ("assign-rhs", "%s[0] = %s;" % (GV[T], SE)), ("exprstmt-arg", "k2%s(%s, %s);" % (T, SE, Z)),
                       ("plain", "%s = %s;" % (RV[T], SE))]
            for sn, stmt in shapes:
                def build(F, stmt=stmt, jn=jn):
                    lab = "void *lab = &&out; " if jn == "gotoptr" else ""
                    return ("int FN(c%s)(void) { int k, j; %sfor (k = 0; k < gn; k++) { P; for (j = 0; j < 3; j++) { %s } out: ; } "
                            "return k; }\n" % (F, lab, stmt), [("c" + F, False)])
                out.append(("jump/%s/%s/%s" % (jn, sn, T), T, "jump", "%s/%s" % (jn, sn), build))
    return out


def alloca_cases():
    out = []
    forms = [("plain", "ri = (gna++, alloca(16)) != 0;"),
             ("pending-binop", "ri = gi[2] + *(int *)(gna++, alloca(16)) * 0;"),
             ("pending-arg", "ri = k2i((gna++, alloca(16)) != 0, gi[3]);"),
             ("pending-ld", "re = ge[2] + (long double)((gna++, alloca(32)) != 0);"),
             ("vla", "{ int v[gi[3]]; gna++; v[0] = gi[2]; ri = v[0]; }"),
             ("vla-sizeof", "{ int v[gi[3] + 2]; gna++; rl = sizeof(v); }")]
    for name, stmt in forms:
        def build(F, stmt=stmt):
            return ("int FN(c%s)(void) { int k, j; for (k = 0; k < gn; k++) { P; %s } return k; }\n" % (F, stmt), [("c" + F, False)])
        out.append(("alloca/" + name, "p", "alloca", name, build))
    return out


# conversions between all arithmetic classes, executed on a grid of operand VALUES ---------------------------------
# (letter, C type, integer width or None, signed)
CONV_TYPES = [("b", "_Bool", 1, False), ("c", "char", 8, True), ("sc", "signed char", 8, True), ("uc", "unsigned char", 8, False),
              ("s", "short", 16, True), ("us", "unsigned short", 16, False), ("i", "int", 32, True), ("u", "unsigned", 32, False),
              ("l", "long", 64, True), ("ul", "unsigned long", 64, False), ("f", "float", None, True), ("d", "double", None, True),
              ("e", "long double", None, True)]
CONV_BY = {t[0]: t for t in CONV_TYPES}
FP_MANT = {"f": 24, "d": 53, "e": 64}
# integer grid (mathematical values; stored in every typed table modulo the width): both sides of 0, 2^7, 2^8, 2^15, 2^16,
# 2^31, 2^32, 2^63.  Index 0 is the default operand of the N-repetition and loop measurements.
IGRID = [3, 0, 1, -1, 127, 128, 255, 256, 32767, 32768, 65535, 65536, (1 << 31) - 1, 1 << 31, (1 << 32) - 1, 1 << 32,
         (1 << 53) + 1, (1 << 63) - 1, 1 << 63, (1 << 63) + (1 << 40), (1 << 64) - 2, -128, -129, -32768, -32769,
         -(1 << 31), -(1 << 31) - 1, -(1 << 63)]
# floating grid (exact rationals, "inf"/"nan" strings): both sides of every integer class boundary, negative values,
# values that truncate to zero, infinities and NaNs
from fractions import Fraction as _Fr
FGRID = [_Fr(3, 2), _Fr(0), "-0", _Fr(3, 4), _Fr(-3, 4), _Fr(-3, 2), _Fr(255, 2), _Fr(257, 2), _Fr(511, 2), _Fr(513, 2),
         _Fr(65535, 2), _Fr(65537, 2), _Fr(131071, 2), _Fr(131073, 2), _Fr((1 << 31) - 128), _Fr((1 << 32) - 1, 2), _Fr(1 << 31),
         _Fr((1 << 32) - 256), _Fr((1 << 33) - 1, 2), _Fr(1 << 32), _Fr((1 << 63) - (1 << 39)), _Fr((1 << 63) - 1), _Fr(1 << 63),
         _Fr(12 * 10 ** 18), _Fr((1 << 64) - (1 << 40)), _Fr((1 << 64) - 1), _Fr(1 << 64), _Fr(10 ** 30), _Fr(-129), _Fr(-32769),
         _Fr(-(1 << 31)), _Fr(-(1 << 31) - 1), _Fr(-(1 << 63)), _Fr(-(1 << 63) - (1 << 12)), _Fr(-10 ** 30), "inf", "-inf", "nan", "-nan"]
VAL_CLASSES = ["neg", "lt2^31", "ge2^31", "ge2^32", "ge2^63", "ge2^64", "inf", "nan"]


def _rne(x, p):
    """round the rational x to p significant bits, ties to even (exponent range is not a concern for the grid)"""
    if x == 0:
        return x
    sgn = -1 if x < 0 else 1
    x = abs(x)
    e = x.numerator.bit_length() - x.denominator.bit_length()
    if _Fr(2) ** e > x:
        e -= 1
    # 2^e <= x < 2^(e+1): scale so that the integer part has p bits
    sc = _Fr(2) ** (p - 1 - e)
    y = x * sc
    n = y.numerator // y.denominator
    r = y - n
    if r > _Fr(1, 2) or (r == _Fr(1, 2) and n % 2):
        n += 1
    return sgn * _Fr(n) / sc


def grid_value(f, j):
    """the operand value the table of type f holds at index j: a Fraction (integers too), or 'inf' '-inf' 'nan' '-0'"""
    name, cty, width, signed = CONV_BY[f]
    if width is None:
        v = FGRID[j]
        if isinstance(v, str):
            return "nan" if "nan" in v else v
        return _rne(v, FP_MANT[f])
    v = IGRID[j]
    if width == 1:
        return _Fr(1 if v else 0)
    v &= (1 << width) - 1
    if signed and v >> (width - 1):
        v -= 1 << width
    return _Fr(v)


def value_class(v):
    if v == "nan":
        return "nan"
    if v in ("inf", "-inf"):
        return "inf"
    if v == "-0":
        return "lt2^31"
    if v < 0:
        return "neg"
    for k, nm in ((64, "ge2^64"), (63, "ge2^63"), (32, "ge2^32"), (31, "ge2^31")):
        if v >= (1 << k):
            return nm
    return "lt2^31"


def conv_defined(f, t, v):
    """does C11 define the result of converting the value v of type f to type t (6.3.1.2-6.3.1.5)?  Out-of-range
    floating -> integer is undefined, out-of-range integer -> signed integer is implementation-defined: both unjudged."""
    name, cty, width, signed = CONV_BY[t]
    if width == 1 or width is None:
        return True                     # -> _Bool: always; -> floating: every grid value is inside the range of float
    if isinstance(v, str):
        return v == "-0"
    tv = int(v)                         # truncation toward zero (int() of a Fraction truncates)
    lo, hi = (-(1 << (width - 1)), (1 << (width - 1)) - 1) if signed else (0, (1 << width) - 1)
    if CONV_BY[f][2] is None:
        return lo <= tv <= hi
    return lo <= tv <= hi or not signed


def conv_grid_kind(key):
    """0: not a conversion case; 1: integer operand grid; 2: floating operand grid"""
    if not key.startswith("conv/"):
        return 0
    f = key.split("/")[2].split(">")[0]
    return 2 if CONV_BY[f][2] is None else 1


def conv_cases():
    out = []
    forms = [("init", "{ %(T)s v = (%(T)s)cv%(f)s[gv]; cr%(t)s = v; }"),
             ("exprstmt", "(%(T)s)cv%(f)s[gv];"),
             # evaluated while a temporary is pushed / a long double operand is on the x87 stack, whatever the operand order
             ("pending", "rl = ((%(T)s)cv%(f)s[gv] != 0) + gl[3]; rl += gl[3] + ((%(T)s)cv%(f)s[gv] != 0); "
                         "re = ge[3] + ((%(T)s)cv%(f)s[gv] != 0); re += ((%(T)s)cv%(f)s[gv] != 0) + ge[3];")]
    for cn, stmt in forms:
        for f, fty, fw, fs in CONV_TYPES:
            for t, tty, tw, ts in CONV_TYPES:
                if f == t:
                    continue
                body = stmt % {"T": tty, "f": f, "t": t}

                def build(F, body=body):
                    return (LOOP % {"F": "c" + F, "BODY": body}, [("c" + F, False)])
                out.append(("conv/%s/%s>%s" % (cn, f, t), "i", "conv", "%s>%s" % (f, t), build))
    return out


# operand TYPE PAIRS: forms whose two operands (or operand and destination) have different types ------------------------
RANK = "ilfde"


def common_type(U, V):
    return max(U, V, key=RANK.index)


def mixed_forms():
    """-> (binary, other): lists of (result type, format, desc head, U, V[, operand slots]).  Size-1 forms over every ordered
    pair of operand types.  `binary` forms take two rvalue operands (either may be replaced by a sub-expression of its type);
    `other` are complete (text, desc) forms with leaf operands.
      && ||      : 6 x 6 scalar types (same-typed pairs included: the left operand is `g[6 + gc]`, zero for gc = 0 and non-zero
                   for gc = 1, so that the right operand IS evaluated; right operand non-zero, and zero in the `z` variant)
      ?: (GNU)   : 5 x 5 arithmetic pairs + pointers, left operand `g[6 + gc]`
      == .. >=   : 20 mixed arithmetic pairs x 6 operators
      + - * /    : 20 mixed arithmetic pairs; % & | ^ << >> : int x long, long x int; pointer +- long, long/int + pointer
      c ? a : b  : arms of 20 mixed arithmetic pairs, condition the int flag and a long double
      = op=      : destination x source over the 20 mixed arithmetic pairs (op= + - * /; all ten for int x long); pointer +=/-= long
      f(a)       : argument converted to the parameter type, 20 pairs;  `return a` converted to the return type, 20 pairs"""
    binary, other = [], []
    for U in SCALAR:
        for V in SCALAR:
            for op, nm in (("&&", "land"), ("||", "lor")):
                binary.append(("i", "(%%s %s %%s)" % op, "%s.%s%s" % (nm, U, V), U, V, (4, 1)))
                binary.append(("i", "(%%s %s %%s)" % op, "%s.%s%sz" % (nm, U, V), U, V, (4, 4)))
    for U in SCALAR:
        for V in SCALAR:
            if U in ARITH and V in ARITH:
                binary.append((common_type(U, V), "(%s ?: %s)", "elvis.%sx%s>%s" % (U, V, common_type(U, V)), U, V, (4, 1)))
            elif U == V:
                binary.append((U, "(%s ?: %s)", "elvis.%sx%s>%s" % (U, V, U), U, V, (4, 1)))
    for U in ARITH:
        for V in ARITH:
            if U == V:
                continue
            T = common_type(U, V)
            for op in CMP_OPS:
                binary.append(("i", "(%%s %s %%s)" % op, "%s.%s%s" % (OPNAME[op], U, V), U, V, (0, 1)))
            ops = ARITH_OPS["i"] if U in "il" and V in "il" else ARITH_OPS["e"]
            for op in ops:
                R = U if op in ("<<", ">>") else T
                binary.append((R, "(%%s %s %%s)" % op.replace("%", "%%"), "%s.%sx%s>%s" % (OPNAME[op], U, V, R), U, V, (0, 1)))
            binary.append((T, "(gc ? %s : %s)", "cond.%sx%s>%s" % (U, V, T), U, V, (0, 1)))
            other.append((T, "(ge[6 + gc] ? %s[2] : %s[3])" % (GV[U], GV[V]), "cond.e?%sx%s>%s(v,v,v)" % (U, V, T)))
            # destination V, source U
            other.append((V, "(%s[0] = %s[2])" % (GV[V], GV[U]), "assign.%s>%s(v)" % (U, V)))
            for op in ops:
                other.append((V, "(%s[0] %s= %s[3])" % (GV[V], op, GV[U]), "%sasg.%s>%s(v)" % (OPNAME[op], U, V)))
            other.append((V, "id%s(%s[2])" % (V, GV[U]), "callconv.%s>%s(v)" % (U, V)))
    binary.append(("p", "(%s + %s)", "padd.pl", "p", "l", (0, 1)))
    binary.append(("p", "(%s + %s)", "padd.lp", "l", "p", (1, 0)))
    binary.append(("p", "(%s + %s)", "padd.ip", "i", "p", (1, 0)))
    binary.append(("p", "(%s - %s)", "psub.pl", "p", "l", (0, 1)))
    other.append(("p", "(gp[0] += gl[3])", "addasg.l>p(v)"))
    other.append(("p", "(gp[0] -= gl[3])", "subasg.l>p(v)"))
    return binary, other


# calls of callees with the remaining return classes: char / _Bool / short (the caller extends %al / %ax) and a struct of
# class X87 (returned in %st0)
EXTRA_CALLS = [("i", "fc()", "call.fc"), ("i", "fb()", "call.fb"), ("i", "fs()", "call.fs"), ("e", "(fE().v)", "member.Ev(call.fE)")]
MIXED_SLOT = {0: "[2]", 1: "[3]", 4: "[6 + gc]"}
MIXED_SLOT[4, "z"] = "[6]"


def enumerate_cases(tier, stmtexpr_member_ok=False):
    """-> list of dict(id, ctx, T, desc, size, build) in deterministic simplest-first order."""
    g = Gen(stmtexpr_member_ok)
    cases = []
    seen = set()

    def add(ctxname, T, size, text, desc, dup_ok=False):
        cid = "%s/%s/%s" % (ctxname, T, desc)
        if cid in seen:
            if dup_ok:
                return
            raise core.HarnessError("generator produced a duplicate case id: " + cid)
        seen.add(cid)
        cases.append({"id": cid, "ctx": ctxname, "T": T, "desc": desc, "size": size, "E": text,
                      "build": (lambda F, c=ctxname, t=T, e=text: render_case(c, t, e, F))})

    def ctx_wanted(cn, T, size):
        if size > 1 and cn in PEND_CTX and cn not in PEND_X87:
            return False
        if size > max_all_ctx and cn not in ("init", "exprstmt"):
            return False
        if size > max_all_ctx and cn == "exprstmt" and T != "v" and size >= 3:
            return False
        return True

    max_all_ctx = 1 if tier == "quick" else 2
    max_init = 2 if tier == "quick" else 3
    for size in range(0, max_init + 1):
        for T in ALLT + "v":
            if size == 0:
                ex = g.leaf(T, 0) + ([(CONST[T], "c")] if T in CONST else [])
            else:
                ex = g.exprs(T, size, 0, reps=(size >= 3))
            for cn in CTX_ORDER:
                if T not in CTX[cn][0]:
                    continue
                if not ctx_wanted(cn, T, size):
                    continue
                for text, desc in ex:
                    if cn in MEMBER_CTX and T in "SL" and not stmtexpr_member_ok and addr_spine_is_stmtexpr(desc):
                        continue        # the context applies `.member` to the expression
                    add(cn, T, size, text, desc)
    # ---- operand type pairs (mixed_forms) and the remaining callee return classes: size 1 in every context --------------
    binary, other = mixed_forms()

    def slot(U, sl, z):
        return GV[U] + (MIXED_SLOT[4, "z"] if (sl == 4 and z) else MIXED_SLOT[sl])
    extra = list(EXTRA_CALLS) + list(other)
    for T, fmt, head, U, V, (sa, sb) in binary:
        z = head.endswith("z")
        extra.append((T, fmt % (slot(U, sa, False), slot(V, sb, z)), head + "(v,v)"))
    for T, text, desc in extra:
        for cn in CTX_ORDER:
            if T in CTX[cn][0]:
                add(cn, T, 1, text, desc)
    for U in ARITH:
        for V in ARITH:
            if U != V:
                add("return", V, 1, "%s[2]" % GV[U], "retconv.%s>%s(v)" % (U, V))
    # ---- `(void)(void)E;` for every size-1 expression E of every type, in every context that drops a value ----------------
    for U in ALLT:
        for text, desc in g.exprs(U, 1, 0) + [(t, d) for (T, t, d) in EXTRA_CALLS if T == U]:
            for cn in ("exprstmt", "forinc", "commalhs", "return", "pend.e"):
                if True:
                    add(cn, "v", 3, "((void)(void)%s)" % text, "cast.v>v(cast.%s>v(%s))" % (U, desc), dup_ok=True)
    # ---- thorough: the binary mixed-type forms with one operand replaced by every size-1 expression of its type ---------
    if tier != "quick":
        for T, fmt, head, U, V, (sa, sb) in binary:
            z = head.endswith("z")
            opn = head.split(".")[0]
            for side in (0, 1):
                if side == 1 and opn in ("div", "mod", "shl", "shr"):
                    continue            # right operands of / % << >> stay read-only leaves (never 0, shift count in range)
                for text, desc in g.exprs((U, V)[side], 1, 1):
                    if side == 0:
                        e, d = fmt % (text, slot(V, sb, z)), "%s(%s,v)" % (head, desc)
                    else:
                        e, d = fmt % (slot(U, sa, False), text), "%s(v,%s)" % (head, desc)
                    if head.split(".")[0] in ("padd", "psub") and far_pointer(desc):
                        continue
                    for cn in ("init", "pend.e"):
                        if T in CTX[cn][0]:
                            add(cn, T, 2, e, d)
    for cid, T, cn, desc, build in jump_cases() + alloca_cases() + conv_cases():
        cases.append({"id": cid, "ctx": cn, "T": T, "desc": desc, "size": 2, "E": None, "build": build})
    return cases


# =====================================================================================================
# Part A: abstract-state model of the emitted assembly
# =====================================================================================================
X87_PUSH = set("fld flds fldl fldt fild filds fildl fildll fildq fldz fld1 fldpi fldl2e fldl2t fldlg2 fldln2".split())
X87_POP = set("fstp fstps fstpl fstpt fistp fistps fistpl fistpll fistpq fisttp fisttps fisttpl fisttpll fisttpq faddp fsubp "
              "fsubrp fmulp fdivp fdivrp fcomip fucomip fcomp fcomps fcompl fucomp".split())
X87_POP2 = set("fcompp fucompp".split())
X87_NONE = set("fchs fabs fadd fadds faddl fsub fsubs fsubl fsubr fsubrs fsubrl fmul fmuls fmull fdiv fdivs fdivl fdivr fdivrs "
               "fdivrl fiadd fiadds fiaddl fisub fisubs fisubl fimul fimuls fimull fidiv fidivs fidivl fst fsts fstl fist fists "
               "fistl fxch fnstcw fstcw fldcw fnstsw fstsw fwait wait fcom fcoms fcoml fucom fcomi fucomi fsqrt frndint ftst "
               "fxam fnclex fclex".split())
X87_WIPE = set("emms femms fninit finit".split())      # mark all eight registers empty whatever their owner
X87_REQ2 = set("faddp fsubp fsubrp fmulp fdivp fdivrp fcomip fucomip fcompp fucompp fxch fcomi fucomi fucom fucomp".split())
X87_REQ0 = set("fnstcw fstcw fldcw fnstsw fstsw fwait wait fnclex fclex".split())
X87_REQ1_NOOPS = set("fchs fabs fsqrt frndint ftst fxam".split())
PLAIN = set("mov movabs movzx movzb movzbl movzbw movzwl movzbq movzwq movsbl movsbw movswl movsbq movswq movsxd movslq movsx "
            "movss movsd movd movq movaps movups movapd movupd movdqa movdqu lea add sub imul mul div idiv cqo cdq cqto cltd "
            "cltq cdqe cwde cwtl and or xor not neg shl shr sar sal rol ror cmp test inc dec nop xchg cmpxchg xadd stosb stosq "
            "movsb cvtsi2ss cvtsi2sd cvtsi2ssl cvtsi2ssq cvtsi2sdl cvtsi2sdq cvttss2si cvttss2sil cvttss2siq cvttsd2si "
            "cvttsd2sil cvttsd2siq cvtss2sd cvtsd2ss ucomiss ucomisd comiss comisd xorps xorpd pxor andps andpd orps orpd "
            "addss addsd subss subsd mulss mulsd divss divsd sqrtss sqrtsd bswap bt btc bts btr".split())
PREFIX = set("lock rep repe repne repz repnz".split())
JCC = set("je jne jz jnz jl jle jg jge jb jbe ja jae js jns jp jnp jo jno jc jnc jnae jnb jnbe jna jnge jnl jng jnle".split())
REG64 = {}
for _r in ("ax", "bx", "cx", "dx", "si", "di", "bp", "sp"):
    REG64["%r" + _r] = "%r" + _r
    REG64["%e" + _r] = "%r" + _r
    REG64["%" + _r] = "%r" + _r
for _r in "abcd":
    REG64["%" + _r + "l"] = "%r" + _r + "x"
    REG64["%" + _r + "h"] = "%r" + _r + "x"
for _r in ("sil", "dil", "bpl", "spl"):
    REG64["%" + _r] = "%r" + _r[:2]
for _i in range(8, 16):
    for _s in ("", "d", "w", "b"):
        REG64["%%r%d%s" % (_i, _s)] = "%%r%d" % _i
CALL_CLOBBER = ("%rax", "%rcx", "%rdx", "%rsi", "%rdi", "%r8", "%r9", "%r10", "%r11")


def split_operands(s):
    out, depth, cur = [], 0, ""
    for ch in s:
        if ch == "(":
            depth += 1
        elif ch == ")":
            depth -= 1
        if ch == "," and depth == 0:
            out.append(cur.strip())
            cur = ""
        else:
            cur += ch
    if cur.strip():
        out.append(cur.strip())
    return out


class Insn:
    __slots__ = ("mn", "ops", "raw", "labels")

    def __init__(self, mn, ops, raw):
        self.mn, self.ops, self.raw, self.labels = mn, ops, raw, []


def parse_asm(text):
    """-> (functions: {name: [Insn]}, quad_refs: set of labels referenced from data)"""
    funcs = {}
    cur = None
    pending_labels = []
    fn_types = set(re.findall(r"^\s*\.type\s+([\w.$]+),\s*@function", text, re.M))
    quad_refs = set(re.findall(r"^\s*\.quad\s+([A-Za-z_.$][\w.$]*)", text, re.M))
    for line in text.split("\n"):
        line = line.split("#", 1)[0]
        for piece in line.split(";"):
            piece = piece.strip()
            while piece:
                m = re.match(r"^([A-Za-z_.$0-9][\w.$]*):\s*(.*)$", piece)
                if not m:
                    break
                lab = m.group(1)
                piece = m.group(2).strip()
                if lab in fn_types:
                    cur = []
                    funcs[lab] = cur
                    pending_labels = []
                elif cur is not None:
                    pending_labels.append(lab)
            if not piece:
                continue
            if piece.startswith("."):
                d = piece.split()[0]
                if d in (".globl", ".local", ".text", ".data", ".bss", ".section", ".type", ".comm") and cur is not None and d != ".type":
                    # leaving the function body (chibicc emits .globl/.local before every function)
                    if d in (".globl", ".local", ".data", ".bss", ".section"):
                        cur = None
                continue
            if cur is None:
                continue
            toks = piece.split(None, 1)
            mn = toks[0]
            rest = toks[1] if len(toks) > 1 else ""
            while mn in PREFIX and rest:
                toks = rest.split(None, 1)
                mn = toks[0]
                rest = toks[1] if len(toks) > 1 else ""
            ins = Insn(mn, split_operands(rest), piece)
            ins.labels = pending_labels
            pending_labels = []
            cur.append(ins)
    return funcs, quad_refs


def canon_mn(mn):
    if mn in PLAIN:
        return mn
    if len(mn) > 2 and mn[-1] in "bwlq" and mn[:-1] in PLAIN:
        return mn[:-1]
    if mn.startswith("set") or mn.startswith("cmov"):
        return "mov"
    return None


def dest_reg(ins):
    """64-bit name of the register this instruction writes (None if memory / none / unknown)."""
    if not ins.ops:
        return None
    mn = canon_mn(ins.mn)
    if mn in ("cmp", "test", "ucomiss", "ucomisd", "comiss", "comisd", "bt"):
        return None
    return REG64.get(ins.ops[-1])


def mentions(ins, reg):
    return any(reg in o for o in ins.ops)


class FnModel:
    def __init__(self, name, insns, ret_ld, callee_ld, probes=("vp_probe",), quad_refs=(), wipers=None):
        self.name, self.insns, self.ret_ld, self.callee_ld = name, insns, ret_ld, callee_ld
        self.wipers = wipers or {}      # callee symbol -> mnemonic: functions found to empty the whole x87 stack
        self.wipes = None               # this function empties the whole x87 stack (its caller's registers included)
        self.wiped_by = set()           # callees that did so while this function held values on the x87 stack
        self.extra_viol = set()
        self.callees = set()
        self.probes = probes
        self.quad_refs = quad_refs
        self.unmodelled = None
        self.viol = []           # canonical static anomaly tokens
        self.states = 0
        self.transitions = 0
        self.x87_ret = set()
        self.probe_rsp = set()
        self.probe_x87 = set()
        self.alloca_sites = 0
        self.has_backedge = False
        self.underflow = False
        self.local_labels = 0

    def fail(self, why):
        if self.unmodelled is None:
            self.unmodelled = why

    # ---- static structure -----------------------------------------------------------------------------
    def build(self):
        ins = self.insns
        n = len(ins)
        self.labpos = {}
        numeric = {}
        for i, x in enumerate(ins):
            for l in x.labels:
                if l.isdigit():
                    numeric.setdefault(l, []).append(i)
                else:
                    self.labpos[l] = i
        self.local_labels = sum(len(v) for v in numeric.values())
        self.addr_taken = set()
        for x in ins:
            if canon_mn(x.mn) == "lea" and x.ops:
                m = re.match(r"^([A-Za-z_.$][\w.$]*)\(%rip\)$", x.ops[0])
                if m and m.group(1) in self.labpos:
                    self.addr_taken.add(m.group(1))
        for l in self.quad_refs:
            if l in self.labpos:
                self.addr_taken.add(l)

        def resolve(t, i):
            m = re.match(r"^(\d+)([fb])$", t)
            if m:
                cands = numeric.get(m.group(1), [])
                if m.group(2) == "f":
                    c = [p for p in cands if p > i]
                    return min(c) if c else None
                c = [p for p in cands if p <= i]
                return max(c) if c else None
            return self.labpos.get(t)

        self.succ = [None] * n
        self.kind = [None] * n
        for i, x in enumerate(ins):
            mn = x.mn
            if mn == "ret" or mn == "retq":
                self.succ[i] = []
                self.kind[i] = "ret"
            elif mn in ("jmp", "jmpq"):
                t = x.ops[0] if x.ops else ""
                if t.startswith("*"):
                    if not self.addr_taken:
                        return self.fail("indirect jump without address-taken labels")
                    self.succ[i] = sorted(self.labpos[l] for l in self.addr_taken)
                else:
                    p = resolve(t, i)
                    if p is None:
                        return self.fail("jump target outside function: " + t)
                    self.succ[i] = [p]
                self.kind[i] = "jmp"
            elif mn in JCC:
                p = resolve(x.ops[0] if x.ops else "", i)
                if p is None or i + 1 >= n:
                    return self.fail("conditional jump target outside function")
                self.succ[i] = [i + 1, p]
                self.kind[i] = "jcc"
            elif mn.startswith("j") or mn.startswith("loop"):
                return self.fail("unknown jump mnemonic " + mn)
            else:
                if i + 1 >= n:
                    return self.fail("control falls off the end of the function")
                self.succ[i] = [i + 1]
        for i in range(n):
            if any(s <= i for s in self.succ[i]):
                self.has_backedge = True
        # rsp liveness (backward): rsp is dead where every path overwrites it from %rbp before using it
        use = [False] * n
        kill = [False] * n
        for i, x in enumerate(ins):
            c = canon_mn(x.mn)
            if (c == "mov" and len(x.ops) == 2 and x.ops[0] == "%rbp" and x.ops[1] == "%rsp") or x.mn == "leave":
                kill[i] = True
            elif x.mn in ("push", "pushq", "pop", "popq", "call", "callq", "ret", "retq", "pushfq", "popfq", "pushf", "popf") \
                    or mentions(x, "%rsp") or mentions(x, "%esp"):
                use[i] = True
        live = [False] * n
        changed = True
        while changed:
            changed = False
            for i in range(n - 1, -1, -1):
                v = use[i] or (not kill[i] and any(live[s] for s in self.succ[i]))
                if v != live[i]:
                    live[i] = v
                    changed = True
        self.rsp_live = live
        # the slot the prologue saves %rsp into (alloca bottom), for the alloca idiom
        self.bottom_slot = None
        for x in ins[:12]:
            if canon_mn(x.mn) == "mov" and len(x.ops) == 2 and x.ops[0] == "%rsp" and re.match(r"^-?\d+\(%rbp\)$", x.ops[1]):
                self.bottom_slot = x.ops[1]
                break

    def callee_of(self, i):
        """Resolve the symbol called by instruction i (direct, or `call *%reg` via straight-line backward copy
        propagation).  None = unknown."""
        x = self.insns[i]
        t = x.ops[0] if x.ops else ""
        if not t.startswith("*"):
            return t.split("@")[0]
        reg = REG64.get(t[1:])
        if reg is None:
            return None
        j = i - 1
        while j >= 0:
            y = self.insns[j]
            if self.insns[j + 1].labels or self.kind[j] in ("jmp", "jcc", "ret"):
                return None
            j -= 1
            if y.mn in ("call", "callq"):
                if reg in CALL_CLOBBER:
                    return None
                continue
            if y.mn in ("push", "pushq", "pushfq", "pushf", "popfq", "popf"):
                continue
            if y.mn in ("pop", "popq"):
                if y.ops and REG64.get(y.ops[0]) == reg:
                    return None
                continue
            if y.mn in X87_PUSH or y.mn in X87_POP or y.mn in X87_POP2 or y.mn in X87_NONE:
                if reg == "%rax" and mentions(y, "%ax"):
                    return None
                continue
            c = canon_mn(y.mn)
            if c is None:
                return None
            if c in ("cqo", "cdq", "cqto", "cltd") and reg == "%rdx":
                return None
            if (c in ("div", "idiv", "mul") or (c == "imul" and len(y.ops) == 1)) and reg in ("%rax", "%rdx"):
                return None
            if c in ("cltq", "cdqe", "cwde", "cwtl", "cmpxchg") and reg == "%rax":
                return None
            if c in ("xchg", "xadd") and any(REG64.get(o) == reg for o in y.ops):
                return None
            if c in ("stosb", "stosq", "movsb") and reg in ("%rdi", "%rcx", "%rsi"):
                return None
            if dest_reg(y) == reg:
                if c == "mov" and len(y.ops) == 2 and y.ops[0] in REG64:
                    reg = REG64[y.ops[0]]
                    continue
                if c in ("lea", "mov") and len(y.ops) == 2:
                    m = re.match(r"^([A-Za-z_.$][\w.$]*)(@GOTPCREL)?\(%rip\)$", y.ops[0])
                    if m and (c == "lea") != bool(m.group(2)):
                        return m.group(1)
                return None
        return None

    def is_alloca_idiom(self, i):
        """`sub %R, %rsp` followed (straight-line, numeric local labels allowed) by `sub %R, %X; mov %X, <bottom slot>`:
        the frame bottom recorded in the prologue moves together with %rsp = storage deliberately obtained."""
        x = self.insns[i]
        if self.bottom_slot is None:
            return False
        r = x.ops[0]
        for j in range(i + 1, min(i + 24, len(self.insns) - 1)):
            y, z = self.insns[j], self.insns[j + 1]
            if canon_mn(y.mn) == "sub" and len(y.ops) == 2 and y.ops[0] == r and y.ops[1] in REG64 and \
                    canon_mn(z.mn) == "mov" and z.ops == [y.ops[1], self.bottom_slot]:
                return True
            if y.mn in ("call", "callq", "ret"):
                return False
        return False

    # ---- transfer function --------------------------------------------------------------------------
    def step(self, i, rsp, x87, rbp):
        """-> (rsp, x87, rbp) after instruction i, or None if the function became unmodelled."""
        x = self.insns[i]
        mn = x.mn
        ops = x.ops
        if mn in X87_PUSH:
            return rsp, x87 + 1, rbp
        if mn in X87_POP or mn in X87_POP2 or mn in X87_NONE:
            # operands read from the register stack: reading an empty register is an underflow (the machine then
            # produces a NaN in the destination, which is what "x87 depth" measured from the tag word shows)
            if mn in X87_REQ0:
                req = 0
            elif mn in X87_REQ2:
                req = 2
            elif mn in X87_REQ1_NOOPS or mn in X87_POP or any("(" in o for o in ops):
                req = 1
            else:
                req = 2
            if x87 < req:
                self.underflow = True
                x87 = req
            return rsp, x87 - (1 if mn in X87_POP else 2 if mn in X87_POP2 else 0), rbp
        if mn in X87_WIPE:
            # all eight registers become empty: the function's own pending values are lost (an anomaly here) and so are
            # those its callers hold (an anomaly at every call site with x87 depth > 0: see `call`)
            self.wipes = self.wipes or mn
            if x87 > 0:
                self.extra_viol.add("x87-stack-wiped-with-values-pending(%s)" % mn)
            return rsp, 0, rbp
        if mn in ("ffree", "ffreep"):
            m = re.match(r"^%st(?:\((\d)\))?$", ops[0]) if len(ops) == 1 else None
            k = int(m.group(1) or 0) if m else None
            if k is not None and k >= x87:
                self.extra_viol.add("x87-register-of-caller-freed")
                return rsp, x87, rbp
            nxt = self.insns[i + 1] if i + 1 < len(self.insns) else None
            if k == 0 and mn == "ffreep":
                return rsp, x87 - 1, rbp
            if k == 0 and nxt is not None and nxt.mn == "fincstp" and not nxt.labels:
                return rsp, x87 - 1, rbp            # `ffree %st(0); fincstp` = pop
            return self.fail("x87 tag manipulation: " + x.raw)
        if mn == "fincstp":
            prv = self.insns[i - 1] if i > 0 else None
            if prv is not None and prv.mn == "ffree" and prv.ops in (["%st"], ["%st(0)"]) and not x.labels:
                return rsp, x87, rbp
            return self.fail("x87 tag manipulation: " + x.raw)
        if mn == "fdecstp":
            return self.fail("x87 tag manipulation: " + x.raw)
        if mn.startswith("f"):
            return self.fail("unknown x87 mnemonic " + mn)
        if mn in ("push", "pushq", "pushfq", "pushf"):
            return (rsp - 8 if rsp is not None else None), x87, rbp
        if mn in ("pop", "popq", "popfq", "popf"):
            if ops and REG64.get(ops[0]) == "%rsp":
                return self.fail("pop %rsp")
            if ops and REG64.get(ops[0]) == "%rbp":
                rbp = None
            return (rsp + 8 if rsp is not None else None), x87, rbp
        if mn in ("call", "callq"):
            sym = self.callee_of(i)
            if sym is None or sym not in self.callee_ld:
                return self.fail("call to unknown callee")
            if sym in self.probes:
                self.probe_rsp.add(rsp)
                self.probe_x87.add(x87)
            self.callees.add(sym)
            if sym in self.wipers:
                # the callee leaves the x87 stack of its caller empty: values this function holds there are lost
                self.wipes = self.wipes or "call"
                if x87 > 0:
                    self.extra_viol.add("callee-changes-x87-stack-of-caller")
                    self.wiped_by.add(sym)
                x87 = 0
            return rsp, x87 + (1 if self.callee_ld[sym] else 0), rbp
        if mn in ("ret", "retq") or mn in ("jmp", "jmpq") or mn in JCC:
            return rsp, x87, rbp
        if mn == "leave":
            if rbp is None:
                return self.fail("leave with unknown %rbp")
            return rbp + 8, x87, None
        c = canon_mn(mn)
        if c is None:
            return self.fail("unknown mnemonic " + mn)
        d = dest_reg(x)
        if d == "%rsp":
            if len(ops) == 2 and ops[1] == "%rsp":
                m = re.match(r"^\$(-?(?:0x[0-9a-fA-F]+|\d+))$", ops[0])
                if c in ("add", "sub") and m:
                    v = int(m.group(1), 0)
                    return (rsp + (v if c == "add" else -v) if rsp is not None else None), x87, rbp
                if c == "mov" and ops[0] == "%rbp":
                    if rbp is None:
                        return self.fail("mov %rbp,%rsp with unknown %rbp")
                    return rbp, x87, rbp
                m = re.match(r"^(-?\d+)\(%rsp\)$", ops[0])
                if c == "lea" and m:
                    return (rsp + int(m.group(1)) if rsp is not None else None), x87, rbp
                if c == "sub" and ops[0] in REG64 and self.is_alloca_idiom(i):
                    self.alloca_sites += 1
                    return rsp, x87, rbp
            return self.fail("unrecognised %rsp update: " + x.raw)
        if d == "%rbp":
            if c == "mov" and ops[0] == "%rsp" and ops[1] == "%rbp":
                return rsp, x87, rsp
            return rsp, x87, None
        if c in ("xchg", "cmpxchg", "xadd") and (mentions(x, "%rsp") or mentions(x, "%rbp")):
            return self.fail("exchange with %rsp/%rbp")
        return rsp, x87, rbp

    # ---- explicit-state search ------------------------------------------------------------------------
    def run(self):
        self.build()
        if self.unmodelled:
            return self
        n = len(self.insns)
        if n == 0:
            self.fail("empty function")
            return self
        seen = [set() for _ in range(n)]
        viol = set()
        work = [(0, 0, 0, None)]
        want_ret = 1 if self.ret_ld else 0
        while work:
            i, rsp, x87, rbp = work.pop()
            if not self.rsp_live[i]:
                rsp = None
            st = (rsp, x87, rbp)
            if st in seen[i]:
                continue
            for o in seen[i]:
                if o[0] != rsp and o[0] is not None and rsp is not None:
                    viol.add("rsp-not-single-valued(%+d)" % -abs(rsp - o[0]))
                if o[1] != x87:
                    viol.add("x87-not-single-valued(%+d)" % abs(x87 - o[1]))
            if len(seen[i]) >= 3:
                continue
            seen[i].add(st)
            self.states += 1
            if self.kind[i] == "ret":
                self.x87_ret.add(x87)
                if rsp is not None and rsp != 0:
                    viol.add("rsp-at-return=%+d" % rsp)
                if rsp is None:
                    self.fail("%rsp unknown at ret")
                if x87 != want_ret:
                    viol.add("x87-at-return=%+d" % (x87 - want_ret))
                continue
            r = self.step(i, rsp, x87, rbp)
            if self.unmodelled:
                return self
            rsp2, x2, rbp2 = r
            if self.underflow:
                viol.add("x87-underflow")
                self.underflow = False
            if x2 < 0:
                viol.add("x87-underflow")
                x2 = 0
            if x2 > 8:
                viol.add("x87-overflow")
                x2 = 8
            for s in self.succ[i]:
                self.transitions += 1
                work.append((s, rsp2, x2, rbp2))
        ps = set(v for v in self.probe_rsp if v is not None)
        if len(ps) > 1:
            viol.add("rsp-differs-between-statement-boundaries")
        for v in self.probe_x87:
            if v != 0:
                viol.add("x87-at-statement-boundary=%+d" % v)
        viol |= self.extra_viol
        fam = {}
        for t in viol:
            m = re.match(r"^(.*?)[=(]([+-]\d+)\)?$", t)
            if m:
                k, v = m.group(1), int(m.group(2))
                if k not in fam or abs(v) < abs(fam[k][0]):
                    fam[k] = (v, t)
            else:
                fam[t] = (0, t)
        self.viol = sorted(t for v, t in fam.values())
        return self


def model_file(asm_text, ret_ld, callee_ld):
    """Model-check every function of one assembly file.  ret_ld: {function: returns long double} for the functions to
    check; callee_ld: {symbol: returns long double} for everything callable."""
    funcs, quad_refs = parse_asm(asm_text)
    # vacuity guard: every local numeric label written in the text (also inside `;`-joined instruction strings) is a node
    n_text = len(re.findall(r"(?:^|;)[ \t]*\d+:", asm_text, re.M))
    n_parsed = sum(1 for insns in funcs.values() for x in insns for l in x.labels if l.isdigit())
    if n_parsed < n_text:
        raise core.HarnessError("assembly parser lost local numeric labels: %d in the text, %d parsed" % (n_text, n_parsed))
    res = {}
    for name, insns in funcs.items():
        if name not in ret_ld:
            continue
        res[name] = FnModel(name, insns, ret_ld[name], callee_ld, quad_refs=quad_refs).run()
    # callee summaries: a function that empties the whole x87 stack (emms / fninit, or a call of such a function) changes the
    # x87 stack its caller sees; re-run the callers with that knowledge until the set is stable (never needed on a clean tree)
    wipers = {n: m.wipes for n, m in res.items() if m.wipes}
    for rnd in range(6):
        if not wipers:
            break
        for name, m in list(res.items()):
            if m.callees & set(wipers) or m.unmodelled is None and m.wipes == "call":
                res[name] = FnModel(name, funcs[name], ret_ld[name], callee_ld, quad_refs=quad_refs, wipers=wipers).run()
        new = {n: m.wipes for n, m in res.items() if m.wipes}
        if set(new) == set(wipers):
            break
        wipers = new
    return res


# =====================================================================================================
# Part B: execution
# =====================================================================================================
BASE_CALLEES = {"fv": 0, "fi": 0, "fl": 0, "ff": 0, "fd": 0, "fe": 1, "fp": 0, "fS": 0, "fL": 0, "idi": 0, "idl": 0, "idf": 0,
                "idd": 0, "ide": 1, "idp": 0, "idS": 0, "idL": 0, "hi": 0, "hl": 0, "hf": 0, "hd": 0, "he": 0, "hp": 0, "hS": 0,
                "hL": 0, "k2i": 0, "k2l": 0, "k2f": 0, "k2d": 0, "k2e": 1, "k2p": 0, "k2S": 0, "k2L": 0, "k7": 0, "k8": 0,
                "k9d": 0, "k7e": 1, "reset": 0, "getbf": 0, "fc": 0, "fb": 0, "fs": 0, "fE": 1}
for _t in ALLT:
    BASE_CALLEES["m" + _t] = BASE_CALLEES["n" + _t] = 0


class _Shim:
    def __init__(self, chibicc):
        self.chibicc = chibicc


PRELUDE_FILE = os.path.join(HARNESS, "c20_unit.h")


def unit_prelude():
    return open(PRELUDE_FILE).read()


def _int_lit(v):
    v &= (1 << 64) - 1
    return "(long)0x%xUL" % v


def _ld_lit(v):
    if isinstance(v, str):
        return {"inf": "__builtin_infl()", "-inf": "(-__builtin_infl())", "nan": '__builtin_nanl("")',
                "-nan": '(-__builtin_nanl(""))', "-0": "(-0.0L)"}[v]
    # exact: every grid value is an integer or a dyadic rational with at most 64 significant bits
    return "(%d.0L / %d.0L)" % (v.numerator, v.denominator)


def build_sources(cases):
    """cases: list of (key, build).  -> unit text, driver text, function table [(key, [(fname, ret_ld)])]"""
    unit = [unit_prelude()]
    table = []
    for k, (key, build) in enumerate(cases):
        src, fns = build(str(k))
        unit.append(src)
        table.append((key, fns))
    drv = ["struct vp_case { int (*cc)(void); int (*ref)(void); int grid; };\n"]
    for k in range(len(cases)):
        drv.append("int cc_c%d(void), ref_c%d(void);\n" % (k, k))
    drv.append("struct vp_case vp_cases[] = {\n" + "".join("{cc_c%d, ref_c%d, %d},\n" % (k, k, conv_grid_kind(cases[k][0]))
                                                           for k in range(len(cases))) + "};\n")
    drv.append("int vp_ncases = %d;\n" % len(cases))
    drv.append("const long vp_igrid[] = {%s};\nconst int vp_ni = %d;\n" % (", ".join(_int_lit(v) for v in IGRID), len(IGRID)))
    drv.append("const long double vp_fgrid[] = {%s};\nconst int vp_nf = %d;\n" % (", ".join(_ld_lit(v) for v in FGRID), len(FGRID)))
    return "".join(unit), "".join(drv), table


def parse_record(line):
    """R idx | 6 groups of 8 | 2 loop groups of 8"""
    parts = [p.split() for p in line.split("|")]
    idx = int(parts[0][1])
    groups = []
    for g in parts[1:7]:
        groups.append({"x87": int(g[0]), "top": int(g[1]), "ldok": int(g[2]), "reteq": int(g[3]), "state": int(g[4], 16),
                       "rspd": int(g[5]), "pcount": int(g[6]), "pmax": int(g[7])})
    loops = []
    for g in parts[7:9]:
        loops.append({"pcount": int(g[0]), "drift": int(g[1]), "dmin": int(g[2]), "dmax": int(g[3]), "x87first": int(g[4]),
                      "x87max": int(g[5]), "x87": int(g[6]), "gna": int(g[7])})
    return idx, groups, loops


def parse_vrecord(line):
    """V idx n | x87 top ldok equal rspd pmax | ... (one group per operand value)"""
    try:
        parts = [p.split() for p in line.split("|")]
        idx, n = int(parts[0][1]), int(parts[0][2])
        vals = [{"x87": int(g[0]), "top": int(g[1]), "ldok": int(g[2]), "eq": int(g[3]), "rspd": int(g[4]), "pmax": int(g[5])}
                for g in parts[1:]]
        if len(vals) != n:
            return None
        return idx, vals
    except (ValueError, IndexError):
        return None


def value_tokens(key, vals):
    """anomaly tokens of a conversion case measured once per operand value: `<anomaly>@<value classes showing it>`;
    `(ub-operand)` marks anomalies seen only for operands whose conversion C11 leaves undefined.
    -> (tokens, values executed, values whose result is not compared: undefined / implementation-defined conversion)"""
    f, t = key.split("/")[2].split(">")
    n = len(FGRID) if CONV_BY[f][2] is None else len(IGRID)
    if vals is None or len(vals) != n:
        return ["no-record-for-the-value-grid"], 0, 0
    seen = {}
    unjudged = 0
    for j, m in enumerate(vals):
        v = grid_value(f, j)
        defined = conv_defined(f, t, v)
        unjudged += 0 if defined else 1
        an = []
        if m["x87"]:
            an.append("x87-per-call=%+d" % m["x87"])
        elif m["top"]:
            an.append("x87-top-moved=%+d" % m["top"])
        elif not m["ldok"]:
            an.append("later-long-double-corrupted")
        if m["rspd"]:
            an.append("rsp-across-call")
        if m["pmax"]:
            an.append("x87-at-statement-boundary")
        if defined and not m["eq"]:
            an.append("result-differs-from-gcc-twin")
        for a in an:
            seen.setdefault(a, []).append((value_class(v), defined))
    toks = []
    for a, lst in seen.items():
        cls = [c for c in VAL_CLASSES if any(c == x for x, d in lst)]
        toks.append("%s@%s%s" % (a, "+".join(cls), "" if any(d for x, d in lst) else "(ub-operand)"))
    return sorted(toks), n, unjudged


def dynamic_tokens(groups, loops, is_alloca):
    """canonical anomaly tokens from the measurements of one case"""
    t = set()
    g0 = [g for i, g in enumerate(groups) if i % 3 == 0]      # N = 1 groups (gc = 0, 1)
    x1 = max((g["x87"] for g in g0), key=abs)
    if x1:
        t.add("x87-per-call=%+d" % x1)
    elif any(g["x87"] for g in groups):
        t.add("x87-residue-after-repeated-calls")
    if not any(g["x87"] for g in groups):
        tp = max((g["top"] for g in g0), key=abs)
        if tp:
            t.add("x87-top-moved=%+d" % tp)
    if any(not g["reteq"] or g["state"] for g in groups):
        t.add("result-differs-from-gcc-twin")
    if any(g["rspd"] for g in groups):
        t.add("rsp-across-call")
    for g, n in zip(groups, [1, 2, 9] * 2):
        if g["pcount"] != n:
            t.add("probe-count")
    x87seen = bool(x1)
    if any(g["pmax"] for g in groups) and not x87seen:
        t.add("x87-at-statement-boundary")
        x87seen = True
    for lp, n in zip(loops, (1, 1000)):
        if lp["pcount"] != n:
            t.add("probe-count")
        exp = 0
        if is_alloca and lp["pcount"] == n and lp["gna"] % n == 0:
            # storage deliberately obtained: 16 bytes (32 for the 32-byte request) per executed alloca / VLA, or freed
            per = lp["gna"] // n
            if lp["drift"] == 0 or (lp["drift"] < 0 and lp["drift"] % (16 * (n - 1) * per or 1) == 0 and
                                    -lp["drift"] <= 32 * (n - 1) * per):
                exp = lp["drift"]
        if lp["drift"] != exp or (not is_alloca and (lp["dmin"] or lp["dmax"])):
            if n > 1 and lp["pcount"] == n and lp["drift"] % (n - 1) == 0:
                t.add("rsp-drift-in-loop=%+d/iteration" % (lp["drift"] // (n - 1)))
            else:
                t.add("rsp-drift-in-loop=%+d/%dit" % (lp["drift"], n))
        if (lp["x87max"] or lp["x87first"] or lp["x87"]) and not x87seen:
            t.add("x87-in-loop")
    return sorted(t)


def run_batch(args):
    """Worker: compile one batch with both compilers, model-check chibicc's assembly, execute, compare.
    -> dict(results={key: {...}}, counters)"""
    chibicc, wd, name, keys, rt_objs, tier = args
    cases_all = CASES_BY_KEY
    cases = [(k, cases_all[k]["build"]) for k in keys]
    try:
        return _run_cases(chibicc, wd, name, cases, rt_objs)
    finally:
        if not os.environ.get("VERIF_C20_KEEP"):
            import shutil
            shutil.rmtree(wd, ignore_errors=True)


def _compile_filtering(compile_fn, wd, name, cases, on_reject):
    """Compile the unit made of `cases`; when the compiler names offending source lines, drop those cases (reported via
    on_reject(case, stderr)) and retry; otherwise bisect.  -> (surviving cases, unit text, driver text, table) or None"""
    while cases:
        unit, drv, table = build_sources(cases)
        text = twin.PRELUDE + unit
        u = os.path.join(wd, name + "_u.c")
        with open(u, "w") as f:
            f.write(text)
        ok, err = compile_fn(u)
        if ok:
            return cases, unit, drv, table
        # map reported lines to cases
        lines = text.split("\n")
        first = {}
        ln = len((twin.PRELUDE + unit_prelude()).split("\n"))     # 1-based line of the first case
        starts = []
        for k, (key, build) in enumerate(cases):
            starts.append(ln)
            ln += build(str(k))[0].count("\n")
        bad = set()
        for m in re.finditer(r"%s:(\d+):" % re.escape(os.path.basename(u)), err[1] if isinstance(err, tuple) else err):
            l = int(m.group(1))
            k = max((i for i, st in enumerate(starts) if st <= l), default=None)
            if k is not None:
                bad.add(k)
        if not bad:
            if len(cases) == 1:
                bad = {0}
            else:
                # no usable line information (crash, assembler error): bisect
                h = len(cases) // 2
                a = _compile_filtering(compile_fn, wd, name, cases[:h], on_reject)
                b = _compile_filtering(compile_fn, wd, name, cases[h:], on_reject)
                survivors = (a[0] if a else []) + (b[0] if b else [])
                if len(survivors) == len(cases):
                    raise core.HarnessError("unit compiles in halves but not as a whole: " + str(err)[-500:])
                cases = survivors
                continue
        for k in sorted(bad):
            on_reject(cases[k], err)
        cases = [c for k, c in enumerate(cases) if k not in bad]
    return None


def _run_cases(chibicc, wd, name, cases, rt_objs, depth=0):
    out = {"results": {}, "ref_rejected": 0, "cc_fail": [], "batches": 1, "callees": {}}
    os.makedirs(wd, exist_ok=True)
    if not cases:
        return out
    shim = _Shim(chibicc)
    ccobj = os.path.join(wd, name + "_cc.o")
    refobj = os.path.join(wd, name + "_ref.o")

    def cc(u):
        ok, stage, st, err = twin.cc_compile(shim, u, ccobj, ["-DPFX=cc_"], cwd=wd, timeout=900)
        cc.last = (stage, st)
        if not ok and st == "timeout" and len(cases) > 1:
            raise core.HarnessError("chibicc %s timed out on a batch of %d cases (machine load?): never a verdict" % (stage, len(cases)))
        return ok, err

    def cc_reject(case, err):
        out["cc_fail"].append((case[0], cc.last[0], cc.last[1], err[-600:]))

    def ref(u):
        return twin.ref_compile(u, refobj, ["-DPFX=ref_"], cwd=wd)

    def ref_reject(case, err):
        out["ref_rejected"] += 1
        out["results"][case[0]] = {"skip": "ref-rejected"}
    # the reference compiler first: a case gcc rejects is a generator problem (counted, skipped), never a verdict
    r = _compile_filtering(ref, wd, name, cases, ref_reject)
    if r is None:
        return out
    n_ref = len(r[0])
    r = _compile_filtering(cc, wd, name, r[0], cc_reject)
    if r is None:
        return out
    if len(r[0]) != n_ref:
        # recompile the reference object for the surviving set (function numbering changed)
        r2 = _compile_filtering(ref, wd, name, r[0], ref_reject)
        if r2 is None or len(r2[0]) != len(r[0]):
            raise core.HarnessError("case set unstable under filtering")
        # and leave the unit file / assembly of the chibicc twin in place for the model
        r = _compile_filtering(cc, wd, name, r[0], cc_reject)
        if r is None or len(r[0]) != len(r2[0]):
            raise core.HarnessError("case set unstable under filtering")
    cases, unit, drv, table = r
    dsrc = os.path.join(wd, name + "_d.c")
    with open(dsrc, "w") as f:
        f.write(drv)
    exe = os.path.join(wd, name + ".exe")
    st, o, e = core.run_limited(twin.GCC_DRV + ["-o", exe, dsrc, ccobj, refobj] + list(rt_objs) + ["-no-pie", "-Wl,-z,noexecstack", "-lm"],
                                cwd=wd, timeout=600)
    if st != 0:
        raise core.HarnessError("driver build failed: %s" % e[-1500:])
    st, o, e = core.run_limited([exe], cwd=wd, timeout=600)
    r = {"stdout": o}
    # ---- model ----
    asm = open(os.path.join(wd, name + "_cc.s")).read()
    callee_ld = {"cc_" + k: bool(v) for k, v in BASE_CALLEES.items()}
    callee_ld["vp_probe"] = False
    ret_ld = {}
    for key, fns in table:
        for fn, ld in fns:
            callee_ld["cc_" + fn] = ld
            ret_ld["cc_" + fn] = ld
    for k2, v in BASE_CALLEES.items():
        ret_ld["cc_" + k2] = bool(v)
    models = model_file(asm, ret_ld, callee_ld)
    out["callees"] = {}
    for k2 in BASE_CALLEES:
        m = models.get("cc_" + k2)
        if m is not None:
            out["callees"][k2] = {"static": m.viol, "unmodelled": m.unmodelled, "states": m.states, "transitions": m.transitions,
                                  "wipes": m.wipes}
    # ---- execution records ----
    recs = {}
    for line in r["stdout"].split("\n"):
        if line.startswith("R ") and line.count("|") == 8:
            try:
                idx, groups, loops = parse_record(line)
                recs[idx] = (groups, loops)
            except (ValueError, IndexError):
                pass
    vrecs = {}
    for line in r["stdout"].split("\n"):
        if line.startswith("V "):
            v = parse_vrecord(line)
            if v:
                vrecs[v[0]] = v[1]
    crashed = {}
    if len(recs) < len(cases):
        exe = os.path.join(wd, name + ".exe")
        for k in range(len(cases)):
            if k in recs:
                continue
            st, o, e = core.run_limited([exe, str(k)], cwd=wd, timeout=60)
            got = False
            for line in o.split("\n"):
                if line.startswith("R ") and line.count("|") == 8:
                    idx, groups, loops = parse_record(line)
                    recs[idx] = (groups, loops)
                    got = True
                elif line.startswith("V "):
                    v = parse_vrecord(line)
                    if v:
                        vrecs[v[0]] = v[1]
            if not got:
                crashed[k] = st
    for k, (key, fns) in enumerate(table):
        res = {"static": [], "unmodelled": [], "states": 0, "transitions": 0, "pred_x87": 0, "alloca_sites": 0, "fns": len(fns),
               "loops": 0, "values": 0, "values_unjudged": 0, "local_labels": 0, "wiped_by": []}
        own_fns = set("cc_" + fn for fn, ld in fns)
        pred_ok = True
        for fn, ld in fns:
            m = models.get("cc_" + fn)
            if m is None:
                res["unmodelled"].append("function not found in assembly")
                pred_ok = False
                continue
            res["states"] += m.states
            res["transitions"] += m.transitions
            res["alloca_sites"] += m.alloca_sites
            res["loops"] += 1 if m.has_backedge else 0
            res["local_labels"] += 1 if m.local_labels else 0
            if m.unmodelled:
                res["unmodelled"].append(m.unmodelled)
                pred_ok = False
                continue
            res["static"] += m.viol
            res["wiped_by"] += [("(function of the case)" if w in own_fns else w[3:]) for w in sorted(m.wiped_by)]
            if len(m.x87_ret) == 1:
                res["pred_x87"] += next(iter(m.x87_ret)) - (1 if ld else 0)
            else:
                pred_ok = False
        res["static"] = sorted(set(res["static"]))
        res["pred_ok"] = pred_ok
        if k in crashed:
            res["dynamic"] = ["crash-" + ("signal%d" % -crashed[k] if isinstance(crashed[k], int) and crashed[k] < 0
                                         else "timeout" if crashed[k] == "timeout" else "exit%s" % crashed[k])]
            res["measured"] = None
        elif k in recs:
            groups, loops = recs[k]
            res["dynamic"] = dynamic_tokens(groups, loops, key.startswith("alloca/"))
            res["measured"] = {"x87_n1": [groups[0]["x87"], groups[3]["x87"]], "x87_n9": [groups[2]["x87"], groups[5]["x87"]],
                               "ldok": [g["ldok"] for g in groups], "drift1000": loops[1]["drift"], "x87max_loop": loops[1]["x87max"]}
            if conv_grid_kind(key):
                toks, nvals, unjudged = value_tokens(key, vrecs.get(k))
                res["dynamic"] = sorted(set(res["dynamic"]) | set(toks))
                res["values"], res["values_unjudged"] = nvals, unjudged
                res["measured"]["x87_per_value"] = [v["x87"] for v in vrecs.get(k, [])]
        else:
            res["dynamic"] = ["no-record"]
            res["measured"] = None
        # model prediction against the machine (decided here so that clean cases need not carry their measurements)
        m = res["measured"]
        res["ldbad"] = bool(m and not all(m["ldok"]))
        res["validated"] = res["mismatch"] = False
        if m and res["pred_ok"] and not res["unmodelled"]:
            pred_rsp_clean = not any(t.startswith("rsp") for t in res["static"])
            meas_rsp_clean = not any(t.startswith("rsp") for t in res["dynamic"])
            if res["pred_x87"] == m["x87_n1"][0] == m["x87_n1"][1] and pred_rsp_clean == meas_rsp_clean:
                res["validated"] = True
            elif not res["static"] and not res["dynamic"]:
                res["validated"] = True
            else:
                res["mismatch"] = True
        if not res["static"] and not res["dynamic"] and not res["unmodelled"] and res["validated"] and not res["ldbad"] and k >= 2:
            # clean, validated case: compact record (states, transitions, functions, functions with loops, alloca sites)
            res = (res["states"], res["transitions"], res["fns"], res["loops"], res["alloca_sites"], res["values"], res["values_unjudged"], res["local_labels"])
        out["results"][key] = res
    return out


CASES_BY_KEY = {}


def devs(r):
    return ["S:" + t for t in r["static"]] + ["D:" + t for t in r["dynamic"]]


CONSEQUENCE = "D:result-differs-from-gcc-twin"     # also a downstream effect of every x87 anomaly


def root_causes(case, res, results):
    """Attribute the anomalies of one case to the simplest enumerated cases that show them:
      - the consumption context, if the plain variable of that type shows them in the same context
      - the smallest sub-expression that shows them in the neutral context (`T v = E`)
    -> list of (class label, deviation string); anomalies nothing simpler explains are attributed to the case itself."""
    own = devs(res)
    ctx, T, desc = case["ctx"], case["T"], case["desc"]
    if ctx == "jump":
        # one root cause per jump kind: the magnitude only reflects how many temporaries were pending
        kind = desc.split("/")[0]
        cls = set()
        for t in own:
            if "rsp" in t:
                cls.add("leaks=rsp")
            elif "x87" in t:
                cls.add("leaks=x87")
            elif t != CONSEQUENCE:
                cls.add(re.sub(r"[=(][-+]?\d+\)?", "", t))
        cls = sorted(cls) or own
        return [(("jump-out-of-stmtexpr|%s" % kind) if kind != "none" else "stmtexpr-without-jump|%s|%s" % (desc, T), ",".join(cls))]
    if ctx == "alloca":
        return [("%s|%s" % (ctx, desc), ",".join(own))]
    if ctx == "conv":
        # one class per (source type, target type): the conversion sequence is the same in every consumption context
        return [("conv=%s" % desc, ",".join(own))]

    def dev_of(cid):
        r = results.get(cid)
        if not r or isinstance(r, tuple) or "skip" in r:
            return []
        return devs(r)
    causes = []
    explained = set()
    if desc not in ("v", "c"):
        d = dev_of("%s/%s/v" % (ctx, T))
        if d:
            causes.append(("ctx=%s|ty=%s" % (ctx, T), ",".join(d)))
            explained |= set(d)
    cands = []
    for sub, st in subexprs(desc):
        if st is None:
            continue
        # the form itself with plain operands (its "skeleton"), then the sub-expression as it stands
        for shape in (skeleton(sub), skeleton2(sub), sub):
            if shape == desc and ctx == ("init" if st != "v" else "exprstmt"):
                continue
            d = dev_of("init/%s/%s" % (st, shape)) if st != "v" else dev_of("exprstmt/v/%s" % shape)
            if d:
                cands.append((len(sub), sub, shape, d))
                break
    cands.sort()
    kept = []
    for n, sub, shape, d in cands:
        if any(k in sub for k in kept):
            continue                    # a smaller failing sub-expression inside this one already explains it
        kept.append(sub)
        if ("form=%s" % shape, ",".join(d)) not in causes:
            causes.append(("form=%s" % shape, ",".join(d)))
        explained |= set(d)
    rest = [t for t in own if t not in explained and not (t == CONSEQUENCE and explained)]
    if rest and not causes:
        if desc in ("v", "c"):
            causes.append(("ctx=%s|ty=%s" % (ctx, T), ",".join(own)))
        elif ctx == ("init" if T != "v" else "exprstmt"):
            causes.append(("form=%s" % desc, ",".join(own)))
        else:
            causes.append(("ctx=%s|form=%s" % (ctx, desc), ",".join(rest)))
    return causes


def skeleton(sub):
    """head(v,..,v): the top-level form of a descriptor with plain variables as operands"""
    i = sub.find("(")
    if i < 0:
        return sub
    depth = 0
    n = 1
    for ch in sub[i + 1:-1]:
        if ch == "(":
            depth += 1
        elif ch == ")":
            depth -= 1
        elif ch == "," and depth == 0:
            n += 1
    return sub[:i] + "(" + ",".join(["v"] * n) + ")"


def split_args(sub):
    """head(a,b,..) -> (head, [a, b, ..]); a leaf -> (leaf, [])"""
    i = sub.find("(")
    if i < 0:
        return sub, []
    args, depth, cur = [], 0, ""
    for ch in sub[i + 1:-1]:
        if ch == "(":
            depth += 1
        elif ch == ")":
            depth -= 1
        if ch == "," and depth == 0:
            args.append(cur)
            cur = ""
        else:
            cur += ch
    args.append(cur)
    return sub[:i], args


def skeleton2(sub):
    """the top-level form with the skeletons of its operands: member.Sa(comma.e>S(neg.e(v),v)) -> member.Sa(comma.e>S(v,v))"""
    head, args = split_args(sub)
    if not args:
        return sub
    return head + "(" + ",".join(skeleton(a) for a in args) + ")"


def subexprs(desc):
    """-> [(sub-descriptor, result type letter or None)] for every composite sub-expression (the whole included)"""
    out = []

    def term(i):
        j = i
        while j < len(desc) and desc[j] not in "(),":
            j += 1
        k = j
        if k < len(desc) and desc[k] == "(":
            k += 1
            while True:
                k = term(k)
                if desc[k] == ",":
                    k += 1
                    continue
                if desc[k] == ")":
                    k += 1
                    break
        t = desc[i:k]
        if t not in ("v", "c"):
            out.append(t)
        return k
    term(0)
    return [(t, desc_type(t)) for t in out]


def desc_type(d):
    """result type letter of a descriptor (from its head)"""
    head = d.split("(")[0]
    name, _, t = head.partition(".")
    if name in ("not", "eq", "ne", "lt", "le", "gt", "ge", "land", "lor", "deref", "mstore", "bfstore", "bfaddasg", "bfread",
                "bfpostinc", "bfpredec"):
        return "l" if t == "z" else "i"
    if name == "cast":
        return {"b": "i", "c": "i"}.get(t.split(">")[1], t.split(">")[1])
    if name in ("ptrdiff",):
        return "l"
    if name == "condmix":
        return "v"
    if name == "member":
        return {"Sa": "l", "La": "l", "Sb": "i", "Ev": "e"}.get(t)
    if name in ("padd", "psub", "addr"):
        return "p"
    if name == "call":
        if t.startswith("h") or t in ("k7", "k8", "fc", "fb", "fs"):
            return "i"
        if t == "fE":
            return None
        if t == "k9d":
            return "d"
        if t == "k7e":
            return "e"
        return t[-1]
    if t and t[-1] in ALLT + "v":
        return t[-1]
    return None


REPLAY_SH = """python3 "$VERIF/checks/c20.py" replay . "$CHIBICC"
"""


def replay_main(d, chibicc):
    """Re-run one case from a replay directory: exit 1 iff the recorded anomaly class reproduces."""
    global PRELUDE_FILE
    info = json.load(open(os.path.join(d, "case.json")))
    if os.path.exists(os.path.join(d, "c20_unit.h")):
        PRELUDE_FILE = os.path.join(d, "c20_unit.h")      # the prelude the case was generated against
    wd = os.path.join(d, "w")
    os.makedirs(wd, exist_ok=True)
    rt = build_rt(wd)
    src = open(os.path.join(d, "case.c")).read()
    fns = [tuple(x) for x in info["fns"]]
    key = info["id"]

    def build(F):
        return src, fns
    o = _run_cases(chibicc, wd, "r", [(key, build)], rt)
    if o["cc_fail"]:
        print("chibicc fails on the case:", o["cc_fail"][0][1:4])
        return 1 if info["expect"] == "cc-fail" else 0
    if info["expect"].startswith("callee:"):
        m = o["callees"].get(info["expect"][7:], {})
        print(json.dumps(m))
        return 1 if m.get("static") else 0
    r = o["results"].get(key, {})
    print(json.dumps({k: r.get(k) for k in ("static", "dynamic", "unmodelled", "measured")}))
    got = set(["S:" + t for t in r.get("static", [])] + ["D:" + t for t in r.get("dynamic", [])])
    want = set(info["expect"].split(","))
    return 1 if got & want else 0


def build_rt(wd):
    objs = []
    for f, flags in (("c20_probe.S", []), ("c20_rt.c", ["-O1", "-w", "-std=gnu11", "-fno-pie"])):
        o = os.path.join(wd, f.rsplit(".", 1)[0] + ".o")
        rc, so, se = core.sh(["gcc"] + flags + ["-c", "-o", o, os.path.join(HARNESS, f)])
        if rc != 0:
            raise core.HarnessError("cannot build %s: %s" % (f, se[-1000:]))
        objs.append(o)
    return objs


STMTEXPR_MEMBER_PROBE = "int FN(c0)(void) { int k; for (k = 0; k < gn; k++) { P; rl = (({ gs[2]; }).a); ri = (({ gL[2]; }).a[1]) != 0; } return k; }\n"


def probe_stmtexpr_member(ctx):
    """Capability probe: does this chibicc accept `.member` on a statement expression (gcc does)?  The pinned tree rejects
    it in the code generator ("not an lvalue"); then the family is reported once and left out of the enumeration."""
    wd = ctx.mkdir("cap")
    u = os.path.join(wd, "cap_u.c")
    with open(u, "w") as f:
        f.write(twin.PRELUDE + unit_prelude() + STMTEXPR_MEMBER_PROBE)
    ok, err = twin.ref_compile(u, os.path.join(wd, "cap_ref.o"), ["-DPFX=ref_"], cwd=wd)
    if not ok:
        raise core.HarnessError("gcc rejects the statement-expression member probe: " + err[-500:])
    ok, stage, st, err = twin.cc_compile(_Shim(ctx.chibicc), u, os.path.join(wd, "cap_cc.o"), ["-DPFX=cc_"], cwd=wd)
    if not ok:
        ctx.violation("C20|member-of-stmtexpr|cc-fail(%s,%s)" % (stage, st),
                      "chibicc %s fails (status %s) on member access on a struct-valued statement expression `({ s; }).m` "
                      "(valid GNU C, accepted by gcc): %s" % (stage, st, err[-200:]),
                      files={"case.c": STMTEXPR_MEMBER_PROBE, "c20_unit.h": unit_prelude(),
                             "case.json": json.dumps({"id": "cap/member-of-stmtexpr", "fns": [["c0", False]], "expect": "cc-fail"})},
                      replay=REPLAY_SH)
    return ok


def check_grids():
    """vacuity guard: the operand grids put values on both sides of every class boundary, for every source type"""
    for f, fty, fw, fs in CONV_TYPES:
        n = len(FGRID) if fw is None else len(IGRID)
        cls = set(value_class(grid_value(f, j)) for j in range(n))
        want = set(VAL_CLASSES) if fw is None else {"lt2^31"} | ({"neg"} if fs else set()) | \
            ({"ge2^31"} if fw >= 32 and not (fw == 32 and fs) else set()) | ({"ge2^32"} if fw == 64 else set()) | \
            ({"ge2^63"} if fw == 64 and not fs else set())
        if not want <= cls:
            raise core.HarnessError("operand grid of %s lacks the value classes %s" % (fty, sorted(want - cls)))


def run(ctx):
    global CASES_BY_KEY
    check_grids()
    cap = probe_stmtexpr_member(ctx)
    ctx.cover(member_of_statement_expression_enumerated="yes" if cap else "no (rejected by this chibicc)")
    cases = enumerate_cases(ctx.tier, cap)
    CASES_BY_KEY = {c["id"]: c for c in cases}
    if len(CASES_BY_KEY) != len(cases):
        raise core.HarnessError("duplicate case ids")
    rtd = ctx.mkdir("rt")
    rt = build_rt(rtd)
    if os.environ.get("VERIF_C20_FILTER"):
        # debugging aid: restrict the run to the case ids matching a regular expression (never a complete run)
        cases = [c for c in cases if re.search(os.environ["VERIF_C20_FILTER"], c["id"]) or c["size"] <= 1]
        ctx.incomplete("VERIF_C20_FILTER=%s: %d cases only" % (os.environ["VERIF_C20_FILTER"], len(cases)))
    if os.environ.get("VERIF_C20_ONLY"):
        cases = [c for c in cases if re.search(os.environ["VERIF_C20_ONLY"], c["id"])]
        ctx.incomplete("VERIF_C20_ONLY=%s: %d cases only" % (os.environ["VERIF_C20_ONLY"], len(cases)))
    keys = [c["id"] for c in cases]
    # shard: interleave so that every batch has a similar mix; VERIF_SEED only rotates the assignment
    nb = max(1, (len(keys) + BATCH - 1) // BATCH)
    nb = max(nb, min(core.NPROC, (len(keys) + 199) // 200))
    if nb > core.NPROC:
        nb = (nb + core.NPROC - 1) // core.NPROC * core.NPROC       # whole rounds of the process pool
    batches = [[] for _ in range(nb)]
    for i, k in enumerate(keys):
        batches[(i + ctx.seed) % nb].append(k)
    args = [(ctx.chibicc, os.path.join(ctx.work, "b%d" % i), "b%d" % i, b, rt, ctx.tier) for i, b in enumerate(batches)]
    results = {}
    ref_rejected = 0
    cc_fail = []
    done_batches = 0
    callees = {}
    # run in waves so that the deadline can stop the enumeration between waves
    wave = len(args) if len(args) <= core.NPROC * 4 else core.NPROC * 2
    for w in range(0, len(args), wave):
        if ctx.out_of_time(reserve=60):
            ctx.incomplete("deadline: %d of %d batches (%d cases) finished" % (done_batches, len(args), len(results)))
            break
        for o in core.pmap(run_batch, args[w:w + wave]):
            results.update(o["results"])
            ref_rejected += o["ref_rejected"]
            cc_fail += o["cc_fail"]
            done_batches += 1
            if not callees:
                callees = o["callees"]
            elif o["callees"] and json.dumps(o["callees"], sort_keys=True) != json.dumps(callees, sort_keys=True):
                raise core.HarnessError("the shared callees were compiled differently in different batches")
    judge(ctx, cases, results, ref_rejected, cc_fail, callees)


def judge(ctx, cases, results, ref_rejected, cc_fail, callees):
    by_id = {c["id"]: c for c in cases}
    prelude_text = unit_prelude()
    # the shared callees (every return class, 0..8 parameters) are model-checked once
    callee_states = callee_unmodelled = 0
    for name, m in sorted(callees.items()):
        callee_states += m["states"]
        if m["unmodelled"]:
            callee_unmodelled += 1
        if m["static"]:
            ctx.violation("C20|callee=%s|%s" % (name, ",".join("S:" + t for t in m["static"])),
                          "shared callee %s of harness/c20_unit.h: model %s" % (name, m["static"]),
                          files={"case.c": "int FN(c0)(void) { P; return 0; }\n",
                                 "case.json": json.dumps({"id": "callee/" + name, "fns": [["c0", False]], "expect": "callee:" + name})},
                          replay=REPLAY_SH)
    states = transitions = validated = fns = 0
    unmodelled = 0
    unmodelled_why = {}
    pred_mismatch = 0
    judged = 0
    clean = 0
    static_only = dynamic_only = both = 0
    ld_corrupt = 0
    loops = 0
    alloca_sites = 0
    conv_values = conv_unjudged = local_labels = 0
    for key, stage, code, err in cc_fail:
        c = by_id[key]
        ctx.violation("C20|%s|%s|cc-fail(%s,%s)" % (c["ctx"], c["desc"] if c["ctx"] in ("jump", "alloca", "conv") else "form=" + c["desc"], stage, code),
                      "chibicc %s fails (status %s) on a valid generated function %s: %s" % (stage, code, key, err[-200:]),
                      files={"case.c": c["build"]("0")[0], "case.json": json.dumps({"id": key, "fns": c["build"]("0")[1], "expect": "cc-fail"})},
                      replay=REPLAY_SH)
    for c in cases:
        r = results.get(c["id"])
        if r is None:
            continue
        if isinstance(r, tuple):
            judged += 1
            clean += 1
            validated += 1
            states += r[0]
            transitions += r[1]
            fns += r[2]
            loops += r[3]
            alloca_sites += r[4]
            conv_values += r[5]
            conv_unjudged += r[6]
            local_labels += r[7]
            continue
        if "skip" in r:
            continue
        judged += 1
        states += r["states"]
        transitions += r["transitions"]
        fns += r["fns"]
        loops += r["loops"]
        alloca_sites += r["alloca_sites"]
        conv_values += r.get("values", 0)
        conv_unjudged += r.get("values_unjudged", 0)
        local_labels += r.get("local_labels", 0)
        if r["unmodelled"]:
            unmodelled += 1
            for w in r["unmodelled"]:
                w = re.sub(r"[-\d]+\(%rbp\)|\$\d+", "N", w)
                unmodelled_why[w] = unmodelled_why.get(w, 0) + 1
        ld_corrupt += 1 if r["ldbad"] else 0
        validated += 1 if r["validated"] else 0
        pred_mismatch += 1 if r["mismatch"] else 0
        if not r["static"] and not r["dynamic"]:
            clean += 1
            continue
        if r["static"] and r["dynamic"]:
            both += 1
        elif r["static"]:
            static_only += 1
        else:
            dynamic_only += 1
        src, fl = c["build"]("0")
        expect = ",".join(devs(r))
        desc = ("%s: model %s; machine %s; measured %s" % (c["id"], r["static"] or "clean", r["dynamic"] or "clean", r["measured"]))
        if c["E"]:
            desc += "; expression `%s` of type %s in context %s" % (c["E"], CT[c["T"]], c["ctx"])
        if r.get("wiped_by"):
            # root cause = the callee: it empties the x87 stack on which this function holds a long double operand while it
            # evaluates the call (everything else the case shows - underflow, NaN result - follows from that)
            causes = [("callee=%s" % w, "S:callee-changes-x87-stack-of-caller") for w in sorted(set(r["wiped_by"]))]
        else:
            causes = root_causes(c, r, results)
        for label, dev in causes:
            sig = "C20|%s|%s" % (label, dev)
            ctx.violation(sig, desc,
                          files={"case.c": src, "c20_unit.h": prelude_text,
                                 "case.json": json.dumps({"id": c["id"], "fns": fl, "expect": expect, "sig": sig})},
                          replay=REPLAY_SH)
    def model_guard(msg):
        # The model cannot vouch for this tree.  The machine measurements (x87 tag word / TOP / %rsp probes, gcc twin) are
        # verdicts on their own: when they found violations those are reported (the run is marked not exhaustive);
        # without any, a clean exit would be unfounded -> harness error.
        if not ctx.violations:
            raise core.HarnessError(msg)
        ctx.incomplete("model part not usable on this tree (%s): verdicts from the machine measurements only" % msg)
    if judged == 0 or states == 0:
        raise core.HarnessError("vacuous run: judged=%d states=%d validated=%d" % (judged, states, validated))
    if validated == 0:
        model_guard("no case validated against the machine: judged=%d states=%d unmodelled=%d %s" % (judged, states, unmodelled, unmodelled_why))
    if loops < judged // 2:
        model_guard("vacuous model: only %d of %d functions contain a back edge" % (loops, fns))
    if unmodelled > judged // 4:
        model_guard("model vocabulary lost: %d of %d cases unmodelled: %s" % (unmodelled, judged, unmodelled_why))
    if os.environ.get("VERIF_C20_DUMP"):
        with open(os.environ["VERIF_C20_DUMP"], "w") as f:
            json.dump({"results": results, "cc_fail": cc_fail}, f)
    by_ctx = {}
    by_size = {}
    for c in cases:
        if c["id"] in results:
            by_ctx[c["ctx"]] = by_ctx.get(c["ctx"], 0) + 1
            by_size[str(c["size"])] = by_size.get(str(c["size"]), 0) + 1
    ctx.cover(callee_functions_modelled=len(callees), callee_states=callee_states, callee_unmodelled=callee_unmodelled,
              callees_emptying_the_x87_stack=sorted(n for n, m in callees.items() if m.get("wipes")))
    ctx.cover(states=states + callee_states, transitions=transitions, traces_validated_against_impl=validated, cases=judged, functions_modelled=fns,
              functions_with_loops=loops, unmodelled_cases=unmodelled, unmodelled_reasons=unmodelled_why,
              model_vs_machine_disagreements=pred_mismatch, clean_cases=clean, anomalous_static_and_dynamic=both,
              anomalous_static_only=static_only, anomalous_dynamic_only=dynamic_only, later_long_double_corrupted_cases=ld_corrupt,
              ref_rejected=ref_rejected, cc_fail=len(cc_fail), alloca_idiom_sites=alloca_sites, cases_by_context=by_ctx,
              cases_by_size=by_size, conversion_cases=by_ctx.get("conv", 0), conversion_operand_values_executed=conv_values,
              conversion_values_result_unjudged_undefined_or_impl_defined=conv_unjudged,
              conversion_value_grids={"integer": len(IGRID), "floating": len(FGRID)},
              functions_with_jumps_to_local_numeric_labels=local_labels, executions_per_case="N=1,2,9 calls x gc=0,1 (loop count 1) + loop counts 1 and 1000; conversion cases additionally one "
              "call per operand value of the grid",
              rule=RULE[ctx.tier])
    nsamp = 0
    for c in cases:
        r = results.get(c["id"])
        if nsamp >= 6:
            break
        if r and not isinstance(r, tuple) and "skip" not in r and r.get("measured") and (nsamp < 2 or r["static"] or c["ctx"] == "alloca"):
            nsamp += 1
            ctx.sample({"case": c["id"], "source": c["build"]("0")[0], "model": {"states": r["states"], "transitions": r["transitions"],
                        "anomalies": r["static"], "unmodelled": r["unmodelled"], "predicted_x87_per_call": r["pred_x87"] if r["pred_ok"] else "not single-valued"},
                        "machine": {"anomalies": r["dynamic"], "measured": r["measured"]}})
    ctx.assume("gcc -O0 is the value reference; operands are chosen so that no case has undefined behaviour (read-only divisors "
               "and shift counts, one lvalue object per composite node, bounded magnitudes)")
    ctx.assume("callee return classes are known from the generator; the x87 stack is empty on function entry")
    ctx.assume("the assembler, linker and CPU are trusted; fnstenv tag word = x87 depth")


RULE = {
    "quick": "every expression form (all arithmetic/bitwise/shift/comparison/logical operators, casts between all scalar classes and "
             "to _Bool/char/void, ?: and GNU ?:, comma, =, op=, ++/--, member/bit-field loads and stores, compound literals, * and &, "
             "pointer arithmetic, calls of every return class with 0/1/2 register arguments and 1/2/3/6 stack argument words, "
             "statement expressions) of size 0..1 composite nodes x result type {int,long,float,double,long double,int*,16-byte "
             "struct (registers),24-byte struct (memory),void} x 23 consumption contexts {expression statement, for-increment, "
             "comma lhs, call argument, left/right operand (left operand of a struct = `.member` applied to it), initializer, "
             "if/while/do/for condition, ?: condition, switch, return, 9 pending-operand contexts}; every size-2 composition in the contexts initializer and "
             "expression statement.  Dropped / tested operands of every type: comma with a left operand of each of the 8 types and "
             "void, ?: with the int flag and with a condition operand of each of the 6 scalar types (both truth values executed), ?: "
             "with exactly one void arm and the other arm of each of the 8 types, void leaf (void)0; `.member` on struct-valued "
             "comma / ?: / assignment / call (lvalue context) and, when the compiler accepts it, on statement expressions.  "
             "Conversions: 156 ordered pairs of the 13 arithmetic types x 3 contexts, each executed on the whole operand value grid "
             "of its source type (28 integer / 39 floating values: both sides of 0, 2^7, 2^8, 2^15, 2^16, 2^31, 2^32, 2^63, 2^64, "
             "negative, +-inf, +-NaN), x87 tag word / TOP / %rsp read after every value; the model follows jumps to local numeric "
             "labels inside `;`-joined instruction strings.  Every jump kind {break,continue,goto,goto*,return,none} out of a "
             "statement expression x 13 pending-temporary shapes x 6 types; 6 alloca/VLA idioms.  Right operands of / % << >> are "
             "read-only leaves; one lvalue object per composite node.  "
             "Operand type pairs (size 1, all contexts): && || over 6x6 scalar types with the right operand evaluated (left operand "
             "zero/non-zero by the flag; right operand non-zero / zero), GNU ?: over 5x5 arithmetic pairs + pointers, 6 comparisons "
             "and + - * / over the 20 mixed arithmetic pairs (all ten operators for int x long), pointer +- long, ?: arms of mixed "
             "types with int / long double condition, = and op= over destination x source pairs, argument -> parameter and return "
             "conversions.  9 pending-operand contexts: E under a pending int/long/float/double/long double addend, under a pending "
             "long double comparison, under two pending long doubles, as argument after/before a long double argument - for every "
             "size-0/1 form (size 2 under the pending long double contexts in thorough), including calls of chibicc-compiled callees "
             "of 13 return classes {void,char,_Bool,short,int,long,float,double,long double,pointer,struct regs,struct memory,"
             "struct{long double}}.  (void)(void)E for every size-1 E of every type in 5 value-dropping contexts.  Model: emms/femms/"
             "fninit/finit empty the x87 stack (callee summaries propagated to call sites to a fixpoint), ffreep/ffree+fincstp pops.",
    "thorough": "as quick, with every size-2 composition in the 14 base contexts and the 3 pending-long-double contexts, the binary "
                "operand-type-pair forms with either operand replaced by every size-1 expression of its type (initializer, pending "
                "long double), and every size-3 composition in the context initializer "
                "(size-3 parents restricted to one representative per code path: + among arithmetic and op=, < among comparisons; "
                "inside size-3 trees the dropped comma operand is int or long double, the typed ?: condition and the non-void arm "
                "of a one-void-arm ?: are long double).",
}


if __name__ == "__main__":
    if len(sys.argv) >= 4 and sys.argv[1] == "replay":
        sys.exit(replay_main(os.path.abspath(sys.argv[2]), sys.argv[3]))
    if len(sys.argv) >= 2 and sys.argv[1] == "count":
        for t in ("quick", "thorough"):
            cs = enumerate_cases(t)
            print(t, len(cs))
        sys.exit(0)
    print(__doc__)
