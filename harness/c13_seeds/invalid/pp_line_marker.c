#line x
