// C11 white-box harness: the tree's own unicode.c is #included (chibicc.h comes from a `#pragma once` shim in the
// build directory).  For every code point in [lo, hi) given on the command line (surrogates skipped) it writes one
// 16-byte record to stdout:
//   bytes 0-3 cp | 4 enc_len (0x80 set: wrote outside its bytes, 0xFF: called error) | 5-8 enc bytes | 9 bytes consumed by decode |
//   10 decode called error_at | 11 bit0 is_ident1, bit1 is_ident2 | 12-15 decoded code point
// encode_utf8 is called on a 0xAA-filled buffer (writes beyond enc_len are visible as a guard mismatch -> enc_len |= 0x80);
// decode_utf8 is called on the *reference* UTF-8 encoding computed here from the definition (ISO 10646 table), followed by
// a trailing 'Z', so that decode is checked independently of encode.
#include <setjmp.h>
#include <stdarg.h>
#include "unicode.c"

static jmp_buf jb;
static int in_call;
void error_at(char *loc, char *fmt, ...) { if (in_call) longjmp(jb, 1); _exit(3); }
void error(char *fmt, ...) { if (in_call) longjmp(jb, 1); _exit(3); }

static int ref_utf8(unsigned char *b, uint32_t c) {
  if (c < 0x80) { b[0] = c; return 1; }
  if (c < 0x800) { b[0] = 0xC0 | (c >> 6); b[1] = 0x80 | (c & 0x3F); return 2; }
  if (c < 0x10000) { b[0] = 0xE0 | (c >> 12); b[1] = 0x80 | ((c >> 6) & 0x3F); b[2] = 0x80 | (c & 0x3F); return 3; }
  b[0] = 0xF0 | (c >> 18); b[1] = 0x80 | ((c >> 12) & 0x3F); b[2] = 0x80 | ((c >> 6) & 0x3F); b[3] = 0x80 | (c & 0x3F);
  return 4;
}

int main(int argc, char **argv) {
  uint32_t lo = strtoul(argv[1], 0, 0), hi = strtoul(argv[2], 0, 0);
  static unsigned char rec[16];
  for (uint32_t c = lo; c < hi; c++) {
    if (c >= 0xD800 && c <= 0xDFFF) continue;
    memset(rec, 0, sizeof rec);
    memcpy(rec, &c, 4);
    unsigned char buf[12];
    memset(buf, 0xAA, sizeof buf);
    in_call = 1;
    if (setjmp(jb) == 0) {
      int n = encode_utf8((char *)buf + 2, c);
      rec[4] = (unsigned char)n;
      if (n >= 0 && n <= 4) {
        memcpy(rec + 5, buf + 2, n);
        if (buf[0] != 0xAA || buf[1] != 0xAA) rec[4] |= 0x80;
        for (int i = 2 + n; i < 12; i++) if (buf[i] != 0xAA) rec[4] |= 0x80;
      }
    } else rec[4] = 0xFF;
    unsigned char src[8];
    int rn = ref_utf8(src, c);
    src[rn] = 'Z'; src[rn + 1] = 0;
    if (setjmp(jb) == 0) {
      char *np = 0;
      uint32_t d = decode_utf8(&np, (char *)src);
      rec[9] = (unsigned char)(np - (char *)src);
      memcpy(rec + 12, &d, 4);
    } else rec[10] = 1;
    if (setjmp(jb) == 0) { rec[11] = is_ident1(c) ? 1 : 0; rec[11] |= is_ident2(c) ? 2 : 0; } else rec[11] = 0xFF;
    in_call = 0;
    fwrite(rec, 1, 16, stdout);
  }
  return 0;
}
