"""C09  Macro expansion follows C11 6.10.3 and terminates.

Bounded-exhaustive enumeration (simplest first) of (macro definitions, invocation text) cases in ten families:

  F1  # / ## bodies        every body of <= L tokens over {p q # ## x , 1} for object-like macros and function-like
                           macros with 0..2 parameters x every argument tuple over ARGS for the parameters the body uses
  F2  recursion digraphs   every edge set on <= N macro names x every object/function-like assignment x reference style
                           x invocations starting at each node, applied, unapplied and completed by following tokens
  F3  argument collection  every invocation text of <= T tokens over {F ( ) , a newline} x parameter shapes
                           (0,1,2, variadic, named variadic) x (plain, stringizing) bodies
  F4  variadics            every body of <= V tokens over {V p , ## # x __VA_OPT__( )} x shapes x argument lists
  F5  definition parsing   name/paren spacing x parameter list spelling x body x redefinition mode x invocation
  F7  rescanning           every text of <= R tokens over {I F N LP RP CM ( ) , a} where LP RP CM N are object-like
                           macros producing ( ) , and a function-like macro's name
  F6  dynamic macros       sequences over __COUNTER__ __LINE__ __FILE__ __BASE_FILE__ direct, through object-like and
                           function-like macros, stringized, pasted, over several lines
  F8  two-level # / ##     outer O(p,q) and O(p,...) whose body is IN ( e ) for every operand expression e of <= L
                           tokens over {p q|__VA_ARGS__ # ## x} and every chain A ## B ## C over {p q|__VA_ARGS__ x}
                           x inner macro IN that is the identity, stringizes, pastes on the left / right, or
                           expands-then-stringizes (F8_INNERS)
                           x argument grid (empty, identifier, object-like macro name with several / no tokens,
                           invocation of another macro, several tokens, invocation of O itself, ...) for p and q:
                           whether an argument was or was not macro-expanded before it was substituted is visible
                           for every operand position of # and ##, including `placemarker ## q` and results of ##
                           that name another macro (F8_HELPERS: aM xM kM Mx Ma aG xG kG Gx Ga ...)

  F9  recursion through    the digraphs of F2 on names made of two halves (Ra Rb Rc / aR bR cR) with every edge spelled
      names created by ##  by a paste (F9_STYLES): L ## R (both halves literal), p ## R / L ## p (one half a parameter of
                           the function-like macro itself), J ( L , R ) and JA ( R ) (through a second macro that pastes
                           two parameters / a parameter and a literal), uniformly and as ONE pasted edge among literal
                           ones, plus both halves parameters of the macro itself (#define Ra(p,q) .. p ## q ..);
                           object-like and function-like nodes, references applied and bare, invocations from node 0
                           (every labelled digraph in which node 0 reaches all nodes).  6.10.3.4p2 holds for a name
                           however it came into the replacement list: a cycle closed by ## must stop, and a pasted name
                           that is not being replaced must be replaced.  A chibicc that loops is killed by the address
                           space limit (MEM_ALONE; confirmed through harness/c09_limit.c) and the verdict is `hang`.
  F10 arguments that must  every body of <= L tokens over {p q # ## x} (also empty, also without the parameter) for
      NOT be expanded      shapes (p) (p,q) (...) (p,...) x arguments F10_ARGS that are not a complete valid invocation
                           on their own: T(1), T(1,2,3), T() for a two-parameter T, Z(1) for a parameterless Z, an
                           object-like U whose replacement list is `T (`, bare function-like names, these next to
                           other tokens, the macro itself with a wrong count; 6.10.3.1p1 expands an argument only
                           for a parameter that is not an operand of # / ##, so a parameter that is only stringized,
                           only pasted or not used takes such an argument as spelled (tokens AND acceptance compared);
                           where the parameter is also used plainly the model calls the case undefined (termination
                           only).  The side-effect variant (__COUNTER__ as such an argument, the next __COUNTER__
                           shows whether a value was consumed) lives in F6 (items S K N SD).

Literal arguments of # (6.10.3.2p2: a \\ is inserted before each " and \\ of a string literal or character constant,
and nowhere else).  In every family in which # can see an argument - F1 bodies holding `# p`, the stringizing shapes of
F3, F4 bodies with `# __VA_ARGS__` / `# p` / `# __VA_OPT__(...)`, the F5 body `# p`, F8 operand expressions holding #
and F8 inner macros that stringize (an argument is stringized after it was macro-expanded; a result of # is stringized
again: nested quoting) - the arguments also range over
  LITERALS     {"" L u U u8} x " x LIT_STR_TEXTS and {"" L u U} x ' x LIT_CHR_TEXTS, the texts being: empty (strings),
               \\n \\\\ \\' \\" \\0 \\x41, a bare quote of the other kind (' in a string, " in a character constant), a plain
               letter, \\\\\\" and a\\\\ (strings), and the delimiters of argument collection , ( )        (114 literals)
  LIT_PHRASES  several tokens (c == '"', adjacent literals with / without white space, across new-lines), a prefix
               letter separated from its literal (L '\\n', u8'a'), multi-character constant, the pp-tokens ` and lone
               backslash next to literals (valid "other" pp-tokens; a lone ' or " is undefined and not enumerated), and
               object-like macros QC QS whose replacement lists are literals
  LIT_CORE / LIT_MINI   reduced sets (one literal per kind of difficulty) for the larger bodies and for pairs
(bounds: F1_LIT_BOUND, F3_LIT_BOUND, F4_LIT_BOUND, F8_LIT; evidence key stringize_literal_alphabet).  The text of a
stringized result is compared byte for byte: it is one pp-token spelling in the model's, gcc's and chibicc's token
sequences, and the model accepts a result only if it re-lexes as ONE string literal (else the case is undefined).
The known deviation "backslash outside a literal is doubled" (findings.d/C09.txt) gets its signature only when the
operand of # holds a backslash outside a literal AND chibicc's tokens equal the model's with exactly that deviation
transcribed (cpp.stringize(escape_everything=True)); a wrongly escaped literal never matches it.

Name sets.  Hiding (6.10.3.4p2) depends on the identity of a macro name, not on resemblance: F2 is enumerated over
six name sets (F2_NAMINGS: names differing in the first character only; each a proper prefix of the next: M M_ M_x;
each a proper suffix of the next: M xM _xM; mixed; differing in the last character only: Ma Mb Mc; differing in the
case of a letter only: M m) and F7 over its original names and four renamings (F7_RENAMINGS) that make I, N, F proper
prefixes / suffixes of each other in both orders.  For the name sets other than the first, digraphs without an edge
between two different names are skipped (the spelling of the names cannot matter there).

Oracle (two-oracle rule): models/cpp.py (Prosser's hide-set algorithm + 6.10.3.1-6.10.3.5 placemarker semantics)
AND `gcc -E -P`; a case is judged only where the model says the result is defined and gcc produces the same token
sequence.  chibicc's `-cc1 -E` text is re-lexed with the model's pp-tokenizer and compared as a spelling sequence.
Every case runs alone in its own file and packed with some hundred others behind it (unique macro-name suffix
per case); packed and alone results must agree (chaining differential).  Every chibicc run has a wall timeout and an address-space
limit (a runaway expansion allocates ~1 GB/s); a timeout or a death by signal is re-run alone with
a 10x limit on CPU time, the launcher measuring peak memory, before it is called a hang (CPU limit or memory limit hit).  Cases the model calls undefined are still
run alone, judged for termination only (no signal, no hang).
"""
import hashlib, itertools, os, re, resource, subprocess, time
from vlib import core
from models import cpp

LEVEL = "exploration"
BUDGET = {"quick": 1200, "thorough": 7200}    # deadlines, not expected times (a loaded machine is 3-5x slower)

SHARD = 350                 # cases per packed file
T_ALONE = 5                 # wall seconds for one alone run; the confirming re-run gets 10x as CPU time
T_PACKED = 20
# Every chibicc run has an address-space limit (put on the started process with prlimit: run_capped()): chibicc never
# frees, so an expansion that does not terminate eats memory at about 1 GB/s; with the limit it dies in a fraction of a
# second (calloc fails) instead of filling the machine.  A run that dies from a signal with its peak memory above 60 % of the
# limit (wait4) "does not terminate" (class `hang`).  Any other death from a signal and a hit of the wall limit is re-run once
# under MEM_CONFIRM / 10x CPU time through harness/c09_limit.c, which reports wait status and peak memory: killed by the CPU limit,
# or by any signal with the peak above 60 % of the memory limit = "does not terminate" (class `hang`); otherwise the
# signal is a crash of its own, and a normal exit (a legitimately big case) is judged as usual.
MEM_ALONE = 256             # MB (the heaviest terminating case of the thorough tier peaks at 15 MB)
MEM_PACKED = 2048
MEM_CONFIRM = 1024
NONTERM_CAP = 3             # a shard stops running cases alone after this many non-termination verdicts (the run is a
                            # failure anyway; each verdict costs seconds of wall time)
LAUNCHER_SRC = os.path.join(core.VERIF, "harness", "c09_limit.c")
LAUNCHER = None             # path of the built launcher (set by run(); handed to the workers)
ULIMIT = "ulimit -v %d\n" % (MEM_CONFIRM * 1024)     # first line of every replay script

RULE = ("a case = (macro definitions, invocation text); non-trivial iff the reference model performs at least one "
        "macro replacement while expanding it and the standard defines the result; distinct = distinct "
        "(definitions, invocation) text; judged iff model and gcc -E agree on the token sequence.  Macro names of the "
        "recursion digraphs (F2) and of the rescanning family (F7) are drawn from name sets whose members differ in the "
        "first character only, are proper prefixes of each other (M M_ M_x), proper suffixes (M xM _xM), both, or "
        "differ in the last character only or in letter case only (coverage key name_sets).  # / ## operands are enumerated directly (F1) and "
        "in two-level compositions (F8: outer O(p,q) / O(p,...) = IN( e ) for every operand expression e of <= L tokens "
        "over {p q|__VA_ARGS__ # ## x}, every chain A ## B ## C over {p q|__VA_ARGS__ x} and every inner macro IN in f8_inner_macros, over the argument grid "
        "f8_arguments squared).  Wherever # can see an argument (F1, F3, F4, F5, F8) the arguments also range over string "
        "literals and character constants of every encoding prefix whose text is empty, holds a backslash escape "
        "(\\n \\\\ \\' \\\" \\0 \\x41), a double quote, a single quote or an argument delimiter, alone and in phrases with other "
        "tokens, lone backslashes and macro-produced literals (coverage key stringize_literal_alphabet); the stringized "
        "text is compared byte for byte and must be one string literal.  Recursion through names that ## CREATES "
        "(F9): every digraph on 1-3 macro names (object-like / function-like, all edge sets on <= 2 names, bounded "
        "edge count on 3) with the edges spelled as a paste of two literal halves, of a parameter and a literal half, "
        "through a second macro pasting two parameters or a parameter and a literal, one pasted edge among literal "
        "ones, and both halves parameters of the macro itself (coverage key f9_pasted_recursion); termination is a "
        "verdict under an address-space limit (coverage key limits).  Arguments that 6.10.3.1p1 does NOT expand "
        "(F10, F6): parameter only operand of #, only operand of ##, unused, and also used plainly x argument texts "
        "that are no complete valid invocation on their own (wrong argument count, object-like macro ending in `T (`, "
        "bare function-like name) or advance __COUNTER__ (coverage key f10_unexpanded_arguments); tokens and "
        "acceptance are compared")

# ------------------------------------------------------------------------------------------------------------
# enumerators.  Macro names carry '@', replaced by a per-case suffix when the case is rendered.
# A case is (family, case-id, (definition lines...), invocation text).
# ------------------------------------------------------------------------------------------------------------
HELPERS = {"E@": "#define E@", "M@": "#define M@ m 2", "G@": "#define G@(z) < z >"}


def with_helpers(defs, text):
    return tuple(defs) + tuple(HELPERS[h] for h in sorted(HELPERS) if h in text)


F1_ALPHA = ["p", "q", "#", "##", "x", ",", "1"]
F1_ARGS = {"quick": ["", "a", "a b", "1", "+", "( a , b )", "E@", "M@", '"s"', "G@", "a\nb", "\\ n", "a M@"],
           "thorough": ["", "a", "a b", "1", "+", "( a , b )", "E@", "M@", '"s"', "G@", "'c'", "\\ n", "G@ ( a )",
                        "- 1", ".", "1.", "e", "++", "a\nb", "F@", "a M@", "M@ E@"]}
F1_BOUND = {"quick": (3, 4), "thorough": (4, 5)}      # (full argument grid up to, reduced grid up to)
F1_ARGS_REDUCED = ["", "a", "1", "E@", "a b"]


# ---- literal alphabet for arguments that # can see (F1, F3, F4, F5, F8) ------------------------------------------
# 6.10.3.2p2: # inserts a \\ before each " and \\ of a string literal AND of a character constant, of every encoding
# prefix, and nowhere else.  Every literal below is an argument of every construction in which # sees the argument.
LIT_ESCAPES = ["\\n", "\\\\", "\\'", '\\"', "\\0", "\\x41"]          # \n \\ \' \" \0 \x41
LIT_STR_PREFIXES = ["", "L", "u", "U", "u8"]
LIT_CHR_PREFIXES = ["", "L", "u", "U"]
# text between the quotes: empty string, each escape, a bare quote of the other kind, a plain letter, an escaped
# backslash followed by an escaped quote, a trailing escaped backslash, and the characters that delimit arguments
LIT_STR_TEXTS = [""] + LIT_ESCAPES + ["'", "a", '\\\\\\"', "a\\\\", ",", "(", ")"]
LIT_CHR_TEXTS = LIT_ESCAPES + ['"', "a", ",", "(", ")"]
LITERALS = ([pf + '"' + t + '"' for pf in LIT_STR_PREFIXES for t in LIT_STR_TEXTS] +
            [pf + "'" + t + "'" for pf in LIT_CHR_PREFIXES for t in LIT_CHR_TEXTS])
# arguments of several tokens; tokens that resemble quotes or hold a backslash without being literals (a lone backslash
# and ` are valid pp-tokens, 6.4p3 "each non-white-space character that cannot be one of the above"; a lone ' or "
# is undefined behaviour and not enumerated); object-like macros QC QS whose replacement lists are literals
LIT_PHRASES = ["c == '\"'", '"a" "\\n"', '"a""b"', "'\\n''\\\\'", "( '\"' )", "'a' + 1", "L '\\n'", 'u8 "x"', "u8'a'",
               "'\"' \"'\"", "L\"a\"L'\"'", "'ab'", "`", "` '\\'' `", "\\ \"\\n\"", "\\ '\\\\'", "'\"' \\ n", "\\\\", "\\\"s\"", "\\",
               "QC@", "QS@", "QC@ QS@ '\\0'", "G@ ( '\\\\' )", "a\n'\\n'\n\"\\\"\""]
LIT_CORE = ["'\\n'", "'\"'", "L'\\\\'", '"\\""', 'u8"\\\\"', '""', "'\\''", "U\"'\""]       # one of each kind of difficulty
LIT_MINI = ["'\\n'", "'\"'", '"\\""', 'L"\\\\"']
LIT_SECOND = ["a", "'\\n'", '"\\""']                                          # the other argument of a two-parameter macro
HELPERS["QC@"] = "#define QC@ '\\n'"
HELPERS["QS@"] = "#define QS@ \"\\\"\" L'\"'"
# per tier: (all LITERALS + LIT_PHRASES up to body length, LIT_CORE up to, LIT_MINI up to)
F1_LIT_BOUND = {"quick": (3, 3, 4), "thorough": (4, 5, 5)}


def f1_literal_args(body, used, L, tier):
    """Argument tuples over the literal alphabet for a function-like body in which # is applied to a parameter."""
    if "#" not in body or "##" in body:
        return          # # and ## in one body: order unspecified or the paste is invalid for literals
    strd = [p for p in used if any(body[i] == "#" and body[i + 1] == p for i in range(len(body) - 1))]
    if not strd:
        return
    full, core, mini = F1_LIT_BOUND[tier]
    alpha = LITERALS + LIT_PHRASES if L <= full else LIT_CORE if L <= core else LIT_MINI if L <= mini else []
    seen = set()
    for sp in strd:
        others = [p for p in used if p != sp]
        for lit in alpha:
            for oc in itertools.product(LIT_SECOND if L <= full else ["a"], repeat=len(others)):
                amap = dict(zip(others, oc))
                amap[sp] = lit
                combo = tuple(amap[p] for p in used)
                if combo not in seen:
                    seen.add(combo)
                    yield combo


def f1_body_ok(body, params, funclike):
    if body[0] == "##" or body[-1] == "##":
        return False
    for i, t in enumerate(body):
        if t == "#" and funclike and (i + 1 >= len(body) or body[i + 1] not in params):
            return False
        if t == "##" and body[i - 1] == "##":
            return False       # `## ##`: the second one is an operand that is itself `##`; leave to the model? no: invalid
    return True


def gen_f1(tier):
    full, reduced = F1_BOUND[tier]
    shapes = [("obj", "F@", ()), ("f0", "F@()", ()), ("f1", "F@(p)", ("p",)), ("f2", "F@(p,q)", ("p", "q"))]
    for L in range(1, reduced + 1):
        args_alpha = F1_ARGS[tier] if L <= full else F1_ARGS_REDUCED
        for body in itertools.product(F1_ALPHA, repeat=L):
            for sname, head, params in shapes:
                if "q" in body and "q" not in params:
                    continue
                if "p" in body and "p" not in params:
                    continue
                if sname in ("obj", "f0") and not ("#" in body or "##" in body):
                    continue   # plain token lists: covered by F2/F5
                if not f1_body_ok(body, params, sname != "obj"):
                    continue
                used = [p for p in params if p in body]
                btxt = " ".join(body)
                combos = itertools.product(args_alpha, repeat=len(used))
                if sname in ("f1", "f2"):
                    first = set(itertools.product(args_alpha, repeat=len(used)))
                    lit = [c for c in f1_literal_args(body, used, L, tier) if c not in first]
                    if sname == "f2" and len(used) == 1 and L > 2:
                        # second position of two mirrors the one-parameter shape: literals holding , ( ) and the core
                        lit = [c for c in lit if c[0] in LIT_CORE or any(x in c[0] for x in ('","', "'('", '")"', "','", "( '"))]
                    combos = itertools.chain(combos, lit)
                for combo in combos:
                    amap = dict(zip(used, combo))
                    if sname == "obj":
                        inv = "F@"
                    else:
                        inv = "F@ ( " + " , ".join(amap.get(p, "a") for p in params) + " )"
                        inv = inv.replace("(  )", "( )")
                    defs = ("#define %s %s" % (head, btxt),)
                    yield ("F1", "F1/%s/%s/%s" % (sname, btxt, "|".join(combo)), with_helpers(defs, inv), inv)


# F2 name sets ("namings").  Hiding (6.10.3.4p2) is decided by the IDENTITY of a macro name, so the digraphs are
# enumerated once over names that differ in their first character only and again over names that are proper
# prefixes / proper suffixes / same-length-last-character variants of one another.  '@' is the per-case suffix.
F2_NAMINGS = {
    "distinct": ["A@", "B@", "C@"],          # same length, differ in the first character only
    "prefix": ["M@", "M@_", "M@_x"],         # each name is a proper prefix of the next ones
    "suffix": ["M@", "xM@", "_xM@"],         # each name is a proper suffix of the next ones
    "mixed": ["M@", "M@_x", "xM@"],          # [0] is a prefix of [1] and a suffix of [2]; [1] and [2] share an infix
    "lastchar": ["M@a", "M@b", "M@c"],       # same length, differ in the last character only
    "case": ["M@", "m@", "Mm@"],             # [0] and [1] differ in the case of a letter only
}
# per tier and naming: (names fully, names, max edges for the largest size)
F2_BOUND = {"quick": {"distinct": (2, 3, 3), "prefix": (2, 2, 4), "suffix": (2, 2, 4), "mixed": (2, 3, 2),
                      "lastchar": (2, 2, 4), "case": (2, 2, 4)},
            "thorough": {"distinct": (3, 3, 9), "prefix": (2, 3, 3), "suffix": (2, 3, 3), "mixed": (2, 3, 3),
                         "lastchar": (2, 3, 3), "case": (2, 2, 4)}}
F2_NAMING_ORDER = ["distinct", "prefix", "suffix", "mixed", "lastchar", "case"]


def gen_f2(tier):
    for naming in F2_NAMING_ORDER:
        if naming not in F2_BOUND[tier]:
            continue
        for c in gen_f2_naming(tier, naming):
            yield c


def gen_f2_naming(tier, naming):
    nfull, nmax, emax = F2_BOUND[tier][naming]
    base = naming == "distinct"
    for n in range(1 if base else 2, nmax + 1):
        names = F2_NAMINGS[naming][:n]
        if naming == "mixed" and n == 2:
            continue      # identical to "prefix" on two names
        pairs = [(i, j) for i in range(n) for j in range(n)]
        for kinds in itertools.product("of", repeat=n):
            for ne in range(0, len(pairs) + 1):
                if n > nfull and ne > emax:
                    break
                for edges in itertools.combinations(pairs, ne):
                    if not base and not any(i != j for i, j in edges):
                        continue      # no reference between two different names: the spelling of the names is immaterial
                    has_fn_target = any(kinds[j] == "f" for _, j in edges)
                    for style in (("applied", "bare") if has_fn_target else ("applied",)):
                        defs = []
                        for i in range(n):
                            refs = []
                            for (a, j) in edges:
                                if a != i:
                                    continue
                                if kinds[j] == "f" and style == "applied":
                                    refs.append("%s ( %s )" % (names[j], "p" if kinds[i] == "f" else "k"))
                                else:
                                    refs.append(names[j])
                            tag = "abc"[i]
                            if kinds[i] == "f":
                                defs.append("#define %s(p) %s p %s" % (names[i], tag, " ".join(refs)))
                            else:
                                defs.append("#define %s %s %s" % (names[i], tag, " ".join(refs)))
                        for start in range(n):
                            S = names[start]
                            other = names[(start + 1) % n]
                            invs = [S, "%s ( x )" % S, "%s ( x ) ( y )" % S, "%s ( %s )" % (S, other),
                                    "%s ( x ) ( y ) ( z )" % S, "%s ( %s ( x ) ) w" % (S, S)]
                            if n > nfull:
                                invs = invs[:3]
                            for inv in invs:
                                cid = "F2/%s%s/%s/%s/%s" % ("" if base else naming + "/", "".join(kinds),
                                                            ",".join("%d%d" % e for e in edges), style,
                                                            inv.replace("@", ""))
                                yield ("F2", cid, tuple(defs), inv)


F3_ALPHA = ["F@", "(", ")", ",", "a", "\n"]
F3_BOUND = {"quick": 5, "thorough": 7}
F3_SHAPES = [("f0", "F@()", "[ ]"), ("f1", "F@(p)", "[ p ]"), ("f2", "F@(p,q)", "[ p | q ]"),
             ("v0", "F@(...)", "[ __VA_ARGS__ ]"), ("v1", "F@(p,...)", "[ p | __VA_ARGS__ ]"),
             ("n0", "F@(r...)", "[ r ]"), ("n1", "F@(p,r...)", "[ p | r ]"),
             ("s1", "F@(p)", "[ # p ]"), ("s2", "F@(p,q)", "[ # p | # q ]"), ("sv", "F@(p,...)", "[ # p | # __VA_ARGS__ ]")]


def f3_texts(maxlen):
    for L in range(2, maxlen + 1):
        for t in itertools.product(F3_ALPHA, repeat=L):
            if t[0] == "\n" or t[-1] == "\n":
                continue
            if "F@" not in t or "(" not in t:
                continue
            if any(t[i] == "\n" and t[i + 1] == "\n" for i in range(L - 1)):
                continue
            # some F must be followed (after optional newline) by '('
            ok = False
            for i in range(L - 1):
                if t[i] == "F@":
                    j = i + 1
                    if t[j] == "\n" and j + 1 < L:
                        j += 1
                    if t[j] == "(":
                        ok = True
                        break
            if not ok:
                continue
            if L > 6 and t.count("(") != t.count(")"):
                continue      # at the largest size keep only balanced texts (unbalanced ones are covered up to 6)
            yield t


# literals whose text is a delimiter of argument collection or needs escaping, substituted for the `a` tokens of the
# invocation texts under the stringizing shapes: (first `a`, every further `a`)
F3_LITS = [('","', "'('"), ("'\"'", '")"'), ("'\\n'", '"\\""'), ("')'", "'\\\\'"), ("L'\\''", 'u8"("'), ('"(\\""', "'\\0'")]
F3_LIT_BOUND = {"quick": (5, 2), "thorough": (6, 6)}       # (texts up to this many tokens, first n pairs of F3_LITS)


def gen_f3(tier):
    for t in f3_texts(F3_BOUND[tier]):
        inv = " ".join(t).replace(" \n ", "\n").replace("\n ", "\n").replace(" \n", "\n")
        for sname, head, body in F3_SHAPES:
            if len(t) > 6 and sname in ("n0", "n1", "s1", "sv"):
                continue
            yield ("F3", "F3/%s/%s" % (sname, " ".join(x if x != "\n" else "NL" for x in t).replace("@", "")),
                   ("#define %s %s" % (head, body),), inv)
            if sname in ("s1", "s2", "sv") and "a" in t and len(t) <= F3_LIT_BOUND[tier][0]:
                for l1, l2 in F3_LITS[:F3_LIT_BOUND[tier][1]]:
                    k = 0
                    tl = []
                    for x in t:
                        tl.append(x if x != "a" else (l1 if k == 0 else l2))
                        k += x == "a"
                    invl = " ".join(tl).replace(" \n ", "\n").replace("\n ", "\n").replace(" \n", "\n")
                    yield ("F3", "F3/%s/%s" % (sname, " ".join(x if x != "\n" else "NL" for x in tl).replace("@", "")),
                           ("#define %s %s" % (head, body),), invl)


F4_ALPHA = ["V", "p", ",", "##", "#", "x", "O(", ")"]
F4_BOUND = {"quick": 3, "thorough": 5}
F4_SHAPES = [("v0", "F@(...)", "__VA_ARGS__", ()), ("v1", "F@(p,...)", "__VA_ARGS__", ("p",)),
             ("n1", "F@(p,r...)", "r", ("p",))]
F4_ARGLISTS = {"v0": ["", "a", "a , b", ",", "E@", "( a , b ) , c", "a ,", "M@ , E@"],
               "v1": ["a", "a ,", "a , b", "a , b , c", ",", ", b", "a , E@", "E@ , ( a , b ) , c", "a , M@", ", ,"],
               "n1": ["a", "a ,", "a , b", "a , b , c", ",", ", b", "a , E@", "a , M@"]}
F4_EXTRA_BODIES = ["p , ## V", ", ## V", "x , ## V y", "f ( p , ## V )", "O( , ) V", "x O( , V ) y", "O( # V )",
                   "# O( V )", "O( p ## V )", "x ## O( y )", "O( x ) ## y", "O( x ## ) y", "O( ( V ) )", "O( V V )",
                   "O( p ) O( p )", "p O( O( x ) )", "x ## V ## p", "# V # p", "# p , # V", "V ## V", "O( ) ## x",
                   "x ## O( )", "O( , ## V )", ", ## V ## x", ", ## p", "p ## , ## V", "p ## V ## p", "V ## V ## V", "p ## V ## x"]


# literal argument lists for the bodies in which # sees an argument (# __VA_ARGS__, # p, # __VA_OPT__(...)):
# every LIT_CORE literal alone / after a plain first argument, pairs LIT_CORE x LIT_MINI separated by the comma that
# # __VA_ARGS__ has to reproduce, a trailing empty argument, three literals, macros that produce literals
def _f4_lit_arglists():
    v0 = list(LIT_CORE) + ["%s , %s" % (a, b) for a in LIT_CORE for b in LIT_MINI]
    v0 += ["'\\n' ,", ", '\"'", "QC@ , QS@", "'\\\\' , \"\\\\\" , L'\"'", "'\"'\n,\n\"'\"", "c == '\"' , \\ n"]
    v1 = list(LIT_CORE) + ["a , %s" % a for a in LIT_CORE] + ["%s ," % a for a in LIT_CORE]
    v1 += ["%s , %s" % (a, b) for a in LIT_CORE for b in LIT_MINI]
    v1 += ["a , '\\n' , \"\\\"\"", "'\"' , QC@ , QS@", "'\\\\' , \"\\\\\" , L'\"'", "a , c == '\"' , \\ n"]
    return {"v0": v0, "v1": v1, "n1": v1}


F4_LIT_ARGLISTS = _f4_lit_arglists()
F4_LIT_REDUCED = {"v0": ["'\\n'", "'\"' , \"\\\"\""], "v1": ["'\\n'", "'\"' , \"\\\"\"", "a , L'\\\\' , \"\""],
                  "n1": ["'\\n'", "'\"' , \"\\\"\"", "a , L'\\\\' , \"\""]}
F4_LIT_MEDIUM = dict((k, list(LIT_CORE) + ["%s , %s" % (a, b) for a, b in zip(LIT_MINI, LIT_MINI[1:] + LIT_MINI[:1])])
                     for k in ("v0", "v1", "n1"))
# per tier: full literal lists up to this body length (and for F4_EXTRA_BODIES), medium lists up to, reduced lists up to
F4_LIT_BOUND = {"quick": (2, 3, 3), "thorough": (3, 4, 5)}


def f4_body_ok(body):
    depth = 0
    for t in body:
        if t == "O(":
            depth += 1
        elif t == ")":
            depth -= 1
            if depth < 0:
                return False
    return depth == 0


def gen_f4(tier):
    seen = set()
    bodies = []
    for L in range(1, F4_BOUND[tier] + 1):
        for body in itertools.product(F4_ALPHA, repeat=L):
            if "V" not in body and "O(" not in body:
                continue
            if not f4_body_ok(body):
                continue
            bodies.append(" ".join(body))
    for b in bodies + F4_EXTRA_BODIES:
        if b in seen:
            continue
        seen.add(b)
        for sname, head, vname, params in F4_SHAPES:
            toks = b.split()
            if "p" in toks and "p" not in params:
                continue
            btxt = " ".join(vname if t == "V" else "__VA_OPT__ (" if t == "O(" else t for t in toks)
            als = F4_ARGLISTS[sname]
            if "#" in toks:
                lfull, lmed, lred = F4_LIT_BOUND[tier]
                if len(toks) <= lfull or b in F4_EXTRA_BODIES:
                    als = als + F4_LIT_ARGLISTS[sname]
                elif len(toks) <= lmed:
                    als = als + F4_LIT_MEDIUM[sname]
                elif len(toks) <= lred:
                    als = als + F4_LIT_REDUCED[sname]
            for al in als:
                inv = ("F@ ( %s )" % al).replace("(  )", "( )")
                yield ("F4", "F4/%s/%s/%s" % (sname, b, al.replace("@", "").replace("\n", " NL ")),
                       with_helpers(("#define %s %s" % (head, btxt),), inv), inv)


F5_LIT_INVS = ["F@ ( '\\n' )", "F@ ( '\"' , \"\\\"\" )", "F@ ( L'\\\\' ) ( u8\"\\\\\" )", "F@\n( '\\'' \"'\" )"]    # body `# p` only


def gen_f5(tier):
    gaps = [("", "nogap"), (" ", "sp"), ("/**/", "comment"), ("\\\n", "splice"), ("\t", "tab")]
    plists = ["()", "(p)", "( p )", "(p,q)", "( p , q )", "(...)", "(p,...)", "(p...)", "(p, ...)", "(p , q...)"]
    bodies = ["", "p", "(p)", "p q", "1", "( p ) ( q )", "F@", "p ## q", "# p"]
    invs = ["F@", "F@ ( a )", "F@ ( a , b )", "F@ ( )", "F@\n( a )", "F@ ( a ) ( b )", "F@ ( F@ ) ( a )"]
    redefs = ["none", "same", "ws-variant", "undef-redef", "undef-only", "define-after-use"]
    hashes = ["#define", "# define", " #\tdefine", "#/**/define"]
    if tier == "quick":
        hashes = hashes[:2]
        bodies = bodies[:6]
        redefs = redefs[:5]
    for (gap, gname), pl, bgap, body, redef, hd in itertools.product(gaps, plists, ["", " "], bodies, redefs, hashes):
        if hd != "#define" and (redef != "none" or gname not in ("nogap", "sp")):
            continue
        line = "%s F@%s%s%s%s" % (hd, gap, pl, bgap, body)
        line2 = "%s  F@%s%s%s %s" % (hd, gap, pl, bgap, body.replace(" ", "  "))
        for inv in (invs + F5_LIT_INVS if body == "# p" else invs):
            if redef == "none":
                defs = (line,)
            elif redef == "same":
                defs = (line, line)
            elif redef == "ws-variant":
                defs = (line, line2)
            elif redef == "undef-redef":
                defs = (line, "#undef F@", "#define F@(p) < p >")
            elif redef == "undef-only":
                defs = (line, "#undef F@")
            else:
                defs = ()
                inv = inv + "\n" + line + "\n" + inv
            yield ("F5", "F5/%s/%s/%s/%r/%s/%s/%s" % (hd.strip(), gname, pl, bgap, body, redef,
                                                       inv.replace("\n", " NL ").replace("@", "")), defs, inv)


F6_ITEMS = ["__COUNTER__", "__LINE__", "__FILE__", "__BASE_FILE__", "C@", "L@", "I@ ( __COUNTER__ )",
            "I@ ( __LINE__ )", "D@ ( __COUNTER__ )", "S@ ( __LINE__ )", "X@ ( __LINE__ )", "X@ ( __COUNTER__ )",
            "P@ ( __LINE__ )", "X@ ( __FILE__ )", "I@ (\n__LINE__\n)", "D@ ( C@ )", "J@ ( a , __COUNTER__ )",
            "J@ ( a , __LINE__ )", "\n",
            # arguments that must not be expanded (6.10.3.1p1): operand of # only, of ## only, not used at all, and both
            # ways (# p p: expanded once); an expansion that should not happen consumes a value of __COUNTER__, which
            # the next item of the sequence shows
            "S@ ( __COUNTER__ )", "K@ ( a , __COUNTER__ )", "N@ ( __COUNTER__ )", "SD@ ( __COUNTER__ )"]
F6_DEFS = {"C@": "#define C@ __COUNTER__", "L@": "#define L@ __LINE__", "I@": "#define I@(p) p",
           "D@": "#define D@(p) p p", "S@": "#define S@(p) # p", "X@": "#define X@(p) S@ ( p )",
           "N@": "#define N@(p) nn", "SD@": "#define SD@(p) # p p",
           "P@": "#define P@(p) p ## p", "J@": "#define J@(p,q) K@ ( p , q )", "K@": "#define K@(p,q) p ## q"}
F6_BOUND = {"quick": 2, "thorough": 3}


def gen_f6(tier):
    for L in range(1, F6_BOUND[tier] + 1):
        for seq in itertools.product(F6_ITEMS, repeat=L):
            if seq[0] == "\n" or seq[-1] == "\n":
                continue
            inv = " ".join(seq).replace(" \n ", "\n").replace("\n ", "\n").replace(" \n", "\n")
            text = inv
            defs = []
            for k in ("S@", "K@"):
                pass
            need = [k for k in F6_DEFS if k in text]
            if "X@" in need and "S@" not in need:
                need.append("S@")
            if "J@" in need and "K@" not in need:
                need.append("K@")
            defs = tuple(F6_DEFS[k] for k in sorted(need))
            yield ("F6", "F6/" + " ".join(x if x != "\n" else "NL" for x in seq).replace("@", ""), defs, inv)


F7_VARIANTS = {
    # variant: (alphabet, definitions, {tier: max tokens})
    "a": (["I@", "F@", "N@", "LP@", "(", ")", "a"],
          {"I@": "#define I@(p) p", "F@": "#define F@(p) [ p ]", "N@": "#define N@ F@", "LP@": "#define LP@ ("},
          {"quick": 5, "thorough": 6}),
    "b": (["I@", "F@", "N@", "LP@", "RP@", "CM@", "(", ")", ",", "a"],
          {"I@": "#define I@(p) p", "F@": "#define F@(p,q) [ p | q ]", "N@": "#define N@ F@", "LP@": "#define LP@ (",
           "RP@": "#define RP@ )", "CM@": "#define CM@ ,"},
          {"quick": 4, "thorough": 5}),
}
F7_BOUND = {t: dict((v, F7_VARIANTS[v][2][t]) for v in F7_VARIANTS) for t in ("quick", "thorough")}
# Renamings of the three macro names that hide one another in F7 (I: identity, N: object-like producing F's name,
# F: the function-like macro), so that the names are proper prefixes / suffixes of each other (cf. F2_NAMINGS).
F7_RENAMINGS = {
    "prefix": {"I@": "M@", "N@": "M@_", "F@": "M@_x"},       # I < N < F (each a proper prefix of the next)
    "xiferp": {"F@": "M@", "N@": "M@_", "I@": "M@_x"},       # F < N < I
    "suffix": {"I@": "M@", "N@": "xM@", "F@": "_xM@"},       # I < N < F (each a proper suffix of the next)
    "xiffus": {"F@": "M@", "N@": "xM@", "I@": "_xM@"},       # F < N < I
}
# (variant, renaming) -> max tokens
F7_RENAMED_BOUND = {"quick": {("a", "prefix"): 4, ("a", "xiferp"): 4, ("a", "suffix"): 4, ("a", "xiffus"): 4},
                    "thorough": {("a", "prefix"): 5, ("a", "xiferp"): 5, ("a", "suffix"): 5, ("a", "xiffus"): 5,
                                 ("b", "prefix"): 4, ("b", "xiferp"): 4, ("b", "suffix"): 4, ("b", "xiffus"): 4}}
_F7_NAME_RE = re.compile(r"[A-Z]+@")


def gen_f7(tier):
    """Rescanning: parentheses, commas and function-like names that are themselves produced by macros."""
    todo = [(v, None, F7_VARIANTS[v][2][tier]) for v in sorted(F7_VARIANTS)]
    todo += [(v, rn, b) for (v, rn), b in sorted(F7_RENAMED_BOUND[tier].items())]
    for v, rn, bound in todo:
        alpha, defs, _ = F7_VARIANTS[v]
        ren = F7_RENAMINGS[rn] if rn else {}

        def actual(text):
            return _F7_NAME_RE.sub(lambda m: ren.get(m.group(), m.group()), text)
        for L in range(2, bound + 1):
            for t in itertools.product(alpha, repeat=L):
                if not any(x in ("I@", "F@", "N@") for x in t):
                    continue
                if not any(x in ("(", "LP@") for x in t):
                    continue
                if t[-1] in ("(", "LP@", ",", "CM@") and L > 2:
                    continue      # always unterminated or trivially trailing
                if rn and sum(1 for x in set(t) if x in ("I@", "F@", "N@")) < 2 and "N@" not in t:
                    continue      # fewer than two of the related names involved: same as the unrenamed case
                need = sorted(k for k in defs if k in t)
                if "N@" in need and "F@" not in need:
                    need.append("F@")
                cid = "F7/%s%s/%s" % (v, "-" + rn if rn else "", " ".join(t).replace("@", ""))
                yield ("F7", cid, tuple(actual(defs[k]) for k in need), actual(" ".join(t)))


# F8: two-level compositions.  The outer macro O hands an operand expression e (every body of <= L tokens over
# {p q|V # ## x}, and every chain `A ## B ## C` over {p q|V x}) to an inner macro IN that is the identity, stringizes, or pastes, so that the token sequence that
# the outer substitution produced for e - in particular whether each argument had or had not been macro-expanded
# when it was substituted as an operand of # / ## or as an ordinary parameter - is observable in the result.
F8_ALPHA = ["p", "q", "#", "##", "x"]
F8_BOUND = {"quick": 3, "thorough": 4}
# inner macro: (replacement list for a one-parameter inner `z`, for a variadic inner)
F8_INNERS = {"quick": ["id", "str", "lpaste"], "thorough": ["id", "str", "lpaste", "rpaste", "xstr"]}
F8_INNER_DEFS = {
    "id": ("z", "__VA_ARGS__"),
    "str": ("# z", "# __VA_ARGS__"),
    "lpaste": ("k ## z", "k ## __VA_ARGS__"),
    "rpaste": ("z ## k", "__VA_ARGS__ ## k"),
    "xstr": ("S@ ( z )", "SV@ ( __VA_ARGS__ )"),      # expand, then stringize
}
# arguments: empty, plain, object-like macro name (several / no tokens), invocation of another macro, several tokens
# ending in a macro name, an invocation of the outer macro itself; the thorough tier adds a function-like macro's bare
# name, nested parentheses with a comma, a string literal, a number and an invocation whose argument is a macro name
F8_ARGS = {"quick": ["", "a", "M@", "E@", "G@ ( a )", "a M@", "O@ ( a , a )"],
           "thorough": ["", "a", "M@", "E@", "G@ ( a )", "a M@", "O@ ( a , a )", "G@", "( a , M@ )", '"s"', "1",
                        "G@ ( M@ )", "M@ a", "O@"]}
F8_ARGS_REDUCED = ["", "a", "M@", "G@ ( a )", "O@ ( a , a )"]        # bodies of the largest size and ## chains
F8_VA_EXTRA = ["a , M@", "M@ , a", None]                                # variable argument only (None: omitted)
# helper macros: the argument macros M E G, and macros that a pasted result can name
# (<body token x / k or argument a> ## <macro name> and <macro name> ## <x / a>; their names extend the names of
# M and G at either end, and their replacement lists mention the shorter name again)
F8_HELPERS = [("M@", "#define M@ m 2"), ("E@", "#define E@"), ("G@", "#define G@(z) < z >"),
              ("M@", "#define aM@ am M@"), ("M@", "#define xM@ xm M@"), ("M@", "#define kM@ km M@"),
              ("M@", "#define M@x mx M@"), ("M@", "#define M@a ma M@"),
              ("G@", "#define aG@(z) ag z G@"), ("G@", "#define xG@(z) xg z"), ("G@", "#define kG@(z) kg z"),
              ("G@", "#define G@x(z) gx z G@"), ("G@", "#define G@a(z) ga z"),
              ("O@ ,", "#define O@a oa O@"), ("O@ ,", "#define O@x ox"), (", O@ )", "#define aO@ ao O@"),
              (", O@ )", "#define xO@ xo"), ("O@ )", "#define kO@ ko")]


# literal arguments (F8_LIT: LIT_CORE and macros producing literals) wherever # can see an argument at either level:
# the operand expression holds # or the inner macro stringizes.  Pairs: literal x plain, plain x literal, literal
# with itself, and each literal next to the nearest literal of the other kind (string / character constant).
F8_LIT = {"quick": LIT_MINI + ["QC@", "QS@"], "thorough": LIT_CORE + ["QC@", "QS@", "c == '\"'", "\\ '\\n'"]}
F8_HELPERS += [("QC@", HELPERS["QC@"]), ("QS@", HELPERS["QS@"])]


def f8_literal_pairs(body, inner, variadic, tier):
    if "#" not in body and inner not in ("str", "xstr"):
        return []
    pairs = []
    hasp, hasq = "p" in body, "q" in body
    for k, lit in enumerate(F8_LIT[tier]):
        other = LIT_CORE[(k + 3) % len(LIT_CORE)]
        if hasp:
            pairs.append((lit, "a"))
        if hasq:
            pairs.append(("a", lit))
        if hasp and hasq:
            pairs.append((lit, lit))
            if tier != "quick":
                pairs.append((lit, other))
        if hasq and variadic and (tier != "quick" or k < 2):
            pairs.append(("a", "%s , %s" % (lit, other)))
    return pairs


def f8_bodies(maxlen, second):
    """Operand expressions: token sequences over F8_ALPHA that are valid replacement-list fragments."""
    for L in range(1, maxlen + 1):
        for body in itertools.product(F8_ALPHA, repeat=L):
            if not f1_body_ok(body, ("p", "q"), True):
                continue
            if second:
                if "q" not in body:
                    continue      # variadic outer: expressions without __VA_ARGS__ are covered by the (p,q) outer
            elif "p" not in body:
                continue          # (p,q) outer: expressions with q alone mirror those with p alone
            yield body
    # every chain of two ## over {p q x} (five tokens): first, middle and last operand positions
    if maxlen < 5:
        for ops in itertools.product("pqx", repeat=3):
            if ("q" if second else "p") in ops:
                yield (ops[0], "##", ops[1], "##", ops[2])


def gen_f8(tier):
    maxlen = F8_BOUND[tier]
    for shape in ("pq", "pv"):
        variadic = shape == "pv"
        for body in f8_bodies(maxlen, variadic):
            grid = F8_ARGS[tier] if len(body) < (4 if tier == "quick" else maxlen) else F8_ARGS_REDUCED
            pgrid = grid if "p" in body else ["a"]
            qgrid = (grid + F8_VA_EXTRA if variadic else grid) if "q" in body else ["a"]
            etxt = " ".join("__VA_ARGS__" if (t == "q" and variadic) else t for t in body)
            for inner in F8_INNERS[tier]:
                idef = "#define IN@(%s) %s" % ("..." if variadic else "z", F8_INNER_DEFS[inner][1 if variadic else 0])
                odef = "#define O@(p,%s) IN@ ( %s )" % ("..." if variadic else "q", etxt)
                plain = [(pa, qa) for pa in pgrid for qa in qgrid]
                for pa, qa in plain + [x for x in f8_literal_pairs(body, inner, variadic, tier) if x not in plain]:
                    if True:
                        if qa is None:
                            inv = "O@ ( %s )" % pa
                        else:
                            inv = "O@ ( %s , %s )" % (pa, qa)
                        inv = re.sub(r"  +", " ", inv)
                        defs = [idef, odef]
                        if inner == "xstr":
                            defs.append("#define SV@(...) # __VA_ARGS__" if variadic else "#define S@(z) # z")
                        defs.extend(d for trigger, d in F8_HELPERS if trigger in inv)
                        cid = "F8/%s/%s/%s/%s|%s" % (shape, inner, " ".join(body), pa.replace("@", ""),
                                                     "-" if qa is None else qa.replace("@", ""))
                        yield ("F8", cid, tuple(defs), inv)


# F9: recursion digraphs whose edges go through a name that ## CREATES (6.10.3.4p2 holds for the name of a macro being
# replaced however the name came to be in the replacement list; 6.10.3.3p3: the token resulting from ## "is available
# for further macro replacement" - and only as far as its name is not being replaced).  Nodes are object-like or
# function-like macros as in F2; every edge i -> j is spelled in the replacement list of i in one of F9_STYLES.
# The names are made of two halves so that one half can come from a parameter: `left`: Ra Rb Rc (common left half R, a
# parameter supplies R), `right`: aR bR cR (common right half; the parameter is the right operand).
F9_NAMINGS = {
    "left": {"names": ["Ra@", "Rb@", "Rc@"], "halves": [("R", "a@"), ("R", "b@"), ("R", "c@")], "side": "L"},
    "right": {"names": ["a@R", "b@R", "c@R"], "halves": [("a@", "R"), ("b@", "R"), ("c@", "R")], "side": "R"},
}
F9_STYLES = {
    "lit": "the name itself (only next to pasted edges; digraphs with literal edges only are F2)",
    "LL": "both halves literal: L ## R",
    "PH": "one half a parameter of the function-like macro the edge starts from: p ## R (naming left) / L ## p (naming "
          "right); in an object-like macro: L ## R",
    "J2": "through a second macro, both halves parameters: J ( L , R ) with #define J(y,z) y ## z",
    "J1": "through a second macro, one half a parameter: JA ( R ) with #define JA(z) z ## a (naming left) / a ## z",
    "PP": "both halves parameters of the macro itself (one name): #define Ra(p,q) .. p ## q .. invoked as Ra ( R , a )",
}
# per tier and naming: (max names, max edges for three names, uniform styles, styles of a single pasted edge among
# literal ones for up to two names, the same for three names, invocations for up to two names, for three names)
F9_BOUND = {"quick": {"left": (3, 3, ["LL", "PH", "J2", "J1"], ["LL", "PH", "J2", "J1"], [], 4, 2),
                      "right": (2, 0, ["LL", "PH", "J1"], ["LL", "PH"], [], 3, 0)},
            "thorough": {"left": (3, 4, ["LL", "PH", "J2", "J1"], ["LL", "PH", "J2", "J1"], ["LL", "J2"], 5, 3),
                         "right": (3, 3, ["LL", "PH", "J2", "J1"], ["LL", "PH", "J2", "J1"], ["LL"], 5, 2)}}


def f9_ref(nm, j, style, src_func):
    """Spelling of an edge to node j and the helper definitions it needs."""
    L, R = nm["halves"][j]
    if style == "lit":
        return nm["names"][j], ()
    if style == "LL" or (style == "PH" and not src_func):
        return "%s ## %s" % (L, R), ()
    if style == "PH":
        return ("p ## %s" % R if nm["side"] == "L" else "%s ## p" % L), ()
    if style == "J2":
        return "J@ ( %s , %s )" % (L, R), ("#define J@(y,z) y ## z",)
    if style == "J1":
        h = "J%s@" % "ABC"[j]
        if nm["side"] == "L":
            return "%s ( %s )" % (h, L), ("#define %s(z) z ## %s" % (h, R),)
        return "%s ( %s )" % (h, R), ("#define %s(z) %s ## z" % (h, L),)
    raise ValueError(style)


def f9_reachable(n, edges):
    seen, todo = {0}, [0]
    while todo:
        a = todo.pop()
        for (x, y) in edges:
            if x == a and y not in seen:
                seen.add(y)
                todo.append(y)
    return len(seen) == n


def gen_f9(tier):
    seen = set()
    for naming in ("left", "right"):
        nm = F9_NAMINGS[naming]
        nmax, emax3, uniform, single2, single3, ninv2, ninv3 = F9_BOUND[tier][naming]
        common = "R"
        for n in range(1, nmax + 1):
            names = nm["names"][:n]
            pairs = [(i, j) for i in range(n) for j in range(n)]
            for kinds in itertools.product("of", repeat=n):
                for ne in range(1, len(pairs) + 1):
                    if n == 3 and ne > emax3:
                        break
                    for edges in itertools.combinations(pairs, ne):
                        # every labelled digraph is enumerated, so invocations start at node 0 only and every node
                        # must be reachable from it (otherwise the case is one on fewer names)
                        if not f9_reachable(n, edges):
                            continue
                        assigns = [(u, tuple(u for _ in edges)) for u in uniform]
                        for sst in (single2 if n < 3 else single3):
                            for k in range(ne):
                                if ne > 1:
                                    assigns.append(("%s@%d" % (sst, k),
                                                    tuple(sst if x == k else "lit" for x in range(ne))))
                        has_fn_target = any(kinds[j] == "f" for _, j in edges)
                        for aname, styles in assigns:
                            for rstyle in (("applied", "bare") if has_fn_target else ("applied",)):
                                defs, helpers = [], []
                                for i in range(n):
                                    refs = []
                                    for (a, j), st in zip(edges, styles):
                                        if a != i:
                                            continue
                                        r, h = f9_ref(nm, j, st, kinds[i] == "f")
                                        helpers.extend(x for x in h if x not in helpers)
                                        if kinds[j] == "f" and rstyle == "applied":
                                            r += " ( %s )" % ("p" if kinds[i] == "f" else common)
                                        refs.append(r)
                                    tag = "abc"[i]
                                    if kinds[i] == "f":
                                        defs.append("#define %s(p) %s p %s" % (names[i], tag, " ".join(refs)))
                                    else:
                                        defs.append("#define %s %s %s" % (names[i], tag, " ".join(refs)))
                                defs = tuple(defs + sorted(helpers))
                                if defs in seen:
                                    continue          # PH in object-like macros is LL
                                seen.add(defs)
                                S = names[0]
                                invs = [S, "%s ( %s )" % (S, common), "%s ( %s ) ( %s )" % (S, common, common),
                                        "%s ( %s ( %s ) ) w" % (S, S, common), "%s ( x ) ( %s )" % (S, common)]
                                for inv in invs[:ninv2 if n < 3 else ninv3]:
                                    cid = "F9/%s/%s/%s/%s/%s/%s" % (naming, "".join(kinds), ",".join("%d%d" % e for e in edges),
                                                                    aname, rstyle, inv.replace("@", ""))
                                    yield ("F9", cid, defs, inv)
        # one name, both halves parameters of the macro itself
        L, R = nm["halves"][0]
        S = nm["names"][0]
        for ref, rname in (("p ## q ( p , q )", "applied"), ("p ## q", "bare"), ("q ## p ( q , p )", "swapped")):
            defs = ("#define %s(p,q) a p q %s" % (S, ref),)
            a1, a2 = (L, R) if rname != "swapped" else (R, L)
            for inv in ("%s ( %s , %s )" % (S, a1, a2), "%s ( %s , %s ) ( %s , %s )" % (S, a1, a2, a1, a2),
                        "%s ( %s , %s ) ( x , y ) ( %s , %s )" % (S, a1, a2, a1, a2), "%s ( %s , %s )" % (S, a2, a1), S):
                yield ("F9", "F9/%s/PP/%s/%s" % (naming, rname, inv.replace("@", "")), defs, inv)


# F10: arguments that must NOT be macro-expanded.  6.10.3.1p1: an argument is completely macro replaced only for a
# parameter that is not an operand of # or ## - so for a parameter that occurs in the replacement list only as such an
# operand, or not at all, the argument is used as spelled (or dropped) and an "expansion on its own" must never happen.
# It would be observable when the argument alone is not a complete valid invocation (F10_ARGS: wrong number of
# arguments for a function-like macro, an object-like macro whose replacement list ends in `T (`), which a compiler
# that expands every argument up front rejects, or when it has a side effect (__COUNTER__: family F6).
# Bodies: every replacement list of <= L tokens over {p q # ## x}, including the empty one and those in which a
# parameter does not occur; shapes (p), (p,q), (...), (p,...) (q stands for __VA_ARGS__ in the variadic shapes).
F10_HELPERS = [("T@", "#define T@(y,z) [ y | z ]"), ("Z@", "#define Z@() zz"), ("U@", "#define U@ T@ ("),
               ("G@", "#define G@(z) < z >")]
F10_ARGS = ["T@ ( 1 )", "T@ ( 1 , 2 , 3 )", "T@ ( )", "Z@ ( 1 )", "U@", "U@ 1", "a T@ ( 1 )", "T@ ( 1 ) a",
            "F@ ( 1 , ( 2 ) , 3 )", "G@", "T@", "T@ ( 1 , 2 )", "a"]
F10_ARGS_THOROUGH = ["( T@ ( 1 ) )", "T@ ( T@ ( 1 ) , 2 )", "T@ ( 1 , 2 ) ( 3 )", "G@ ( T@ ( ) )", "U@ 1 , 2", "T@\n( 1 )", "Z@ ( , )"]
F10_ALPHA = ["p", "q", "#", "##", "x"]
# per tier: (max body length for one parameter, for two parameters with the full pair grid, for two parameters with
# bodies that hold both parameters)
F10_BOUND = {"quick": (3, 2, 3), "thorough": (4, 3, 4)}


def gen_f10(tier):
    l1, l2, l2both = F10_BOUND[tier]
    args = F10_ARGS + (F10_ARGS_THOROUGH if tier != "quick" else [])
    shapes = [("f1", "F@(p)", ("p",), {}), ("f2", "F@(p,q)", ("p", "q"), {}),
              ("v0", "F@(...)", ("p",), {"p": "__VA_ARGS__"}), ("v1", "F@(p,...)", ("p", "q"), {"q": "__VA_ARGS__"})]
    for sname, head, params, ren in shapes:
        two = len(params) == 2
        for L in range(0, (max(l2, l2both) if two else l1) + 1):
            for body in itertools.product(F10_ALPHA, repeat=L):
                if "q" in body and not two:
                    continue
                if L and not f1_body_ok(body, params, True):
                    continue
                if two and L > l2 and not ("p" in body and "q" in body):
                    continue
                if two and L and "p" not in body and "q" not in body:
                    continue          # neither parameter occurs: the one-parameter shapes cover "unused"
                btxt = " ".join(ren.get(t, t) for t in body)
                if two:
                    grid = []
                    for a in args:
                        if sname == "f2" and "," in a and "(" not in a:
                            continue
                        for pr in ((a, "a"), ("a", a), (a, a)):
                            if pr not in grid:
                                grid.append(pr)
                    if sname == "v1":
                        grid += [("a", "T@ ( 1 ) , U@"), ("U@", None), ("T@ ( 1 )", None), ("a", "U@ , T@ ( )")]
                else:
                    grid = [(a,) for a in args if not (sname == "f1" and "," in a and "(" not in a)]
                    if sname == "v0":
                        grid += [("T@ ( 1 ) , U@",), ("U@ , T@ ( )",)]
                for combo in grid:
                    inv = "F@ ( %s )" % " , ".join(c for c in combo if c is not None)
                    defs = ["#define %s %s" % (head, btxt)]
                    defs.extend(d for trig, d in F10_HELPERS if trig in inv or (trig == "T@" and "U@" in inv))
                    cid = "F10/%s/%s/%s" % (sname, " ".join(body), "|".join("-" if c is None else c for c in combo))
                    yield ("F10", cid.replace("@", "").replace("\n", " NL "), tuple(defs), inv)


GENERATORS = [("F9", gen_f9), ("F10", gen_f10), ("F8", gen_f8), ("F7", gen_f7), ("F5", gen_f5), ("F6", gen_f6), ("F2", gen_f2), ("F4", gen_f4), ("F3", gen_f3), ("F1", gen_f1)]

# ------------------------------------------------------------------------------------------------------------
# rendering and running
# ------------------------------------------------------------------------------------------------------------
MARK = "QQ_"


def render(case, serial):
    """Text of one case: definitions, a marker line, the invocation."""
    fam, cid, defs, inv = case
    suf = "_%d" % serial
    lines = [d.replace("@", suf) for d in defs]
    lines.append("%s%d_" % (MARK, serial))
    lines.append(inv.replace("@", suf))
    return "\n".join(lines) + "\n"


def canon(text, serial):
    return text.replace("_%d" % serial, "")


_INT_RE = re.compile(r"^(0[xX][0-9a-fA-F]+|0[bB][01]+|0[0-7]*|[1-9][0-9]*)([uU](l|L|ll|LL)?|(l|L|ll|LL)[uU]?)?$")
_FLT_RE = re.compile(r"^(([0-9]*\.[0-9]+|[0-9]+\.)([eE][+-]?[0-9]+)?|[0-9]+[eE][+-]?[0-9]+|"
                     r"0[xX]([0-9a-fA-F]*\.[0-9a-fA-F]+|[0-9a-fA-F]+\.?)[pP][+-]?[0-9]+)[flFL]?$")


def is_c_constant(s):
    return bool(_INT_RE.match(s) or _FLT_RE.match(s))


def tok_kind(s):
    try:
        r = cpp.lex(s, tolerant=True)
    except cpp.LexError:
        return "other"
    return r[0].kind if len(r) == 1 else "other"


def join_strings_first_only(seq):
    out = []
    prev_str = False
    for s in seq:
        is_str = s.endswith('"') and len(s) >= 2 and tok_kind(s) == cpp.STR
        if is_str and prev_str:
            continue
        out.append(s)
        prev_str = is_str
    return out


KEY_FEATURES = {"stringize", "stringize-across-newline", "stringize-va-opt", "paste-tokens", "paste-placemarker",
                "paste-both-placemarkers", "gnu-comma-paste", "va-opt", "hideset-blocked", "argument-pre-expanded",
                "invocation-spans-lines", "variadic-missing", "variadic-empty", "rescan-invocation-with-mixed-hidesets",
                "funclike-name-at-end-of-argument", "redefinition", "parameter-used-twice-expanded",
                "builtin:__COUNTER__", "builtin:__LINE__", "builtin:__FILE__", "builtin:__BASE_FILE__",
                "stringize-string-literal", "stringize-character-constant", "stringize-result-of-#",
                # F9 / F10 / F6: a name created by ## that is being replaced; arguments that must not be expanded
                "hideset-blocked-name-created-by-##", "unexpanded-argument:not-a-valid-invocation-alone",
                "unexpanded-argument:advances-__COUNTER__"}


def feature_class(features):
    f = sorted(x for x in features if x in KEY_FEATURES)
    return "+".join(f) if f else "plain"


def deviation_class(exp, got):
    """Canonical class of a token-sequence difference (no spellings of enumerated identifiers, no counters)."""
    i = 0
    while i < len(exp) and i < len(got) and exp[i] == got[i]:
        i += 1
    j = 0
    while j < len(exp) - i and j < len(got) - i and exp[len(exp) - 1 - j] == got[len(got) - 1 - j]:
        j += 1
    em, gm = exp[i:len(exp) - j], got[i:len(got) - j]

    def kinds(seq):
        ks = [tok_kind(s) if tok_kind(s) != cpp.PUNCT else s for s in seq[:3]]
        return ".".join(ks) + ("..." if len(seq) > 3 else "")
    if not gm:
        return "dropped:" + kinds(em)
    if not em:
        return "added:" + kinds(gm)
    if len(em) == len(gm) and all(tok_kind(a) == cpp.STR and tok_kind(b) == cpp.STR for a, b in zip(em, gm)):
        a, b = em[0], gm[0]
        if a.replace(" ", "") == b.replace(" ", ""):
            return "string-text:white-space-differs"
        if a.replace("\\", "") == b.replace("\\", ""):
            return "string-text:backslashes-differ"
        return "string-text:differs"
    return "changed:%s->%s" % (kinds(em), kinds(gm))


def va_opt_subclass(case, features):
    """Which part of __VA_OPT__ support a case needs (chibicc implements only `__VA_OPT__(plain tokens)` for `...`)."""
    d0 = case[2][0]
    toks = [t.s for t in cpp.lex(d0.replace("@", ""), tolerant=True)]
    named = any(toks[i + 1] == "..." and toks[i] != "," and toks[i] != "(" for i in range(len(toks) - 1))
    for i, t in enumerate(toks):
        if t == "__VA_OPT__" and i > 0 and toks[i - 1] in ("#", "##"):
            return "operand-of-#-or-##"
    depth = 0
    inside = []
    k = 0
    while k < len(toks):
        if toks[k] == "__VA_OPT__":
            depth = 0
            k += 2
            while k < len(toks):
                if toks[k] == "(":
                    depth += 1
                elif toks[k] == ")":
                    if depth == 0:
                        if k + 1 < len(toks) and toks[k + 1] == "##":
                            return "operand-of-#-or-##"
                        break
                    depth -= 1
                inside.append(toks[k])
                k += 1
        k += 1
    if named:
        return "named-variadic-parameter"
    params = set(toks[3:toks.index(")")]) - {",", "..."} if "(" in toks else set()
    params.add("__VA_ARGS__")
    if any(t in params or t in ("#", "##") for t in inside):
        return "content-with-parameter-or-operator"
    if "va-opt-argument-expands-to-nothing" in features:
        return "variable-argument-expands-to-nothing"
    return "plain-content"


def explained_by_escaping_everything(text, mark, got):
    """Known deviation of the pinned tree (findings.d/C09.txt): quote_string() puts a \\ before EVERY \\ and " of the
    stringized text, also outside string literals and character constants.  True iff the model with exactly that
    deviation transcribed (cpp.stringize(escape_everything=True)) reproduces chibicc's token sequence."""
    try:
        pp = cpp.Preprocessor("c.c", stringize_escapes_everything=True)
        sp = cpp.spell(pp.preprocess(text))
    except (cpp.Undefined, cpp.Unmodelled, cpp.LexError):
        return False
    return mark in sp and sp[sp.index(mark) + 1:] == got


def classify(case, features, exp, status, got, text=None, mark=None):
    """Signature `C09|construct class|deviation class` for a deviation from the oracle."""
    fam = case[0]
    fc = feature_class(features)
    if status == "hang":
        return "C09|%s|%s|hang" % (fam, fc)
    if isinstance(status, int) and status < 0:
        return "C09|%s|%s|crash:signal%d" % (fam, fc, -status)
    d0 = case[2][0] if case[2] else ""
    if (status == 0 and got is not None and text is not None and "stringize-backslash-outside-literal" in features
            and deviation_class(exp, got) == "string-text:backslashes-differ"
            and explained_by_escaping_everything(text, mark, got)):
        # only an operand of # that holds a backslash OUTSIDE a literal, and only the exact known wrong answer (whatever
        # construct the # stands in); a literal or character constant that is escaped wrongly never gets this signature
        return "C09|stringize|backslash-outside-literal|backslashes-differ"
    if (status == 0 and "gnu-comma-kept-before-empty" in features and "stringize-va-opt" not in features
            and deviation_class(exp, got) == "dropped:,"):
        return "C09|gnu-comma|variable-argument-present-but-empty|comma-deleted"
    if "__VA_OPT__" in d0:
        sub = va_opt_subclass(case, features)
        if sub != "plain-content":
            return "C09|__VA_OPT__|%s|%s" % (sub, "rejected" if status != 0 else "tokens-differ")
    objlike = False
    try:
        dt = cpp.lex(d0.replace("@", ""))
        k = next(i for i, t in enumerate(dt) if t.s == "define")
        objlike = not cpp.parse_define(dt[k + 1:]).funclike
    except Exception:
        pass
    if status == 0 and objlike and "##" in got and ("paste-tokens" in features or "paste-placemarker" in features):
        return "C09|paste|object-like-macro-body|##-not-evaluated"
    if exp and exp[0] == "#" and (status != 0 or got != exp):
        return "C09|rescan|expansion-begins-with-#-at-line-start|treated-as-directive"
    if status != 0:
        if any(tok_kind(s) == cpp.NUM and "_" in s for s in exp):
            return "C09|paste|pp-number-containing-underscore|rejected"
        if any(tok_kind(s) == cpp.NUM and not is_c_constant(s) for s in exp):
            return "C09|E-output|pp-number-that-is-not-a-constant|rejected"
        if "paste-both-placemarkers" in features:
            return "C09|paste|both-operands-empty|rejected"
        return "C09|%s|%s|rejected" % (fam, fc)
    if got == join_strings_first_only(exp) and got != exp:
        return "C09|E-output|adjacent-string-literals|only-first-printed"
    dc = deviation_class(exp, got)
    if ("parameter-used-twice-expanded" in features and "builtin:__COUNTER__" in features
            and re.match(r"changed:(num|id|str)(\.(num|id|str))*(\.\.\.)?->(num|id|str)", dc)):
        return "C09|__COUNTER__|in-argument-substituted-more-than-once|expanded-per-occurrence"
    if "gnu-comma-kept-before-empty" in features and dc == "dropped:,":
        return "C09|gnu-comma|variable-argument-present-but-empty|comma-deleted"
    if dc == "string-text:white-space-differs" and "stringize-across-newline" in features:
        return "C09|stringize|newline-between-argument-tokens|space-missing"
    return "C09|%s|%s|%s" % (fam, fc, dc)


def run_chibicc(chibicc, wd, text, timeout, name="c.c", mem=MEM_ALONE):
    with open(os.path.join(wd, name), "w") as f:
        f.write(text)
    return run_capped([chibicc, "-cc1", "-E", "-cc1-input", name, name], wd, timeout, mem)


class _Popen(subprocess.Popen):
    """Popen that keeps the resource usage of the child (peak memory).  Uses wait4 where subprocess uses waitpid; if
    the internals of subprocess ever change, `rusage` stays None and the caller falls back to the confirming re-run."""
    rusage = None

    def _try_wait(self, wait_flags):
        try:
            pid, sts, ru = os.wait4(self.pid, wait_flags)
            if pid == self.pid:
                self.rusage = ru
        except ChildProcessError:
            pid, sts = self.pid, 0
        return (pid, sts)


LAST_PEAK_KB = None         # peak resident set of the last run_capped() child, None if unknown


def run_capped(argv, cwd, timeout, mem_mb):
    """core.run_limited() with an address-space limit that costs no extra process and no fork: the limit is put on the
    child from outside (prlimit) as soon as it has been started.  Returns (status, stdout, stderr)."""
    global LAST_PEAK_KB
    LAST_PEAK_KB = None
    p = _Popen(argv, cwd=cwd, stdout=subprocess.PIPE, stderr=subprocess.PIPE)
    try:
        resource.prlimit(p.pid, resource.RLIMIT_AS, (mem_mb << 20, mem_mb << 20))
    except OSError:
        pass                  # already gone
    try:
        out, err = p.communicate(timeout=timeout)
    except subprocess.TimeoutExpired:
        p.kill()
        out, err = p.communicate()
        return "timeout", out.decode("utf-8", "replace"), err.decode("utf-8", "replace")
    if p.rusage is not None:
        LAST_PEAK_KB = p.rusage.ru_maxrss
    return p.returncode, out.decode("utf-8", "replace"), err.decode("utf-8", "replace")


def confirm_hang(chibicc, wd, text, timeout, name="c.c"):
    """Re-run (same file name: __FILE__ is part of the result) under MEM_CONFIRM and a 10x limit, this time on CPU time (a loaded machine must not look like a
    hang), the launcher reporting wait status and peak memory.
    Returns (hang, status, stdout); hang: killed by the CPU limit, or died with its memory at the limit (a runaway
    expansion); status None = could not be decided (harness overloaded)."""
    with open(os.path.join(wd, name), "w") as f:
        f.write(text)
    rep = os.path.join(wd, "hang.rep")
    if os.path.exists(rep):
        os.unlink(rep)
    st, out, err = core.run_limited([LAUNCHER, str(MEM_CONFIRM), str(timeout * 10), "hang.rep", chibicc, "-cc1", "-E",
                                     "-cc1-input", name, name], cwd=wd, timeout=timeout * 150)
    if st == "timeout" or not os.path.exists(rep):
        return False, None, ""
    m = re.match(r"([ES])(\d+) (\d+)", open(rep).read())
    if st != 0 or not m:
        raise core.HarnessError("c09_limit failed: status %s %s" % (st, err[-200:]))
    code, peak_kb = int(m.group(2)), int(m.group(3))
    if m.group(1) == "E":
        return False, code, out
    if code in (24, 9) or peak_kb * 1024 >= 0.6 * (MEM_CONFIRM << 20):
        return True, -code, out
    return False, -code, out


def split_markers(text):
    return cpp.split_after_marker(cpp.relex(text), MARK)


REPLAY_TOKENS = (ULIMIT + "$CHIBICC -cc1 -E -cc1-input c.c c.c > out.txt 2> err.txt; st=$?\n"
                 "[ $st -ne 0 ] && { echo \"chibicc exit $st\"; cat err.txt; exit 1; }\n"
                 "python3 \"$VERIF/models/cpp.py\" relex --after %(mark)s --until-prefix " + MARK + " < out.txt > got.txt\n"
                 "cmp -s got.txt expected.txt && exit 0\n"
                 "echo 'token sequence differs from the model/gcc result:'; diff expected.txt got.txt; exit 1")
REPLAY_STATUS = (ULIMIT + "timeout 60 $CHIBICC -cc1 -E -cc1-input c.c c.c > out.txt 2> err.txt; st=$?\n"
                 "[ $st -eq 0 ] && exit 0\n"
                 "echo \"chibicc status $st on valid input\"; cat err.txt; exit 1")
REPLAY_TERM = (ULIMIT + "timeout 60 $CHIBICC -cc1 -E -cc1-input c.c c.c > out.txt 2> err.txt; st=$?\n"
               "[ $st -ge 124 ] && { echo \"chibicc status $st\"; exit 1; }\nexit 0")
REPLAY_CHAIN = (ULIMIT + "$CHIBICC -cc1 -E -cc1-input alone.c alone.c > a.txt 2> a.err; sa=$?\n"
                "$CHIBICC -cc1 -E -cc1-input packed.c packed.c > p.txt 2> p.err; sp=$?\n"
                "[ $sa -ne $sp ] && { echo \"status alone=$sa packed=$sp\"; cat p.err; exit 1; }\n"
                "python3 \"$VERIF/models/cpp.py\" relex --after %(mark)s --until-prefix " + MARK + " < a.txt > ta.txt\n"
                "python3 \"$VERIF/models/cpp.py\" relex --after %(mark)s --until-prefix " + MARK + " < p.txt > tp.txt\n"
                "cmp -s ta.txt tp.txt && exit 0\n"
                "echo 'same case, different result when other cases precede/follow it:'; diff ta.txt tp.txt; exit 1")


def show(text):
    """Text of a case for a description line: no backslashes and no newlines (the lines are post-processed by shell
    tools whose `echo` interprets backslash escapes)."""
    return text.replace("\\", "{bs}").replace("\n", " {NL} ")


def _viol(sig, desc, files, replay):
    return {"sig": sig, "desc": desc, "files": files, "replay": replay}


def _shard(args):
    """Worker: one shard of cases = one packed file.  Returns counters and violation records."""
    global LAUNCHER
    chibicc, wd, shard_no, items, deadline, dynamic, LAUNCHER = args
    res = {"cases": 0, "judged": 0, "nontrivial_hashes": [], "skipped_undefined": {}, "oracle_disagreements": 0,
           "ref_rejected": 0, "chibicc_runs": 0, "gcc_runs": 0, "viol": [], "viol_counts": {}, "done": False,
           "undefined_termination_checked": 0, "chain_judged": 0, "features": {}, "samples": [],
           "unmodelled": 0, "dis_samples": [], "outcomes": {}, "model_errors": [], "harness_timeouts": 0,
           "undefined_same_definition_not_rerun": 0, "stringize_judged": 0, "nonterminating": 0,
           "stopped_after_nontermination": 0, "dynamic_packed_not_judged_after_deviation": 0}
    if time.time() > deadline:
        return res
    os.makedirs(wd, exist_ok=True)

    def add_viol(sig, desc, files, replay):
        res["viol_counts"][sig] = res["viol_counts"].get(sig, 0) + 1
        if res["viol_counts"][sig] == 1:
            res["viol"].append(_viol(sig, show(desc), files, replay))

    # ---- 1. model --------------------------------------------------------------------------------------------
    recs = []
    for serial, case in items:
        fam, cid, defs, inv = case
        text = render(case, serial)
        mark = "%s%d_" % (MARK, serial)
        r = {"serial": serial, "case": case, "text": text, "mark": mark, "exp": None, "undef": None,
             "features": frozenset()}
        try:
            pp = cpp.Preprocessor("c.c")
            out = pp.preprocess(text)
            sp = cpp.spell(out)
            if mark not in sp:
                raise cpp.Unmodelled("marker lost")
            r["exp"] = sp[sp.index(mark) + 1:]
            r["features"] = frozenset(pp.features)
        except cpp.Undefined as e:
            r["undef"] = e.reason
        except (cpp.Unmodelled, cpp.LexError) as e:
            r["undef"] = "unmodelled"
            res["unmodelled"] += 1
        except Exception as e:        # a bug in the model: finish the run, then fail as a harness error
            r["undef"] = "model-error"
            res["model_errors"].append("%s: %r" % (cid, e))
        recs.append(r)
        res["cases"] += 1
    valid = [r for r in recs if r["exp"] is not None]
    for r in recs:
        if r["undef"]:
            k = r["undef"]
            res["skipped_undefined"][k] = res["skipped_undefined"].get(k, 0) + 1

    # ---- 2. gcc on the packed file (dynamic family: model re-run on the packed text as well) -------------------
    def pack(rs):
        lines_of = []
        parts = []
        ln = 1
        for r in rs:
            lines_of.append((ln, r))
            parts.append(r["text"])
            ln += r["text"].count("\n")
        return "".join(parts), lines_of

    packed_text, lines_of = pack(valid)
    with open(os.path.join(wd, "g.c"), "w") as f:
        f.write(packed_text)
    gst, gout, gerr = core.run_limited(["gcc", "-E", "-P", "-std=gnu17", "g.c"], cwd=wd, timeout=120)
    res["gcc_runs"] += 1
    if gst == "timeout":
        return res
    gtoks = split_markers(gout)
    bad_lines = set(int(m.group(1)) for m in re.finditer(r"^g\.c:(\d+):\d+: (?:fatal )?error", gerr, re.M))
    starts = [ln for ln, _ in lines_of]
    import bisect
    for bl in bad_lines:
        k = bisect.bisect_right(starts, bl) - 1
        if k >= 0:
            lines_of[k][1]["gcc_rejected"] = True
    for r in valid:
        r["gcc"] = gtoks.get(r["mark"])
    if dynamic:
        # expected values depend on the position in the file: packed expectation from the model on the packed text,
        # alone expectation from gcc run alone (below)
        for r in valid:
            with open(os.path.join(wd, "c.c"), "w") as f:
                f.write(r["text"])
            st, o, e = core.run_limited(["gcc", "-E", "-P", "-std=gnu17", "c.c"], cwd=wd, timeout=60)
            res["gcc_runs"] += 1
            r["gcc"] = split_markers(o).get(r["mark"]) if st == 0 else None
            if st != 0:
                r["gcc_rejected"] = True

    # ---- 3. chibicc alone ---------------------------------------------------------------------------------------
    seen_bad_defs = set()
    for r in recs:
        if time.time() > deadline:
            return res
        if r["undef"] and r["undef"].startswith("define:"):
            # invalid definition: termination is checked once per distinct definition set, not per invocation
            key = r["case"][2]
            if key in seen_bad_defs:
                res["undefined_same_definition_not_rerun"] += 1
                continue
            seen_bad_defs.add(key)
        if res["nonterminating"] >= NONTERM_CAP:
            res["stopped_after_nontermination"] = 1
            return res
        st, out, err = run_chibicc(chibicc, wd, r["text"], T_ALONE)
        res["chibicc_runs"] += 1
        if isinstance(st, int) and st < 0 and LAST_PEAK_KB is not None and LAST_PEAK_KB * 1024 >= 0.6 * (MEM_ALONE << 20):
            # died with its memory at the limit: a case of at most a few hundred bytes (the heaviest terminating case of
            # the thorough tier peaks at 15 MB) that needs more than MEM_ALONE does not terminate
            st, out = "hang", ""
            res["nonterminating"] += 1
        elif st == "timeout" or (isinstance(st, int) and st < 0):
            # wall limit, or died from a signal: decide with limits on CPU time and memory, and measurements
            hang, st2, out2 = confirm_hang(chibicc, wd, r["text"], T_ALONE)
            res["chibicc_runs"] += 1
            st, out = ("hang", "") if hang else (st2, out2)
            if hang:
                res["nonterminating"] += 1
            if st is None:
                res["harness_timeouts"] += 1
                r["st"] = None
                r["got"] = None
                continue
        r["st"] = st
        r["got"] = split_markers(out).get(r["mark"]) if st == 0 else None
        r["err"] = err[-300:] if isinstance(err, str) else ""
        fam, cid, defs, inv = r["case"]
        ctext = canon(r["text"], r["serial"])
        if r["undef"]:
            res["undefined_termination_checked"] += 1
            if st == "hang" or (isinstance(st, int) and st < 0):
                add_viol("C09|%s|input-with-undefined-expansion(%s)|%s" % (fam, r["undef"], "hang" if st == "hang" else "crash:signal%d" % -st),
                         "chibicc does not terminate normally on: %s" % show(ctext),
                         {"c.c": r["text"]}, REPLAY_TERM)
            continue
        # two-oracle rule
        if r.get("gcc_rejected") or r.get("gcc") is None:
            res["ref_rejected"] += 1
            r["judge"] = False
        elif r["gcc"] != r["exp"]:
            res["oracle_disagreements"] += 1
            r["judge"] = False
            if len(res["dis_samples"]) < 3:
                res["dis_samples"].append({"case": ctext, "model": " ".join(r["exp"]), "gcc": " ".join(r["gcc"])})
        else:
            r["judge"] = True
        if not r["judge"]:
            if st == "hang" or (isinstance(st, int) and st < 0):
                add_viol(classify(r["case"], r["features"], r["exp"], st, None),
                         "chibicc does not terminate normally on: %s" % show(ctext),
                         {"c.c": r["text"]}, REPLAY_TERM)
            continue
        res["judged"] += 1
        nontrivial = bool(r["features"] & {"objlike", "funclike"}) or any(x.startswith("builtin:") for x in r["features"])
        if nontrivial:
            res["nontrivial_hashes"].append(hashlib.sha1(ctext.encode()).digest()[:8])
        for ft in r["features"]:
            res["features"][ft] = res["features"].get(ft, 0) + 1
        if "stringize" in r["features"] or "stringize-va-opt" in r["features"]:
            # every # result of a judged case is ONE string literal in the model (cpp.stringize re-lexes it, else the
            # case is undefined) and byte-identical in gcc's output (the spelling sequences are equal)
            res["stringize_judged"] += 1
        oc = "%d tokens" % min(len(r["exp"]), 12)
        res["outcomes"][oc] = res["outcomes"].get(oc, 0) + 1
        if len(res["samples"]) < 1 and nontrivial and shard_no % 7 == 0:
            res["samples"].append({"case_id": cid, "text": ctext, "expected_tokens": " ".join(r["exp"])})
        if st == 0 and r["got"] == r["exp"]:
            continue
        sig = classify(r["case"], r["features"], r["exp"], st, r["got"], r["text"], r["mark"])
        files = {"c.c": r["text"], "expected.txt": "".join(s + "\n" for s in r["exp"]), "case_id.txt": cid + "\n"}
        if st == 0:
            desc = "%s  =>  expected [%s] got [%s]" % (show(ctext), canon(" ".join(r["exp"]), r["serial"]),
                                                         canon(" ".join(r["got"] or []), r["serial"]))
            add_viol(sig, desc, files, REPLAY_TOKENS % {"mark": r["mark"]})
        else:
            desc = "%s  =>  expected [%s], chibicc status %s: %s" % (
                show(ctext), canon(" ".join(r["exp"]), r["serial"]), st,
                r["err"].strip().split("\n")[-1][:120])
            add_viol(sig, desc, files, REPLAY_STATUS if st != "hang" else REPLAY_TERM)

    # ---- 4. chibicc packed: cases that ran alone with status 0 ---------------------------------------------------
    chain = [r for r in valid if r["st"] == 0]
    if dynamic:
        # the cases share __COUNTER__: only cases whose alone result equals the oracle go into the packed file (a
        # deviating case would shift every later expectation); expectation = model on exactly that packed text,
        # judged where gcc on the same text agrees
        chain = [r for r in chain if r.get("judge") and r["got"] == r["exp"]]
        ctext_, _ = pack(chain)
        try:
            pp = cpp.Preprocessor("c.c")
            ptoks_ = cpp.split_after_marker(cpp.spell(pp.preprocess(ctext_)), MARK)
        except (cpp.Undefined, cpp.Unmodelled, cpp.LexError):
            ptoks_ = {}
        with open(os.path.join(wd, "c.c"), "w") as f:
            f.write(ctext_)
        st_, o_, e_ = core.run_limited(["gcc", "-E", "-P", "-std=gnu17", "c.c"], cwd=wd, timeout=60)
        res["gcc_runs"] += 1
        gt_ = split_markers(o_) if st_ == 0 else {}
        for r in chain:
            r["exp_packed"] = ptoks_.get(r["mark"])
            r["gcc_packed"] = gt_.get(r["mark"])

    def run_packed(rs):
        text, _ = pack(rs)
        st, out, err = run_chibicc(chibicc, wd, text, T_PACKED, name="c.c", mem=MEM_PACKED)
        res["chibicc_runs"] += 1
        if st == "timeout":
            hang, st, out = confirm_hang(chibicc, wd, text, T_PACKED)
            res["chibicc_runs"] += 1
            if hang:
                st = "hang"
        return st, out, err, text

    def chain_check(rs, depth=0):
        if not rs or time.time() > deadline:
            return
        st, out, err, text = run_packed(rs)
        if st is None:
            res["harness_timeouts"] += 1
            return
        if st != 0:
            if len(rs) == 1:
                return      # cannot happen: same text as the alone run (modulo nondeterminism)
            if len(rs) == 2:
                r = rs[1]
                fam = r["case"][0]
                add_viol("C09|chain|%s|status-differs-after-preceding-case" % fam,
                         "accepted alone, but status %s when preceded by another case: %s ;; %s" % (
                             st, show(canon(rs[0]["text"], rs[0]["serial"])),
                             show(canon(r["text"], r["serial"]))),
                         {"alone.c": r["text"], "packed.c": text}, REPLAY_CHAIN % {"mark": r["mark"]})
                return
            h = len(rs) // 2
            # overlapping halves so that a (predecessor, victim) pair is never split
            chain_check(rs[:h + 1], depth + 1)
            chain_check(rs[h:], depth + 1)
            return
        ptoks = split_markers(out)
        for k, r in enumerate(rs):
            if depth > 0 and r.get("chain_done"):
                continue
            r["chain_done"] = True
            res["chain_judged"] += 1
            got_p = ptoks.get(r["mark"])
            if dynamic:
                ref = r.get("exp_packed")
                if ref is None or r.get("gcc_packed") != ref:
                    continue
                same = got_p == ref
            else:
                same = got_p == r["got"]
            if same:
                continue
            fam = r["case"][0]
            nxt = rs[k + 1] if k + 1 < len(rs) else None
            gp = got_p or []
            leaked = "#" in gp and "define" in gp and r["got"] is not None and gp[:len(r["got"])] == r["got"]
            ctext = show(canon(r["text"], r["serial"]))
            if leaked:
                cls = "empty-expansion-at-end-of-line" if ("empty-expansion" in r["features"]) else feature_class(r["features"])
                sig = "C09|chain|%s|following-directive-not-executed" % cls
                desc = "the directive on the line after this invocation is emitted as text instead of being executed: %s" % ctext
            elif got_p is None:
                sig = "C09|chain|%s|marker-lost" % fam
                desc = "case output missing in packed run: %s" % ctext
            else:
                prev = rs[k - 1] if k > 0 else None
                prev_leaked = False
                if prev is not None:
                    pp_ = ptoks.get(prev["mark"]) or []
                    prev_leaked = "#" in pp_ and "define" in pp_ and len(pp_) > len(prev.get("got") or [])
                if prev_leaked:
                    continue        # consequence of the leak already reported for the preceding case
                if dynamic:
                    sig = classify(r["case"], r["features"], r["exp_packed"], 0, gp)
                    add_viol(sig, "in a file of %d dynamic-macro cases: expected [%s] got [%s]: %s" % (
                        len(rs), " ".join(r["exp_packed"]), " ".join(gp), ctext),
                        {"c.c": text, "expected.txt": "".join(x + "\n" for x in r["exp_packed"])},
                        REPLAY_TOKENS % {"mark": r["mark"]})
                    # the cases of the file share __COUNTER__: after the first deviation every later expectation is
                    # shifted, so the rest of the file is not judged (each case was judged alone already)
                    res["dynamic_packed_not_judged_after_deviation"] += len(rs) - k - 1
                    break
                else:
                    sig = "C09|chain|%s|packed-result-differs-from-alone:%s" % (fam, deviation_class(r["got"], gp))
                desc = "alone [%s] packed [%s]: %s" % (canon(" ".join(r["got"] or []), r["serial"]),
                                                      canon(" ".join(gp), r["serial"]), ctext)
            lo = max(0, k - 1)
            ptext, _ = pack(rs[lo:k + 2])
            add_viol(sig, desc, {"alone.c": r["text"], "packed.c": ptext}, REPLAY_CHAIN % {"mark": r["mark"]})

    chain_check(chain)
    res["done"] = True
    return res


def run(ctx):
    tier = ctx.tier
    deadline = ctx.deadline - 25
    allres = []
    serial = 0
    fam_counts = {}
    work = []
    global LAUNCHER
    LAUNCHER = os.path.join(ctx.work, "c09_limit")
    rc, o, e = core.sh(["gcc", "-O1", "-o", LAUNCHER, LAUNCHER_SRC])
    if rc != 0:
        raise core.HarnessError("harness/c09_limit.c does not build:\n" + e[-2000:])
    only = os.environ.get("VERIF_C09_FAMILIES")          # development aid; evidence then says exhaustive:false
    for fam, gen in GENERATORS:
        if only and fam not in only.split(","):
            continue
        cases = list(gen(tier))
        fam_counts[fam] = len(cases)
        items = []
        for c in cases:
            serial += 1
            items.append((serial, c))
        size = 60 if fam == "F6" else SHARD
        for ch in core.chunks(items, size):
            work.append((fam, ch))
    if len(set(c[1] for _, ch in work for _, c in ch)) != serial:
        raise core.HarnessError("case ids are not unique")
    # VERIF_SEED only permutes shard order (assignment to workers)
    order = list(range(len(work)))
    if ctx.seed:
        import random
        random.Random(ctx.seed).shuffle(order)
    args = [(ctx.chibicc, os.path.join(ctx.work, "s%d" % i), i, work[i][1], deadline, work[i][0] == "F6", LAUNCHER) for i in order]
    results = core.pmap(_shard, args)
    tot = {"cases": 0, "judged": 0, "oracle_disagreements": 0, "ref_rejected": 0, "chibicc_runs": 0, "gcc_runs": 0,
           "undefined_termination_checked": 0, "chain_judged": 0, "unmodelled": 0, "harness_timeouts": 0,
           "undefined_same_definition_not_rerun": 0, "stringize_judged": 0, "nonterminating": 0,
           "stopped_after_nontermination": 0, "dynamic_packed_not_judged_after_deviation": 0}
    skipped = {}
    feats = {}
    outcomes = {}
    hashes = set()
    unfinished = 0
    per_fam = {}
    dis = []
    for (a, r) in zip(args, results):
        fam = work[a[2]][0]
        pf = per_fam.setdefault(fam, {"cases": 0, "judged": 0, "skipped_undefined": 0, "oracle_disagreements": 0,
                                      "ref_rejected": 0})
        if not r["done"]:
            unfinished += 1
        for k in tot:
            tot[k] += r[k]
        for k, v in r["skipped_undefined"].items():
            skipped[k] = skipped.get(k, 0) + v
            pf["skipped_undefined"] += v
        for k in ("cases", "judged", "oracle_disagreements", "ref_rejected"):
            pf[k] += r[k]
        for k, v in r["features"].items():
            feats[k] = feats.get(k, 0) + v
        for k, v in r["outcomes"].items():
            outcomes[k] = outcomes.get(k, 0) + v
        hashes.update(r["nontrivial_hashes"])
        for s in r["samples"]:
            ctx.sample(s, limit=8)
        dis.extend(r["dis_samples"])
        first = {v["sig"]: v for v in r["viol"]}
        for sig, n in sorted(r["viol_counts"].items()):
            v = first[sig]
            for _ in range(n):
                ctx.violation(sig, v["desc"], files=v["files"], replay=v["replay"])
    if only:
        ctx.incomplete("restricted to families %s by VERIF_C09_FAMILIES" % only)
        unfinished = unfinished or 1
    merr = [e for r in results for e in r["model_errors"]]
    if merr:
        raise core.HarnessError("reference model raised on %d cases, e.g. %s" % (len(merr), merr[:3]))
    if unfinished:
        ctx.incomplete("%d of %d shards not finished before the deadline%s" % (
            unfinished, len(work), " (%d of them stopped after %d non-termination verdicts)" % (
                tot["stopped_after_nontermination"], NONTERM_CAP) if tot["stopped_after_nontermination"] else ""))
    ctx.cover(evaluations=tot["cases"] - tot["undefined_same_definition_not_rerun"], enumerated_cases=tot["cases"], judged=tot["judged"], distinct_nontrivial=len(hashes), rule=RULE,
              skipped_undefined=sum(skipped.values()), skipped_undefined_by_reason=skipped,
              oracle_disagreements=tot["oracle_disagreements"], ref_rejected=tot["ref_rejected"],
              chibicc_runs=tot["chibicc_runs"], gcc_runs=tot["gcc_runs"], chain_judged=tot["chain_judged"],
              undefined_termination_checked=tot["undefined_termination_checked"], model_unmodelled=tot["unmodelled"], harness_timeouts=tot["harness_timeouts"],
              undefined_same_definition_not_rerun=tot["undefined_same_definition_not_rerun"],
              cases_per_family=fam_counts, per_family=per_fam, features_exercised=feats,
              oracle_disagreement_samples=dis[:6],
              bounds_completed={"F1": F1_BOUND[tier], "F2": F2_BOUND[tier], "F3": F3_BOUND[tier], "F4": F4_BOUND[tier],
                                "F6": F6_BOUND[tier], "F7": F7_BOUND[tier],
                                "F7-renamed": dict(("%s-%s" % k, v) for k, v in F7_RENAMED_BOUND[tier].items()),
                                "F8": F8_BOUND[tier], "F9": F9_BOUND[tier], "F10": F10_BOUND[tier]} if not unfinished else "partial",
              nonterminating=tot["nonterminating"],
              limits={"alone": "%d MB address space, %d s wall" % (MEM_ALONE, T_ALONE),
                      "packed": "%d MB, %d s wall" % (MEM_PACKED, T_PACKED),
                      "confirming re-run": "%d MB, 10x the wall limit as CPU seconds; non-termination = killed by the CPU "
                                           "limit or dead with peak memory above 60 %% of the limit" % MEM_CONFIRM},
              f9_pasted_recursion={"name_sets": dict((k, v["names"]) for k, v in F9_NAMINGS.items()),
                                   "edge_styles": F9_STYLES,
                                   "bound": "per naming: (max names, max edges on three names, uniform edge styles, styles of "
                                            "one pasted edge among literal ones on <= 2 names, on 3 names, invocations per "
                                            "digraph on <= 2 names, on 3 names); all edge sets on <= 2 names; node 0 is the "
                                            "start and reaches every node"},
              f10_unexpanded_arguments={"arguments": F10_ARGS + (F10_ARGS_THOROUGH if tier != "quick" else []),
                                        "helpers": [d for _, d in F10_HELPERS], "body_alphabet": F10_ALPHA,
                                        "shapes": ["(p)", "(p,q)", "(...)", "(p,...)"],
                                        "bound": "(max body tokens one parameter, two parameters full pair grid, two "
                                                 "parameters bodies holding both); pair grid: (A,a) (a,A) (A,A)",
                                        "__COUNTER__": "family F6 items S(# p) K(p ## q) N(unused) SD(# p p)"},
              name_sets={"F2": dict((k, F2_NAMINGS[k]) for k in F2_BOUND[tier]), "F7": F7_RENAMINGS},
              f8_inner_macros=dict((k, F8_INNER_DEFS[k]) for k in F8_INNERS[tier]), f8_arguments=F8_ARGS[tier],
              stringize_judged_cases=tot["stringize_judged"],
              stringize_literal_alphabet={
                  "string_prefixes": LIT_STR_PREFIXES, "character_constant_prefixes": LIT_CHR_PREFIXES,
                  "string_texts": LIT_STR_TEXTS, "character_constant_texts": LIT_CHR_TEXTS, "literals": len(LITERALS),
                  "phrases": LIT_PHRASES, "core": LIT_CORE, "mini": LIT_MINI,
                  "F1": "bodies with # and without ## x (all literals + phrases up to %d body tokens, core up to %d, mini up "
                        "to %d) for the stringized parameter x LIT_SECOND for the other one" % F1_LIT_BOUND[tier],
                  "F3": "stringizing shapes: every `a` of every text of <= %d tokens replaced by the first %d pairs of "
                        "F3_LITS (literals holding , ( ) quotes)" % F3_LIT_BOUND[tier],
                  "F4": "bodies with #: full literal argument lists up to %d body tokens and for the extra bodies, medium up "
                        "to %d, reduced up to %d" % F4_LIT_BOUND[tier],
                  "F5": "body `# p`: F5_LIT_INVS", "F8": F8_LIT[tier],
                  "F8_rule": "every (operand expression, inner macro) in which # sees an argument at either level "
                             "(expression holds # or inner macro stringizes): literal x plain, plain x literal, literal twice"})
    ctx.assume("gcc 12 -std=gnu17 -E -P is the second oracle; cases where it and the model differ are not judged")
    ctx.assume("token alphabets and bounds per family as in the module docstring and *_BOUND tables")
    ctx.assume("__VA_OPT__ follows C2x (present iff the variable argument expands to at least one token); "
               "`, ## __VA_ARGS__` follows GNU cpp (comma deleted iff the variable argument is omitted, or empty and the only parameter)")
    # vacuity guards
    if not unfinished:
        if tot["judged"] < tot["cases"] // 10 or len(hashes) < 100:
            raise core.HarnessError("vacuous: judged=%d of %d, nontrivial=%d" % (tot["judged"], tot["cases"], len(hashes)))
        need = ["paste-tokens", "paste-placemarker", "stringize", "hideset-blocked", "va-opt", "gnu-comma-paste",
                "empty-expansion", "invocation-spans-lines", "funclike-unapplied", "argument-pre-expanded",
                "builtin:__COUNTER__", "builtin:__LINE__",
                # macro names that resemble a name in their hide set without being it (F2 namings, F7 renamings)
                "not-hidden-by-similar-name:prefix", "not-hidden-by-similar-name:suffix",
                "not-hidden-by-similar-name:last-char", "not-hidden-by-similar-name:case",
                # operands of # and ## that name macros, with and without a placemarker on the other side (F8)
                "paste-operand-contains-macro-name", "stringize-operand-contains-macro-name",
                "paste-placemarker-left-of-macro-name", "paste-placemarker-right-of-macro-name",
                "invocation-formed-during-rescan",
                # operands of # that hold string literals / character constants whose text needs escaping (all families
                # with #), results of # stringized again (F8), literals produced by macro expansion and then stringized
                "stringize-string-literal", "stringize-character-constant", "stringize-prefixed-string-literal",
                "stringize-prefixed-character-constant", "stringize-string-literal-containing-backslash",
                "stringize-character-constant-containing-backslash", "stringize-string-literal-containing-double-quote",
                "stringize-character-constant-containing-double-quote", "stringize-string-literal-containing-single-quote",
                "stringize-character-constant-containing-single-quote", "stringize-empty-string-literal",
                "stringize-result-of-#", "stringize-literal-after-macro-replacement", "stringize-backslash-outside-literal",
                # names created by ##: replaced where the name is not being replaced, left alone where it is (F9)
                "macro-name-created-by-##-replaced", "hideset-blocked-name-created-by-##",
                # arguments that 6.10.3.1p1 does not expand and whose expansion alone would be observable (F10, F6)
                "unexpanded-argument:not-a-valid-invocation-alone", "unexpanded-argument:advances-__COUNTER__",
                "unexpanded-argument-of:#-operand", "unexpanded-argument-of:##-operand", "unexpanded-argument-of:unused"]
        missing = [f for f in need if not feats.get(f)]
        if missing:
            raise core.HarnessError("vacuous: mechanisms never exercised by a judged case: %s" % missing)
        if len(outcomes) < 3:
            raise core.HarnessError("vacuous: fewer than 3 distinct outcome classes")
        if tot["chain_judged"] < tot["judged"] // 2:
            raise core.HarnessError("vacuous: chaining differential judged only %d cases" % tot["chain_judged"])
