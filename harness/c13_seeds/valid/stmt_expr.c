int f(int x) { return ({ int t = x * 2; t + 1; }) + ({ 3; }); }
