struct S { int a, b; };
int f(int n) {
  int x = (int[]){1, 2, 3}[1];
  int z = (struct S){4, 5}.b;
  int w = (&(struct S){6, 7})->a;
  int v = (struct S){4, 5}.a++;
  int *p = &(int[]){1, 2, 3}[n];
  return x + z + w + v + *p;
}
