"""C12 self-hosting fixpoint and determinism.

S1 = chibicc built by gcc from the tree, S2 = chibicc built by S1, S3 = chibicc built by S2 (all installed as
<dir>/chibicc with their own include/, invoked as ./chibicc from <dir> so argv[0]-derived strings coincide).
(a) fixpoint: S2 and S3 emit byte-identical assembly for every source of the tree (and S1 == S2 as well);
(b) behavioural identity: for every input of a closed corpus x every option set, S1 and S2 produce byte-identical
    stdout, stderr, exit status and output files;
(c) determinism: S1 run twice with ASLR on/off and a different environment size gives identical results.
The corpus is the union of the tree's sources, its test programs, the C13 seed programs (valid and invalid) and
generated units of the other checks' smallest bounds.
"""
import hashlib, os, re, shutil
from vlib import core

LEVEL = "exploration"
BUDGET = {"quick": 900, "thorough": 3600}     # deadlines, not expected times (a loaded machine is 5-8x slower)

OPTSETS_QUICK = [["-S"], ["-E"], ["-S", "-fPIC"], ["-c"], ["-S", "-fno-common", "-DX=1"], ["-M"]]
OPTSETS_MORE = [["-E", "-DX=1", "-UX"], ["-S", "-fcommon"], ["-c", "-fPIC"], ["-MD", "-S"], ["-E", "-include", "@INC"], ["-S", "-I", "@DIR"],
                ["-S", "-UX"], ["-c", "-g"], ["-S", "-O2", "-Wall", "-std=c11"], ["-E", "-I", "@DIR", "-DX=2"]]


def h(b):
    return hashlib.sha1(b).hexdigest()[:16]


def stage_build(args):
    prev, dst, f = args
    # like the Makefile's stage-2 rule: sources are named relatively, so __FILE__ strings equal those of the gcc build
    st, out, err = core.run_limited([os.path.join(prev, "chibicc"), "-c", "-o", f[:-2] + ".o", f], cwd=dst, timeout=300)
    return f, st, err[-500:]


def build_stage(ctx, prev, name):
    dst = os.path.join(ctx.work, name)
    core.sh(["rsync", "-a", "--exclude=*.o", "--exclude=/chibicc", "--exclude=/stage2", "--exclude=*.exe", ctx.tree + "/", dst + "/"], check=True)
    srcs = sorted(f for f in os.listdir(dst) if f.endswith(".c"))
    res = core.pmap(stage_build, [(prev, dst, f) for f in srcs])
    for f, st, err in res:
        if st != 0:
            return None, "compiling %s with %s failed (status %s): %s" % (f, os.path.basename(prev), st, err)
    rc, o, e = core.sh(["gcc", "-o", "chibicc"] + [f[:-2] + ".o" for f in srcs], cwd=dst)
    if rc != 0:
        return None, "link of %s failed: %s" % (name, e[-500:])
    return dst, ""


def run_case(args):
    """Run one (stage dir, input, options) in a private output dir; returns a digest tuple."""
    stage, inp, opts, outdir, variant = args
    shutil.rmtree(outdir, ignore_errors=True)
    os.makedirs(outdir)
    base = os.path.splitext(os.path.basename(inp))[0]
    argv = ["./chibicc" if variant != 2 else os.path.join(stage, "chibicc")] + opts    # variant 2: invoked by its full (long) path
    produces = None
    if "-E" not in opts and "-M" not in opts:
        ext = ".s" if "-S" in opts else ".o"
        produces = os.path.join(outdir, base + ext)
        argv += ["-o", produces]
    if "-MD" in opts:
        argv += ["-MF", os.path.join(outdir, base + ".d")]
    argv.append(inp)
    env = dict(os.environ)
    env.pop("VERIF_SEED", None)
    if variant == 1:
        env["VP_PADDING"] = "x" * 3000
        argv = ["setarch", "x86_64", "-R"] + argv
    if variant == 3:   # another process context: few file descriptors left (limit 40, 12 more inherited open), small stack limit, other umask/nice
        argv = ["bash", "-c", "exec 20</dev/null 21</dev/null 22</dev/null 23</dev/null 24</dev/null 25</dev/null 26</dev/null 27</dev/null 28</dev/null 29</dev/null 30</dev/null 31</dev/null; "
                "ulimit -n 40; ulimit -s 4096; exec \"$0\" \"$@\""] + argv
    st, out, err = core.run_limited(argv, cwd=stage, timeout=120, binary=True, env=env)
    files = {}
    for f in sorted(os.listdir(outdir)):
        p = os.path.join(outdir, f)
        if f.endswith(".o"):   # the assembler records the working directory (DW_AT_comp_dir), which differs per stage by construction
            core.run_limited(["strip", "-g", p], timeout=60)
        data = open(p, "rb").read()
        if variant == 2 or "-S" in opts or "-E" in opts:
            # the built-in include directory is named relative to argv[0]: that name legitimately follows the invocation path
            data = data.replace((stage + "/include").encode(), b"@INC").replace(b"./include", b"@INC")
        files[f] = h(data)
    # diagnostics may mention the scratch output dir (differs per run by construction): normalise it
    # ... and the assembler/linker quote the driver's mkstemp names when they reject something
    norm = lambda b: re.sub(rb"/tmp/chibicc-[A-Za-z0-9]{6}", b"@TMP", b.replace(outdir.encode(), b"@OUT")
                            .replace((stage + "/include").encode(), b"@INC").replace(b"./include", b"@INC"))
    shutil.rmtree(outdir, ignore_errors=True)
    return (str(st), h(norm(out)), h(norm(err)), tuple(sorted(files.items()))), norm(err)[:300].decode("utf-8", "replace")


LIMITS_REPLAY = ("d=$(mktemp -d) && trap 'rm -rf $d' EXIT && cd $d && for i in $(seq 0 199); do printf '#pragma once\\nextern int many_%d;\\n#define MANY_%d %d\\n' $i $i $i > m$i.h; done\n"
                 "cp \"$OLDPWD/input.c\" many.c\n$CHIBICC OPTS -o out1 many.c > o1 2> e1; echo $? >> o1\n"
                 "bash -c 'exec 20</dev/null 21</dev/null 22</dev/null 23</dev/null 24</dev/null 25</dev/null 26</dev/null 27</dev/null 28</dev/null 29</dev/null 30</dev/null 31</dev/null; "
                 "ulimit -n 40; ulimit -s 4096; exec \"$0\" \"$@\"' $CHIBICC OPTS -o out2 many.c > o2 2> e2; echo $? >> o2\n"
                 "cmp -s o1 o2 && cmp -s e1 e2 || exit 1; [ -f out1 ] && { cmp -s out1 out2 || exit 1; }; exit 0")


def corpus(ctx):
    inputs = []
    for f in sorted(os.listdir(ctx.tree)):
        if f.endswith(".c"):
            inputs.append(("src/" + f, os.path.join(ctx.tree, f)))
    tdir = os.path.join(ctx.tree, "test")
    for f in sorted(os.listdir(tdir)):
        if f.endswith(".c"):
            inputs.append(("test/" + f, os.path.join(tdir, f)))
    seeds = os.path.join(core.VERIF, "harness/c13_seeds")
    if os.path.isdir(seeds):
        for root, _, fs in os.walk(seeds):
            for f in sorted(fs):
                if f.endswith(".c"):
                    inputs.append(("seed/" + os.path.relpath(os.path.join(root, f), seeds), os.path.join(root, f)))
    # generated units from other checks (valid programs; small bounds)
    gd = ctx.mkdir("gen")
    # the property exempts __DATE__/__TIME__/__TIMESTAMP__: inputs using them are judged on a copy with those names neutralised
    for k, (name, path) in enumerate(inputs):
        txt = open(path, errors="surrogateescape").read()
        if re.search(r"__(DATE|TIME|TIMESTAMP)__", txt):
            txt = re.sub(r"__(DATE|TIME|TIMESTAMP)__", lambda m: {"DATE": '"Jan  1 1970"', "TIME": '"00:00:00"', "TIMESTAMP": '"Thu Jan  1 00:00:00 1970"'}[m.group(1)], txt)
            p2 = os.path.join(gd, "neutral_%d_%s" % (k, os.path.basename(path)))
            open(p2, "w", errors="surrogateescape").write(txt)
            inputs[k] = (name, p2)
    try:
        from checks import c01, c07, c19
        from vlib import twin
        cs = c01.gen_cases("quick")
        step = max(1, len(cs) // (12 if ctx.tier == "quick" else 60))
        for k in range(0, len(cs), step):
            unit, _ = c01.build_batch(0, cs[k:k + 150])
            p = os.path.join(gd, "c01_%d.c" % k)
            open(p, "w").write("#define PFX g_\n" + twin.PRELUDE + unit)
            inputs.append(("gen/c01_%d" % k, p))
        raw = c07.gen_int_cases("quick")
        ics = []
        for cid, tree in raw[::max(1, len(raw) // 3000)]:
            v, t, d = c07.ev(tree)
            if d:
                ics.append((cid, tree, v, t))
        for k in range(0, len(ics), 500):
            unit, _ = c07.build_int_batch(ics[k:k + 500])
            p = os.path.join(gd, "c07_%d.c" % k)
            open(p, "w").write("#define PFX g_\n" + twin.PRELUDE + unit)
            inputs.append(("gen/c07_%d" % k, p))
        fc = c07.gen_float_cases("quick")
        unit, _, _ = c07.build_float_batch(fc[:1500])
        p = os.path.join(gd, "c07_f.c")
        open(p, "w").write("#define PFX g_\n" + twin.PRELUDE + unit)
        inputs.append(("gen/c07_float", p))
        for k, (name, src) in enumerate(c19.adjacency_programs()[::(9 if ctx.tier == "quick" else 2)]):
            p = os.path.join(gd, "c19_%d.c" % k)
            open(p, "w").write(src)
            inputs.append(("gen/c19_%d" % k, p))
        # every operator applied to operands of every type class (valid and constraint-violating programs alike): the
        # self-compiled compiler must accept, reject and translate them exactly like the gcc-built one
        pre = ("struct S { int m; } s, t; union U { int a; double b; } un; void vf(void); int fn(int); int arr[3]; int i, j; long l; "
               "unsigned u; double d; float fl; long double ld; int *p, *q; _Bool b; enum E { EA, EB } en; char c;\n")
        ops = {"void": "vf()", "int": "i", "long": "l", "uint": "u", "double": "d", "float": "fl", "ldouble": "ld", "ptr": "p", "struct": "s",
               "union": "un", "func": "fn", "array": "arr", "bool": "b", "enum": "en", "char": "c", "null": "0", "str": '"x"'}
        k = 0
        for o in ["+", "-", "*", "/", "%", "&", "|", "^", "<<", ">>", "<", "<=", "==", "!=", "&&", "||", "=", "+=", "-=", ","]:
            for an, a in ops.items():
                body = "".join("long g%d_%s(void) { return (long)(%s %s %s); }\n" % (k, bn, a, o, bb) for bn, bb in ops.items())
                # one program per (operator, left class, right class): a rejected function must not hide the others
                for bn, bb in ops.items():
                    p = os.path.join(gd, "op_%d.c" % k)
                    open(p, "w").write(pre + "long g(void) { return (long)(%s %s %s); }\n" % (a, o, bb))
                    inputs.append(("gen/op/%s/%s,%s" % (o, an, bn), p)); k += 1
        forms = ["-%s", "+%s", "!%s", "~%s", "*%s", "&%s", "++%s", "%s--", "sizeof(%s)", "(int)%s", "(void)%s", "(double)%s", "%s ? 1 : 2", "1 ? %s : 0",
                 "%s(1)", "%s[1]", "%s.m", "%s->m", "_Alignof(%s)"]
        stmts = ["if (%s) return 1;", "while (%s) return 1;", "for (;%s;) return 1;", "do return 1; while (%s);", "switch (%s) { case 1: return 1; }", "return %s;",
                 "int x = %s; return x;", "int x[2] = { %s }; return x[0];", "struct S x = %s; return x.m;", "vf(%s);", "fn(%s);"]
        for fm in forms + stmts:
            for an, a in ops.items():
                p = os.path.join(gd, "op_%d.c" % k)
                txt = ("long g(void) { return (long)(%s); }\n" % (fm % a)) if fm in forms else ("long g(void) { %s return 0; }\n" % (fm % a))
                open(p, "w").write(pre + txt)
                inputs.append(("gen/form/%s/%s" % (fm.replace("%s", "_"), an), p)); k += 1
        # every construct that consumes a constant x every width threshold of the value (the self-compiled compiler's own
        # arithmetic on token values, directive values, sizes and labels must agree with the gcc-built one's)
        nums = []
        for v in (0, 1, 255, 256, 65535, 65536, 2147483647, 2147483648, 4294967295, 4294967296, 4294967297, 1 << 40, 3 << 32, 0x7fffffff00000000,
                  9223372036854775807, 9223372036854775808, 18446744073709551615):
            for sfx in ("", "L", "U", "UL"):
                if v >= 1 << 63 and "U" not in sfx:
                    continue
                nums.append("%d%s" % (v, sfx))
                if sfx in ("", "L") and v:
                    nums.append("(-%d%s)" % (v, sfx))
        nums += ["0x100000000", "(1L << 40)", "(1L << 32)", "(~0u)", "(~0ul)", "'\\377'", "(-2147483647 - 1)", "(-9223372036854775807L - 1)"]
        tmpl = ["#if N\nint a = 1;\n#else\nint a = 2;\n#endif\n", "#if 0\n#elif N\nint a = 1;\n#else\nint a = 2;\n#endif\n", "#if (N) > 0\nint a = 1;\n#elif (N) < 0\nint a = 3;\n#else\nint a = 2;\n#endif\n",
                "#if 1\n#elif N\n#endif\nint a;\n", "#if (N) >> 31 >> 1\nint a = 1;\n#else\nint a = 2;\n#endif\n",
                "long v = N;\n", "int v = N;\n", "char v = N;\n", "_Bool v = N;\n", "double v = N;\n", "float v = N;\n", "unsigned long v = N;\n", "short v[] = {N, N};\n",
                "enum { e = N }; long v = e;\n", "int f(long x) { switch (x) { case N: return 1; } return 0; }\n", "int f(int x) { switch (x) { case N: return 1; } return 0; }\n",
                "long f(long x) { return x + N; }\n", "long f(long x) { return x * N; }\n", "long f(long x) { return x / N; }\n", "long f(long x) { return x % N; }\n",
                "long f(long x) { return x & N; }\n", "long f(long x) { return x << (N & 63); }\n", "int f(long x) { return x < N; }\n", "int f(int x) { return x == N; }\n",
                "int f(void) { return N ? 1 : 2; }\n", "int f(void) { return !N; }\n", "int f(int x) { return x && N; }\n", "int f(int x) { return x || N; }\n",
                "int f(void) { if (N) return 1; return 0; }\n", "int f(void) { int n = 0; while (N) { if (n++) break; } return n; }\n",
                "char a[(N) % 7 + 8];\n", "struct { long f : (N) % 31 + 32; } s;\n", "long f(void) { return sizeof(char[(N) % 100 + 101]); }\n",
                "int g(int, ...); int f(void) { return g(1, N); }\n", "long a[] = { [(N) % 5 + 5] = N };\n", "_Alignas(1 << ((N) & 3)) char c;\n",
                "long f(void) { return (int)N; }\n", "long f(void) { return (unsigned char)N; }\n", "double f(void) { return (double)N; }\n", "long f(void) { return -N; }\n", "long f(void) { return ~N; }\n"]
        k = 0
        for ti, t in enumerate(tmpl):
            for n in (nums if ctx.tier == "thorough" else nums[::2] + nums[-8:]):
                p = os.path.join(gd, "num_%d.c" % k)
                open(p, "w").write(t.replace("N", n))
                inputs.append(("gen/num/t%d/%s" % (ti, n), p)); k += 1
    except Exception as e:   # other checks' generators are optional corpus providers
        ctx.notes.append("generator corpus partly unavailable: %r" % (e,))
    return inputs


def run(ctx):
    s1 = ctx.tree
    s2, why = build_stage(ctx, s1, "s2")
    if not s2:
        ctx.violation("C12|stage2-build-fails", "chibicc cannot compile itself: " + why, files={"why.txt": why},
                      replay="cd $CHIBICC_DIR && for f in *.c; do ./chibicc -c -o /dev/null $f || exit 1; done; exit 0")
        ctx.cover(evaluations=1, distinct_nontrivial=2, rule="stage-2 build")
        return
    s3, why = build_stage(ctx, s2, "s3")
    if not s3:
        ctx.violation("C12|stage3-build-fails", "stage 2 cannot compile the sources: " + why, files={"why.txt": why}, replay="exit 1")
        ctx.cover(evaluations=1, distinct_nontrivial=2, rule="stage-3 build")
        return
    inputs = corpus(ctx)
    inc = os.path.join(ctx.work, "gen", "inc.h")
    open(inc, "w").write("#define FROM_INCLUDE 1\n")
    optsets = OPTSETS_QUICK + (OPTSETS_MORE if ctx.tier == "thorough" else [])
    optsets = [[o.replace("@INC", inc).replace("@DIR", os.path.join(ctx.tree, "test")) for o in os_] for os_ in optsets]
    jobs = []
    # (a) fixpoint on the sources: S1, S2, S3 with -S and -c
    for name, path in inputs:
        fam = name.split("/")[0]
        for oi, opts in enumerate(optsets):
            if fam in ("seed", "gen") and oi >= (3 if ctx.tier == "quick" else 99):
                continue
            if (name.startswith("gen/op/") or name.startswith("gen/form/") or name.startswith("gen/num/")) and oi >= 1:
                continue
            extra = ["-I" + os.path.join(ctx.tree, "test")] if fam == "test" else []
            key = (name, " ".join(opts))
            stages = [("S1", s1), ("S2", s2)] + ([("S3", s3)] if fam == "src" else [])
            for sn, sd in stages:
                jobs.append((key, sn, (sd, path, opts + extra, os.path.join(ctx.work, "o", "%d" % len(jobs)), 0)))
            if oi < 2 and not (name.startswith("gen/op/") or name.startswith("gen/form/") or name.startswith("gen/num/")):   # (c) determinism of S1: second run, ASLR off, bigger environment
                jobs.append((key, "S1'", (s1, path, opts + extra, os.path.join(ctx.work, "o", "%d" % len(jobs)), 1)))
    # (d) the path the compiler is invoked through must not matter: S1 reached through symlinked directories whose names are
    # 60..1000 characters long (chibicc, include/ linked inside), on inputs that use the built-in headers
    hdr_inputs = [(n, p) for n, p in inputs if n in ("test/stdhdr.c", "test/varargs.c", "test/offsetof.c", "test/atomic.c", "src/main.c")]
    hp = os.path.join(ctx.work, "gen", "hdrs.c")
    open(hp, "w").write("".join("#include <%s>\n" % h for h in sorted(os.listdir(os.path.join(s1, "include")))) + "size_t vp_n = sizeof(va_list);\n")
    hdr_inputs.append(("gen/builtin-headers", hp))
    longdirs = []
    for L in (60, 140, 200, 400, 1000):
        d = os.path.join(ctx.work, "lp%d" % L)
        parts = []
        rest = L
        while rest > 0:
            parts.append("d" * min(rest, 200)); rest -= 200
        full = os.path.join(d, *parts)
        os.makedirs(full)
        os.symlink(os.path.join(s1, "chibicc"), os.path.join(full, "chibicc"))
        os.symlink(os.path.join(s1, "include"), os.path.join(full, "include"))
        longdirs.append((L, full))
    for name, path in hdr_inputs:
        extra = ["-I" + os.path.join(ctx.tree, "test")] if name.startswith("test/") else []
        for opts in (["-S"], ["-E"]):
            key = (name, " ".join(opts))
            if not any(j[0] == key and j[1] == "S1" for j in jobs):
                jobs.append((key, "S1", (s1, path, opts + extra, os.path.join(ctx.work, "o", "%d" % len(jobs)), 0)))
            for L, full in longdirs:
                jobs.append((key, "S1@path%d" % L, (full, path, opts + extra, os.path.join(ctx.work, "o", "%d" % len(jobs)), 2)))
    # (e) the process context must not matter: S1 with 12 extra inherited descriptors, RLIMIT_NOFILE 40 and a 4 MB stack on inputs that open
    # many files one after the other (200 sibling headers; the tree's own sources with their header chains)
    hd = ctx.mkdir("manyhdr")
    for i in range(200):
        open(os.path.join(hd, "m%d.h" % i), "w").write("#pragma once\nextern int many_%d;\n#define MANY_%d %d\n" % (i, i, i))
    mp = os.path.join(hd, "many.c")
    open(mp, "w").write("".join('#include "m%d.h"\n' % i for i in range(200)) + "int sum = MANY_0 + MANY_199;\n")
    for name, path in [("gen/many-headers", mp)] + [(n, p) for n, p in inputs if n in ("src/main.c", "src/parse.c", "test/stdhdr.c", "gen/builtin-headers")] + [("gen/builtin-headers", hp)]:
        extra = ["-I" + os.path.join(ctx.tree, "test")] if name.startswith("test/") else []
        for opts in (["-S"], ["-E"], ["-c"]):
            key = (name, " ".join(opts))
            if not any(j[0] == key and j[1] == "S1" for j in jobs):
                jobs.append((key, "S1", (s1, path, opts + extra, os.path.join(ctx.work, "o", "%d" % len(jobs)), 0)))
            if not any(j[0] == key and j[1] == "S1#limits" for j in jobs):
                jobs.append((key, "S1#limits", (s1, path, opts + extra, os.path.join(ctx.work, "o", "%d" % len(jobs)), 3)))
    have_setarch = core.sh(["setarch", "x86_64", "-R", "true"])[0] == 0
    if not have_setarch:
        jobs = [j for j in jobs if j[1] != "S1'"]
        ctx.notes.append("setarch -R unavailable: ASLR variant skipped")
    res = core.pmap(run_case, [j[2] for j in jobs], chunksize=4)
    table = {}
    for (key, sn, a), (dig, errtxt) in zip(jobs, res):
        table.setdefault(key, {})[sn] = (dig, errtxt, a)
    ncmp = 0
    outcomes = set()
    for key, d in sorted(table.items()):
        name, opts = key
        base = d["S1"][0]
        outcomes.add(base[0] + ("/out" if base[3] else ""))
        for sn in ["S2", "S3", "S1'", "S1#limits"] + sorted(x for x in d if x.startswith("S1@")):
            if sn not in d:
                continue
            ncmp += 1
            if d[sn][0] != base:
                what = [w for w, x, y in zip(("status", "stdout", "stderr", "files"), d[sn][0], base) if x != y]
                fam = name.split("/")[0]
                cls = {"S2": "stage1-vs-stage2", "S3": "stage1-vs-stage3", "S1'": "nondeterministic", "S1#limits": "depends-on-process-limits"}.get(sn, "depends-on-invocation-path")
                a = d[sn][2]
                src = open(a[1], errors="replace").read()
                sig = "C12|%s|%s|%s|%s" % (cls, name if fam in ("src", "test") else fam, opts.split()[0], "+".join(what))
                rp = ("cd $CHIBICC_DIR && d=$(mktemp -d) && trap 'rm -rf $d' EXIT && mkdir $d/s2 $d/o1 $d/o2 && cp -r *.c *.h include $d/s2/ && "
                      "for f in *.c; do ./chibicc -c -o $d/s2/${f%.c}.o $f || exit 1; done && (cd $d/s2 && gcc -o chibicc *.o) || exit 1\n"
                      "cp \"$OLDPWD/input.c\" $d/input.c\n"
                      "./chibicc OPTS -o $d/o1/out $d/input.c > $d/o1/stdout 2> $d/o1/stderr; echo $? > $d/o1/rc\n"
                      "(cd $d/s2 && ./chibicc OPTS -o $d/o2/out $d/input.c > $d/o2/stdout 2> $d/o2/stderr; echo $? > $d/o2/rc)\n"
                      "diff -r $d/o1 $d/o2 > /dev/null && exit 0; exit 1").replace("OPTS", " ".join(a[2]))
                if sn == "S1'":
                    rp = "exit 1"
                if sn == "S1#limits":
                    rp = None
                ctx.violation(sig, "%s %s: %s differs between S1 and %s (%s | %s)" % (name, opts, "+".join(what), sn, d["S1"][1][:80], d[sn][1][:80]),
                              files={"input.c": src}, replay=rp if sn == "S2" else LIMITS_REPLAY.replace("OPTS", " ".join(o for o in a[2] if not o.startswith("-I"))) if sn == "S1#limits" and name == "gen/many-headers" else None)
    ctx.cover(evaluations=ncmp, distinct_nontrivial=len(table), inputs=len(inputs), option_sets=len(optsets), outcome_classes=sorted(outcomes),
              rule="one case = (input file, option set); judged by byte equality of status/stdout/stderr/output files between S1 and S2 "
                   "(and S3 for the tree's sources = fixpoint) and between two S1 runs with ASLR on/off and different environment size")
    if len(outcomes) < 2:
        raise core.HarnessError("vacuous: corpus produced a single outcome class %s" % outcomes)
    for k in list(table)[:: max(1, len(table) // 4)][:4]:
        ctx.sample({"input": k[0], "options": k[1], "S1_digest": list(table[k]["S1"][0][:3])})
    ctx.assume("the corpus is finite: tree sources, test programs, C13 seeds, generated units of C01/C07/C19; a miscompilation of chibicc by itself must be exercised by one of them to be visible")
    ctx.assume("stages are linked by gcc; as/ld are trusted and deterministic")
