#define foo fo ## o
int x = foo;
