/* C20 driver runtime (gcc-compiled).  For each case (an `int f(void)` compiled by chibicc as cc_f and by gcc -O0 as
 * ref_f) it measures, on the machine, what the abstract model predicts:
 *   - x87 depth (tag word) and TOP before/after calling cc_f N = 1, 2, 9 times (loop count gn = 1), for gc = 0, 1
 *   - a gcc-compiled long double computation after the calls (x87 residue corrupts later results)
 *   - cc_f's result state (return value + every global slot) against ref_f's after the Nth repetition
 *   - %rsp / x87 depth at the statement-level probe inside the loop, for gn = 1 and gn = 1000
 * One line per case:  R <idx> <fields...>   (parsed by checks/c20.py)
 */
#include <stdio.h>
#include <string.h>
#include <stdlib.h>

typedef struct S { long a; int b; int c; } S;
typedef struct L { long a[3]; } L;
#define DECL(P) \
  extern int P##gi[8]; extern long P##gl[8]; extern float P##gf[8]; extern double P##gd[8]; extern long double P##ge[8]; \
  extern int *P##gp[8]; extern S P##gs[8]; extern L P##gL[8]; extern int P##gc, P##gn, P##gna; \
  extern int P##ri; extern long P##rl; extern float P##rf; extern double P##rd; extern long double P##re; \
  extern int *P##rp; extern S P##rs; extern L P##rL; void P##reset(void); long P##getbf(int);
DECL(cc_)
DECL(ref_)

struct vp_case { int (*cc)(void); int (*ref)(void); };
extern struct vp_case vp_cases[];
extern int vp_ncases;

extern unsigned long vp_pcount, vp_rsp_first, vp_rsp_last, vp_rsp_min, vp_rsp_max;
extern int vp_x87_first, vp_x87_max, vp_x87_last;
unsigned vp_x87(unsigned *tw);
void vp_fninit(void);
long vp_call(int (*fn)(void));
long vp_rspdelta;

static int depth_of(unsigned tw) {
  int d = 0;
  for (int i = 0; i < 8; i++)
    if (((tw >> (2 * i)) & 3) != 3) d++;
  return d;
}

/* net pushes modulo 8 as a signed number in [-4,3], from TOP */
static int top_of(unsigned sw) {
  int top = (sw >> 11) & 7;
  int net = (8 - top) & 7;
  return net >= 4 ? net - 8 : net;
}

static volatile long double lv1 = 1.25L, lv2 = 3.0L, lv3 = 0.5L;
__attribute__((noinline)) static int ldcheck(void) {
  /* needs 3 free x87 slots; wrong (NaN) as soon as fewer are free */
  long double r = (lv1 + lv2) * (lv2 - lv3) - (lv1 * lv3);
  return r == 10.0L;
}

static int ldeq(long double a, long double b) {
  if (a != a && b != b) return 1;
  return memcmp(&a, &b, 10) == 0;
}
static int feq(double a, double b) { return (a != a && b != b) || memcmp(&a, &b, 8) == 0; }

/* bit mask of slot groups whose contents differ between the twins */
static unsigned cmp_state(void) {
  unsigned m = 0;
  for (int j = 0; j < 8; j++) {
    if (cc_gi[j] != ref_gi[j]) m |= 1;
    if (cc_gl[j] != ref_gl[j]) m |= 2;
    if (!feq(cc_gf[j], ref_gf[j])) m |= 4;
    if (!feq(cc_gd[j], ref_gd[j])) m |= 8;
    if (!ldeq(cc_ge[j], ref_ge[j])) m |= 16;
    if (cc_gp[j] - cc_gi != ref_gp[j] - ref_gi) m |= 32;
    if (cc_gs[j].a != ref_gs[j].a || cc_gs[j].b != ref_gs[j].b || cc_gs[j].c != ref_gs[j].c) m |= 64;
    if (memcmp(&cc_gL[j], &ref_gL[j], sizeof(L))) m |= 128;
  }
  for (int w = 0; w < 3; w++) if (cc_getbf(w) != ref_getbf(w)) m |= 256;
  if (cc_ri != ref_ri) m |= 1 << 9;
  if (cc_rl != ref_rl) m |= 1 << 10;
  if (!feq(cc_rf, ref_rf)) m |= 1 << 11;
  if (!feq(cc_rd, ref_rd)) m |= 1 << 12;
  if (!ldeq(cc_re, ref_re)) m |= 1 << 13;
  if (cc_rp - cc_gi != ref_rp - ref_gi) m |= 1 << 14;
  if (cc_rs.a != ref_rs.a || cc_rs.b != ref_rs.b || cc_rs.c != ref_rs.c) m |= 1 << 15;
  if (memcmp(&cc_rL, &ref_rL, sizeof(L))) m |= 1 << 16;
  return m;
}

static void probe_reset(void) {
  vp_pcount = 0; vp_rsp_first = vp_rsp_last = vp_rsp_min = vp_rsp_max = 0;
  vp_x87_first = vp_x87_max = vp_x87_last = 0;
}

int main(int argc, char **argv) {
  static const int NS[3] = {1, 2, 9};
  int lo = 0, hi = vp_ncases;
  if (argc > 1) { lo = atoi(argv[1]); hi = lo + 1; }
  for (int ci = lo; ci < hi; ci++) {
    struct vp_case *c = &vp_cases[ci];
    printf("R %d", ci);
    for (int flag = 0; flag < 2; flag++) {
      for (int ni = 0; ni < 3; ni++) {
        int N = NS[ni];
        unsigned tw0, tw1, sw0, sw1;
        int rc = 0, rr = 0;
        long rspd = 0;
        cc_reset(); ref_reset();
        cc_gc = ref_gc = flag; cc_gn = ref_gn = 1;
        vp_fninit();
        probe_reset();
        sw0 = vp_x87(&tw0);
        for (int j = 0; j < N; j++) { rc = (int)vp_call(c->cc); rspd |= vp_rspdelta; }
        sw1 = vp_x87(&tw1);
        int ldok = ldcheck();
        unsigned long pc = vp_pcount;
        int pmax = vp_x87_max;
        vp_fninit();
        for (int j = 0; j < N; j++) rr = c->ref();
        vp_fninit();
        /* fields: x87 depth delta, TOP delta (net pushes mod 8), later-long-double ok, return value equal,
           state-difference mask, rsp delta across calls, probes executed, max x87 depth seen at a probe */
        printf(" | %d %d %d %d %x %ld %lu %d", depth_of(tw1) - depth_of(tw0), top_of(sw1) - top_of(sw0), ldok,
               rc == rr, cmp_state(), rspd, pc, pmax);
      }
    }
    /* loop runs: gn = 1 and gn = 1000, probe inside the loop body */
    for (int li = 0; li < 2; li++) {
      unsigned tw0, tw1, sw0, sw1;
      cc_reset();
      cc_gc = 0; cc_gn = li ? 1000 : 1;
      vp_fninit();
      probe_reset();
      sw0 = vp_x87(&tw0);
      vp_call(c->cc);
      sw1 = vp_x87(&tw1);
      vp_fninit();
      /* fields: probes, rsp(last)-rsp(first), rsp(min)-rsp(first), rsp(max)-rsp(first), x87 depth at first probe,
         max x87 depth at a probe, x87 depth delta over the call, allocas executed */
      printf(" | %lu %ld %ld %ld %d %d %d %d", vp_pcount, (long)(vp_rsp_last - vp_rsp_first),
             (long)(vp_rsp_min - vp_rsp_first), (long)(vp_rsp_max - vp_rsp_first), vp_x87_first, vp_x87_max,
             depth_of(tw1) - depth_of(tw0), cc_gna);
    }
    printf("\n");
    fflush(stdout);
  }
  return 0;
}
