"""C10 conditional inclusion and #include resolution select exactly the right text.

Part A  explicit-state model of the conditional machine (models/c10_model.py); breadth-first closure of the model
        graph; EVERY well-nested directive sequence of length <= n (nesting <= 3) over the alphabet
        {#if 0|1|defined X|X|!X, #ifdef X, #ifndef X, #elif c, #else, #endif, #define X 1, #undef X, text line ending
        in an empty macro} (+ trailing junk token where it is to be ignored) is rendered with a probe line after every
        directive and replayed through `chibicc -cc1 -E`; surviving probe ids must equal the model's.  gcc -E -P is
        the second oracle.  Sequences share a process (batch) and every deviating one is re-run alone.
Part B  #if arithmetic on a grid of intmax_t/uintmax_t expression trees (truth, value, signedness probes).
Part C  include resolution over generated directory trees (includer's dir, -I d1, -I d2, system, -idirafter d3).
Part D  re-inclusion shortcuts: file shapes that do / do not qualify as guarded, included 2-3 times.
Part E  -include / -D / -U option orders against the same directives written in the file.
"""
import itertools, os, re, shutil
from vlib import core
from models import c10_model as M

LEVEL = "model_checking"
BUDGET = {"quick": 240, "thorough": 1700}

TOK = re.compile(r"[A-Za-z_][A-Za-z0-9_]*|\d+|\S")
GCC = ["gcc", "-E", "-P", "-w", "-nostdinc"]


def lex(s):
    return TOK.findall(s)


def cc_E(chibicc, src, opts=(), cwd=None, limits=False):
    return core.run_limited([chibicc, "-cc1", "-E"] + list(opts) + ["-cc1-input", src, src], cwd=cwd, timeout=20,
                            limits=limits, cpu=4, mem=1 << 30)


def gcc_E(src, opts=(), cwd=None):
    return core.run_limited(GCC + list(opts) + [src], cwd=cwd, timeout=20)


def segments(out, n):
    """Split a token stream at the separators S0 .. Sn (Sn terminates the last case). -> list of n token lists, or
    None entries where a case's separators are not both present in the right order."""
    toks = lex(out)
    pos = {}
    for i, t in enumerate(toks):
        if t[0] == "S" and t[1:].isdigit() and t not in pos:
            pos[t] = i
    res = []
    for k in range(n):
        a, b = pos.get("S%d" % k), pos.get("S%d" % (k + 1))
        if a is None or b is None or b < a:
            res.append(None)
        else:
            res.append(toks[a + 1:b])
    return res


def run_batch(runner, wd, texts, opts=(), name="b.c", prolog=""):
    """Run many independent cases in one process; bisect when the process fails or separators are lost.
    -> list of (status, tokens|None, stderr-tail) per case; status 0 = ok."""
    n = len(texts)
    src = os.path.join(wd, name)
    with open(src, "w") as f:
        f.write(prolog)
        for k, t in enumerate(texts):
            f.write("S%d\n" % k)
            f.write(t)
        f.write("S%d\n" % n)
    st, out, err = runner(src, opts, wd)
    if st == 0:
        seg = segments(out, n)
        if all(s is not None for s in seg):
            return [(0, s, "") for s in seg]
    if n == 1:
        seg = segments(out, 1) if st == 0 else [None]
        return [(st if st != 0 else "garbled", seg[0], err[-300:])]
    h = n // 2
    return run_batch(runner, wd, texts[:h], opts, name, prolog) + run_batch(runner, wd, texts[h:], opts, name, prolog)


# =====================================================================================================
# Part A
# =====================================================================================================
A_PROLOG = "#define E\n"
A_BATCH = 400
CONFIRM = 8


def a_classify(seq, exp, st, got):
    """Deviation class of one case (run alone)."""
    if st != 0:
        if isinstance(st, int) and st < 0:
            return "crash"
        # a directive that was not executed makes the nesting unbalanced
        return "rejected-after-empty-expansion" if any(
            seq[i][0] == "te" and seq[i + 1][0] != "te" for i in range(len(seq) - 1)) or (
            seq and seq[-1][0] == "te" and M.run_sequence(seq)[1] > 0) else "rejected"
    if "#" in got:
        return "directive-printed-as-text"
    junk = [t for t in got if t[0] == "J"]
    rest = [t for t in got if t[0] != "J"]
    if rest == exp and junk:
        kinds = sorted({"#" + seq[int(t[1:])][0] for t in junk if t[1:].isdigit() and int(t[1:]) < len(seq)})
        return "&".join("trailing-tokens-emitted|after=" + k for k in kinds)
    extra = [t for t in rest if t not in exp]
    missing = [t for t in exp if t not in rest]
    gov = ""
    first = (extra + missing)[0] if (extra or missing) else None
    if first and first[1:].isdigit() and int(first[1:]) < len(seq):
        gov = "|under=#" + seq[int(first[1:])][0]
    if extra and not missing:
        return "skipped-group-processed" + gov
    if missing and not extra:
        return "selected-group-skipped" + gov
    if extra or missing:
        return "wrong-groups" + gov
    return "token-order"


def a_task(args):
    chibicc, wd, prefixes, n, maxdepth, with_te, need_te, explicit = args
    os.makedirs(wd, exist_ok=True)
    syms = M.symbols(with_te=with_te)
    res = {"traces": 0, "runs": 0, "judged": 0, "disagree": 0, "nonempty": 0, "viol": {}, "trans": set(),
           "states": set(), "disagree_ex": None, "chain_diff": 0}

    confirmed = {}

    def cc(src, opts, cwd):
        res["runs"] += 1
        return cc_E(chibicc, src, opts, cwd)

    def flush(batch):
        if not batch:
            return
        texts = [b[1] for b in batch]
        r_c = run_batch(cc, wd, texts, prolog=A_PROLOG)
        r_g = run_batch(lambda s, o, c: gcc_E(s, o, c), wd, texts, prolog=A_PROLOG)
        for (seq, txt, exp), (sc, tc, ec), (sg, tg, eg) in zip(batch, r_c, r_g):
            res["traces"] += 1
            if sg != 0 or tg != exp:
                res["disagree"] += 1
                if res["disagree_ex"] is None:
                    res["disagree_ex"] = (txt, exp, tg, eg)
                continue
            res["judged"] += 1
            if exp:
                res["nonempty"] += 1
            if sc == 0 and tc == exp:
                continue
            # deviating in the batch: re-run alone (history = state, from the start).  After CONFIRM alone-confirmed
            # cases of one class in this shard the batch verdict is counted without another process.
            pre = a_classify(seq, exp, sc, tc or []) if sc == 0 else None
            if pre is not None and confirmed.get(pre, 0) >= CONFIRM:
                for cls in pre.split("&"):
                    res["viol"][cls][0] += 1
                continue
            (sa, ta, ea), = run_batch(cc, wd, [txt], prolog=A_PROLOG, name="alone.c")
            if sa == 0 and ta == exp:
                res["chain_diff"] += 1
                cls_all = "chained-differs-from-alone"
                ta = tc
            else:
                cls_all = a_classify(seq, exp, sa, ta or [])
                if cls_all == pre:
                    confirmed[pre] = confirmed.get(pre, 0) + 1
            for cls in cls_all.split("&"):
                v = res["viol"].setdefault(cls, [0, None])
                v[0] += 1
                if v[1] is None or len(txt) < len(v[1][0]):
                    v[1] = (txt, exp, ta, str(sa), ea)

    def all_seqs():
        if explicit is not None:
            yield from explicit
        for pre in prefixes:
            yield from M.enumerate_sequences(pre, n, maxdepth, syms, need_te=need_te)

    batch = []
    if True:
        for seq in all_seqs():
            exp, nclose, trans = M.run_sequence(seq)
            for t in trans:
                res["trans"].add(t)
                res["states"].add(t[0])
            txt = "#undef X\n" + "".join(M.render(s, i) for i, s in enumerate(seq)) + "#endif\n" * nclose
            batch.append((seq, txt, exp))
            if len(batch) >= A_BATCH:
                flush(batch)
                batch = []
    flush(batch)
    return res


A_REPLAY = """$CHIBICC -cc1 -E -cc1-input case.c case.c > got.txt 2> err.txt || exit 1
python3 - <<'EOF' || exit 1
import re,sys
t = re.findall(r"[A-Za-z_][A-Za-z0-9_]*|\\d+|\\S", open("got.txt").read())
e = open("expected.txt").read().split()
sys.exit(0 if t == e else 1)
EOF
exit 0"""


def part_a(ctx, n, n_te, cover_k, maxdepth=3):
    total_states, total_trans = M.model_graph(maxdepth, M.symbols(with_te=True))
    agg = {"traces": 0, "runs": 0, "judged": 0, "disagree": 0, "nonempty": 0, "chain_diff": 0}
    trans, states = set(), set()
    done = []
    plan = [("cover", True, False, cover_k), ("no-te", False, False, n), ("te", True, True, n_te)]
    for label, with_te, need_te, nn in plan:
        if ctx.out_of_time(reserve=20):
            ctx.incomplete("part A: stopped before sub-enumeration %s; finished: %s" % (label, done))
            break
        syms = M.symbols(with_te=with_te)
        ntask = core.NPROC * 4
        if label == "cover":
            # transition cover of the whole model closure (nesting <= maxdepth, any trace length)
            seqs = [s for k in range(1, nn + 1) for s in M.transition_cover(maxdepth, syms, k)]
            tasks = [(ctx.chibicc, os.path.join(ctx.work, "a_cover_%d" % i), [], 0, maxdepth, True, False,
                      seqs[i::ntask]) for i in range(ntask) if seqs[i::ntask]]
        else:
            plen = min(2, nn)
            shorter = [s for s in M.enumerate_sequences((), plen - 1, maxdepth, syms)] if plen > 1 else []
            prefixes = [s for s in M.enumerate_sequences((), plen, maxdepth, syms) if len(s) == plen]
            # shard: round-robin prefixes over tasks (VERIF_SEED rotates the assignment only)
            rot = ctx.seed % max(1, len(prefixes))
            prefixes = prefixes[rot:] + prefixes[:rot]
            tasks = [(ctx.chibicc, os.path.join(ctx.work, "a_%s_%d" % (label, i)), prefixes[i::ntask], nn, maxdepth,
                      with_te, need_te, None) for i in range(ntask) if prefixes[i::ntask]]
            # the sequences shorter than the prefix length
            short = [s for s in shorter if (not need_te or any(x[0] == "te" for x in s))]
            if short:
                tasks.append((ctx.chibicc, os.path.join(ctx.work, "a_%s_short" % label), [], 0, maxdepth, with_te,
                              need_te, short))
        results = core.pmap(a_task, tasks)
        for r in results:
            for k in agg:
                agg[k] += r[k]
            trans |= r["trans"]
            states |= r["states"]
            if r["disagree_ex"]:
                txt, exp, tg, eg = r["disagree_ex"]
                raise core.HarnessError("part A: model and gcc disagree on\n%s\nmodel=%s gcc=%s %s" % (txt, exp, tg, eg))
            for cls, (cnt, ex) in sorted(r["viol"].items()):
                txt, exp, got, st, err = ex
                ctx.violation("C10|cond|" + cls,
                              "conditional machine: %s; expected tokens %s, got %s (status %s) for:\n%s"
                              % (cls, exp, got, st, txt),
                              files={"case.c": A_PROLOG + txt, "expected.txt": " ".join(exp) + "\n",
                                     "observed.txt": "status=%s\n%s\n%s\n" % (st, " ".join(got or []), err)},
                              replay=A_REPLAY)
                for _ in range(cnt - 1):
                    ctx.violation("C10|cond|" + cls, "")
        done.append("%s %s%d" % (label, "k<=" if label == "cover" else "n<=", nn))
        if label == "cover" and (len(states) != total_states or len(trans) != total_trans):
            raise core.HarnessError("transition cover incomplete: %d/%d states %d/%d transitions"
                                    % (len(states), total_states, len(trans), total_trans))
    if agg["judged"] == 0 or agg["nonempty"] == 0:
        raise core.HarnessError("part A vacuous: %s" % agg)
    ctx.cover(states=len(states), transitions=len(trans), model_states_closure=total_states,
              model_transitions_closure=total_trans, traces_validated_against_impl=agg["judged"],
              a_sequences=agg["traces"], a_process_runs=agg["runs"], a_oracle_disagreements=agg["disagree"],
              a_chained_vs_alone_differences=agg["chain_diff"], a_bounds=done)
    ex = (("if", "X"), ("define",), ("elif", "defined X"), ("else", 1), ("te",))
    ctx.sample({"part": "A", "sequence": [list(s) for s in ex], "rendering": M.render_case(ex)[0],
                "expected": M.render_case(ex)[1]})


# =====================================================================================================
# Part B: #if arithmetic
# =====================================================================================================
B_PROLOG = "#define D 1\n#define M1 (-1)\n#define MU 0u\n"
B_BATCH = 300


def L(text, v, u=False):
    return ("lit", text, v, u)


def NEG(e):
    return ("un", "-", e)


# (tree, class): class = how ordinary C (outside #if) would type the spelling - the root causes live there
ATOMS = [
    (L("0", 0), "i32"), (L("1", 1), "i32"), (NEG(L("1", 1)), "i32"), (L("2", 2), "i32"), (L("3", 3), "i32"),
    (L("31", 31), "i32"), (L("32", 32), "i32"), (L("63", 63), "i32"), (L("64", 64), "i32"),
    (L("0u", 0, True), "u32"), (L("1u", 1, True), "u32"), (L("2U", 2, True), "u32"),
    (L("2147483647", 2**31 - 1), "i32"), (NEG(L("2147483647", 2**31 - 1)), "i32"),
    (L("0x7fffffff", 2**31 - 1), "i32"), (L("0x80000000", 2**31), "u32"), (L("0xffffffff", 2**32 - 1), "u32"),
    (L("2147483648", 2**31), "i64"), (NEG(L("2147483648", 2**31)), "i64"), (L("4294967296", 2**32), "i64"),
    (L("1L", 1), "i64"), (NEG(L("1LL", 1)), "i64"), (L("1UL", 1, True), "u64"), (L("3ull", 3, True), "u64"),
    (L("9223372036854775807", 2**63 - 1), "i64"), (NEG(L("9223372036854775807", 2**63 - 1)), "i64"),
    (L("0x7fffffffffffffff", 2**63 - 1), "i64"), (L("0x8000000000000000", 2**63, True), "u64"),
    (L("0xffffffffffffffff", 2**64 - 1, True), "u64"), (L("18446744073709551615u", 2**64 - 1, True), "u64"),
    (L("'a'", 97), "char"), (L("'\\0'", 0), "char"), (L("'\\n'", 10), "char"),
    (L("'\\377'", None), "char"),          # implementation-defined value: never judged
    (L("defined D", 1), "defined"), (L("defined(U)", 0), "defined"), (L("defined ( D )", 1), "defined"),
    (L("UNKNOWN", 0), "ident"), (L("true", 0), "ident"), (L("int", 0), "ident"),
    (L("M1", -1), "i32"), (L("MU", 0, True), "u32"),
]
SMALL = ["0", "1", "- 1", "0u", "0xffffffff", "2"]
MEDIUM = SMALL + ["0x80000000", "- 2147483648", "0xffffffffffffffff", "63", "UNKNOWN"]
BINOPS = ["+", "-", "*", "/", "%", "<<", ">>", "<", ">", "<=", ">=", "==", "!=", "&", "|", "^", "&&", "||"]
UNOPS = ["-", "~", "!", "+"]
OPNAME = {"+": "add", "-": "sub", "*": "mul", "/": "div", "%": "mod", "<<": "shl", ">>": "shr", "<": "lt", ">": "gt",
          "<=": "le", ">=": "ge", "==": "eq", "!=": "ne", "&": "and", "|": "or", "^": "xor", "&&": "land", "||": "lor",
          "~": "not", "!": "lnot"}
_CLS = {}


def atom_key(e):
    return M.etext(e).replace("(", "").replace(")", "")


def shape(e):
    k = e[0]
    if k == "lit":
        return _CLS.get(e[1], "lit")
    if k == "un":
        if e[2][0] == "lit" and e[1] == "-" and ("- " + e[2][1]) in _CLS:
            return _CLS["- " + e[2][1]]
        return "%s(%s)" % ({"-": "neg", "+": "pos"}.get(e[1], OPNAME.get(e[1])), shape(e[2]))
    if k == "bin":
        return "%s(%s,%s)" % (OPNAME[e[1]], shape(e[2]), shape(e[3]))
    return "cond(%s,%s,%s)" % (shape(e[1]), shape(e[2]), shape(e[3]))


def b_exprs(tier):
    atoms = [a for a, c in ATOMS]
    for a, c in ATOMS:
        _CLS[atom_key(a)] = c
        if a[0] == "lit":
            _CLS[a[1]] = c
    byname = {atom_key(a): a for a in atoms}
    out = []
    out += atoms
    out += [("un", op, a) for op in UNOPS for a in atoms]
    out += [("bin", op, a, b) for op in BINOPS for a in atoms for b in atoms]
    s2 = [byname[x] for x in (SMALL if tier == "quick" else MEDIUM)]
    s1 = [byname[x] for x in SMALL]
    for op2 in BINOPS:
        for op1 in BINOPS:
            for a in s2:
                for b in s2:
                    inner = ("bin", op1, a, b)
                    for c in s2:
                        out.append(("bin", op2, inner, c))
                        out.append(("bin", op2, c, inner))
    out += [("un", op, ("bin", op1, a, b)) for op in UNOPS for op1 in BINOPS for a in s2 for b in s2]
    m = [byname[x] for x in MEDIUM]
    out += [("cond", c, a, b) for c in m for a in m for b in m]
    out += [("bin", op, ("cond", c, a, b), d) for op in ("<", "+", ">>", "/") for c in s1[:3] for a in s1 for b in s1
            for d in s1]
    return out


def b_render(e, v, u):
    t = M.etext(e)
    exp = ["T" if v != 0 else "F", "V"] + ([] if u else ["G"])
    txt = ("#if %s\nT\n#else\nF\n#endif\n#if (%s) == %s\nV\n#endif\n#if (0*(%s) - 1) < 0\nG\n#endif\n"
           % (t, t, M.lit_for(v, u), t))
    return txt, exp


def b_classify(exp, st, got):
    if st != 0:
        return "crash" if isinstance(st, int) and st < 0 else "rejected"
    got = got or []
    bad = []
    if ("T" in got) != ("T" in exp) or ("F" in got) != ("F" in exp):
        bad.append("truth")
    if ("V" in got) != ("V" in exp):
        bad.append("value")
    if ("G" in got) != ("G" in exp):
        bad.append("signedness")
    return "wrong-" + "+".join(bad) if bad else "garbled"


def b_task(args):
    chibicc, wd, exprs = args
    os.makedirs(wd, exist_ok=True)
    res = {"n": 0, "undef": 0, "disagree": 0, "ref_rejected": 0, "judged": 0, "viol": {}, "outcomes": set(),
           "disagree_ex": None}
    cases = []
    for e in exprs:
        res["n"] += 1
        try:
            v, u = M.ev(e)
        except M.Undef:
            res["undef"] += 1
            continue
        txt, exp = b_render(e, v, u)
        cases.append((e, txt, exp))
    for batch in core.chunks(cases, B_BATCH):
        texts = [b[1] for b in batch]
        r_c = run_batch(lambda s, o, c: cc_E(chibicc, s, o, c), wd, texts, prolog=B_PROLOG)
        r_g = run_batch(lambda s, o, c: gcc_E(s, o, c), wd, texts, prolog=B_PROLOG)
        for (e, txt, exp), (sc, tc, ec), (sg, tg, eg) in zip(batch, r_c, r_g):
            if sg != 0:
                res["ref_rejected"] += 1
                continue
            if tg != exp:
                res["disagree"] += 1
                if res["disagree_ex"] is None:
                    res["disagree_ex"] = (M.etext(e), exp, tg)
                continue
            res["judged"] += 1
            res["outcomes"].add(tuple(exp))
            if sc == 0 and tc == exp:
                continue
            (sa, ta, ea), = run_batch(lambda s, o, c: cc_E(chibicc, s, o, c), wd, [txt], prolog=B_PROLOG, name="alone.c")
            if sa == 0 and ta == exp:
                cls = "chained-differs-from-alone"
            else:
                cls = shape(e) + "|" + b_classify(exp, sa, ta)
            v = res["viol"].setdefault(cls, [0, None])
            v[0] += 1
            if v[1] is None or len(txt) < len(v[1][0]):
                v[1] = (txt, exp, ta, str(sa), ea, M.etext(e))
    return res


B_REPLAY = A_REPLAY


def part_b(ctx):
    exprs = b_exprs(ctx.tier)
    ntask = core.NPROC * 4
    tasks = [(ctx.chibicc, os.path.join(ctx.work, "b_%d" % i), exprs[i::ntask]) for i in range(ntask)]
    agg = {"n": 0, "undef": 0, "disagree": 0, "ref_rejected": 0, "judged": 0}
    outcomes = set()
    dis = None
    for r in core.pmap(b_task, tasks):
        for k in agg:
            agg[k] += r[k]
        outcomes |= r["outcomes"]
        dis = dis or r["disagree_ex"]
        for cls, (cnt, ex) in sorted(r["viol"].items()):
            txt, exp, got, st, err, et = ex
            ctx.violation("C10|if-arith|" + cls,
                          "#if %s: expected probes %s (T/F truth, V value, G signed), got %s (status %s)" % (et, exp, got, st),
                          files={"case.c": B_PROLOG + "S0\n" + txt + "S1\n", "expected.txt": "S0 " + " ".join(exp) + " S1\n",
                                 "observed.txt": "status=%s\n%s\n%s\n" % (st, " ".join(got or []), err)},
                          replay=B_REPLAY)
            for _ in range(cnt - 1):
                ctx.violation("C10|if-arith|" + cls, "")
    if dis:
        raise core.HarnessError("part B: model and gcc disagree on #if %s: model %s gcc %s" % dis)
    if agg["judged"] < 1000 or len(outcomes) < 4:
        raise core.HarnessError("part B vacuous: %s outcomes=%s" % (agg, outcomes))
    ctx.cover(b_expressions=agg["n"], b_judged=agg["judged"], skipped_undefined=agg["undef"],
              oracle_disagreements=agg["disagree"], ref_rejected=agg["ref_rejected"], b_distinct_outcomes=len(outcomes))
    e = ("bin", "<", ("bin", "+", NEG(L("1", 1)), L("0", 0)), L("0u", 0, True))
    ctx.sample({"part": "B", "expr": M.etext(e), "model": list(M.ev(e)), "rendering": b_render(e, *M.ev(e))[0]})


def run(ctx):
    quick = ctx.tier == "quick"
    if os.environ.get("C10_PARTS", "ABCDE").find("A") >= 0:
        part_a(ctx, int(os.environ.get("C10_N", 5 if quick else 6)), 3 if quick else 4, 1 if quick else 2)
    if os.environ.get("C10_PARTS", "ABCDE").find("B") >= 0:
        part_b(ctx)
    ctx.assume("gcc -E -P (gcc 12) is the second oracle: a case is judged only when the Python model and gcc agree")
