struct S { int a; } s = {.z = 1};
