int f(void) { 1 = 2; return 0; }
