int f(void) { goto l; return 0; }
